"""Per-property configuration for ./check: runs, offline oracles, coverage floors, evidence text."""
import os
import time
import subprocess

import models
import offline

SETUP_BUILDS = ["st"]


def prop_of(monitor):
    return monitor[:3].upper()


_selftested = set()


def selftest_models(cfg):
    which = None if cfg is None else cfg.get("models")
    key = "all" if which is None else ",".join(sorted(which))
    if cfg is not None and not which:
        return
    if key in _selftested:
        return
    try:
        models.selftest(which)
    except AssertionError as e:
        from check import Inconclusive  # type: ignore
        raise Inconclusive("python reference model failed its published vectors: %r" % (e,))
    _selftested.add(key)


def build_shim(root, cache):
    src = os.path.join(root, "shim", "interpose.c")
    if not os.path.exists(src):
        return
    out = os.path.join(cache, "interpose.so")
    subprocess.run(["gcc", "-O2", "-shared", "-fPIC", "-o", out, src, "-ldl"], check=True)


def need(m, dim, keys, why):
    have = m.cov.get(dim, {})
    missing = [k for k in keys if str(k) not in have]
    return ["%s: %s missing %s" % (why, dim, missing[:8])] if missing else []


TB_COMMON = ["rustc/cargo as installed", "libsodium 1.0.18 built from the vendored libsodium-sys source (reference #1)",
             "pure-Python models in pyref/models.py, pinned by published vectors (reference #2)",
             "the monitors in harness/src/mon and this orchestrator"]

PROPS = {}



def _simd(monitor):
    """the monitor once more on the nightly portable-SIMD backend (tiny corpus in the quick tier, quick corpus in the
    thorough tier): BLAKE2b-based code has a second implementation there that no stable build compiles"""
    return lambda tier: [dict(build="ni-simd", monitor=monitor, tier=("quick" if tier == "thorough" else "tiny"))]



def _nirel(monitor, **kw):
    """the nightly monitor once more in a plain release build (tiny corpus in the quick tier, quick corpus in the thorough tier)"""
    return lambda tier: [dict(build="ni-rel", monitor=monitor, tier=("quick" if tier == "thorough" else "tiny"), **kw)]


def _rel(monitor):
    """the monitor once more in a plain release build (tiny corpus in the quick tier, quick corpus in the thorough tier) (no debug assertions, no overflow
    checks): code whose behaviour differs between the profiles (side effects inside debug_assert!, wrapping arithmetic)"""
    return lambda tier: [dict(build="st-rel", monitor=monitor, tier=("quick" if tier == "thorough" else "tiny"))]



def _ASAN(monitor):
    def fn(ctx):
        return _asan(monitor)(ctx)
    return fn


def _MIRI(monitor):
    def fn(ctx):
        return _miri(monitor)(ctx)
    return fn

# ---------------------------------------------------------------------------------------------- C07


def _c07_floors(m, tier):
    out = []
    out += need(m, "len_mod128", range(128), "every residue of the BLAKE2b/SHA-512 block")
    out += need(m, "len_mod16", range(16), "every residue of the Poly1305 block")
    out += need(m, "poly_accumulator_target", ["p-1%+d" % d for d in range(-8, 17)], "accumulator landing points")
    out += need(m, "poly_r", ["r=0", "r=1", "r=2", "r=max"], "special r")
    out += need(m, "poly_s", ["s=0", "s=2^128-1"], "special s")
    if len(m.cov.get("digest_key_pairs", {})) < 49 * 50:
        out.append("not all 49x50 (digest,key) length pairs visited: %d" % len(m.cov.get("digest_key_pairs", {})))
    out += need(m, "increment_len", range(65), "sodium_increment lengths")
    out += need(m, "long_input_len", [4096, 65536], "multi-KiB inputs")
    return out


PROPS["C07"] = dict(
    level="exploration",
    technique="runtime differential monitoring: online reference-model oracle (libsodium) over generated + adversarial inputs, offline pure-Python spec-model oracle over the sampled event log",
    level_text="Every public hash/MAC/core entry point is executed on every input length 0..=1100 in three content classes, on all 49x50 "
               "digest/key length pairs (object API also with Vec keys longer than KEY_LENGTH) and on adversarial Poly1305 operands, and each output is compared with two independent references. "
               "Exploration is the honest level: the input space is unbounded, the run samples it densely at the block boundaries.",
    level_note="Trusts libsodium 1.0.18 and the vector-pinned Python models as specifications; a disagreement between the two references is reported as inconclusive, never as a violation.",
    runs=lambda tier: [dict(build="st", monitor="c07")] + _rel("c07")(tier) + _simd("c07")(tier),
    offline=offline.check_c07,
    models=["poly1305", "chacha20", "salsa20", "siphash"],
    floors=_c07_floors,
    rule="cases = (primitive, input length 0..=1100, content class, key class) + all 49x50 BLAKE2b (digest,key) length "
         "pairs x 6 lengths + adversarial Poly1305 operands (accumulator at p-9..2^130+10, all-0xff blocks, special r/s) "
         "+ HSalsa20/HChaCha20 inputs + increment lengths/prefixes; a case is distinct by its generated parameters; "
         "every case is compared byte-for-byte with libsodium online, a sample with the Python models offline",
    assumptions=["inputs long enough to carry the BLAKE2b counter past 2^64 are excluded by the property",
                 "libsodium and the Python models are independent implementations of the same specifications"],
    trusted_base=TB_COMMON,
)

# ---------------------------------------------------------------------------------------------- C08


def _c08_floors(m, tier):
    out = []
    n16 = len(m.cov.get("fill_x_piece[16]", {}))
    n128 = len(m.cov.get("fill_x_piece[128]", {}))
    if n16 < 79:
        out.append("only %d of the 79 reachable (buffer fill, piece class) pairs of the 16-byte buffer seen" % n16)
    if n128 < 639:
        out.append("only %d of the 639 reachable (buffer fill, piece class) pairs of the 128-byte buffers seen" % n128)
    if len(m.cov.get("interface", {})) < 11:
        out.append("not all 11 incremental interfaces driven")
    return out


PROPS["C08"] = dict(
    level="exploration",
    technique="runtime differential monitoring: exhaustive 2-/3-way and random k-way chunkings of every incremental interface, each result compared with the one-shot result (and libsodium's one-shot)",
    level_text="All 2-way splits of every length 0..=L2 and all 3-way splits of every length 0..=L3 (empty pieces included) are enumerated for "
               "11 incremental interfaces, plus seeded random k-way partitions of messages up to 16 KiB; the split enumeration is exhaustive "
               "within its bounds, which reach every (buffer fill, piece class) state of the 16- and 128-byte block buffers; beyond the bounds it is sampling. A parameter-agreement family compares incremental and one-shot generic hash over key lengths {none, 0..128} x digest lengths {0..65} (accepted and refused alike) and the verification decision of incremental and one-shot MACs when the authenticator is handed over in a Vec of exact length or longer than the MAC.",
    level_note="Message contents are one seeded random string per length; the one-shot value is additionally pinned to libsodium.",
    runs=lambda tier: [dict(build="st", monitor="c08")] + _rel("c08")(tier) + _simd("c08")(tier) + ([dict(kind="custom", fn=_MIRI("c08"))] if tier == "thorough" else []),
    floors=_c08_floors,
    rule="a case is one (interface, message length, partition) triple; distinct = distinct (interface, length, first cut) enumeration cells / random draws; "
         "non-trivial = at least two pieces; quick: L2=400, L3=140 (signing 150/30); thorough: L2=1100, L3=300 (signing 400/70)",
    assumptions=["the one-shot functions are correct on the same messages (decided by C07 / C06)"],
    trusted_base=TB_COMMON,
)

# ---------------------------------------------------------------------------------------------- C12


def _c12_floors(m, tier):
    out = need(m, "subkey_len", range(16, 65), "accepted subkey lengths")
    out += need(m, "rejected_len", list(range(0, 16)) + list(range(65, 81)), "rejected subkey lengths")
    out += need(m, "id_class", ["0x0", "0x1", "0x100000000", "0x8000000000000000", "0xffffffffffffffff", "random"], "subkey ids")
    return out


PROPS["C12"] = dict(
    level="exploration",
    technique="runtime differential monitoring: libsodium crypto_kdf_derive_from_key online, hashlib.blake2b (salt/personal) offline on every logged derivation, plus relatedness checks between lengths/ids/contexts",
    level_text="Every subkey length 16..=64 and every rejected length 0..=15, 65..=80 is exercised for each cell of {key class} x {context class} x "
               "{special and random ids}; each subkey is compared with libsodium and with an independent BLAKE2b; lengths are enumerated completely, keys/ids sampled. Output buffers are handed over full of stale bytes, and the whole workload runs a second time in a plain release build (no debug assertions, no overflow checks).",
    level_note="Trusts libsodium and hashlib's BLAKE2b as two independent implementations of the keyed, salted, personalised BLAKE2b that crypto_kdf is defined as.",
    runs=lambda tier: [dict(build="st", monitor="c12"), dict(build="st-rel", monitor="c12")] + _simd("c12")(tier),
    offline=offline.check_c12,
    models=[],
    floors=_c12_floors,
    rule="a case is (master key, context, subkey id, subkey length); distinct by those parameters; all 49 accepted and 32 rejected lengths per cell",
    assumptions=[],
    trusted_base=TB_COMMON,
)

# ---------------------------------------------------------------------------------------------- C05


def _c05_floors(m, tier):
    out = need(m, "point_class", ["random_encoding", "prime_subgroup", "loworder", "edge_encoding"], "point classes")
    out += need(m, "special_point", ["loworder:0", "loworder:1", "loworder:order8a", "loworder:order8b", "loworder:p-1", "loworder:p",
                                     "loworder:p+1", "loworder:order8a|bit255", "u=2^255-1", "u=p+2", "u=2", "rfc7748:u1"], "special encodings")
    out += need(m, "kx", ["honest", "loworder_peer", "random_peer", "edge_peer"], "kx peer classes")
    out += need(m, "structured_shared_secret", ["w0=w1,w2=w3", "w0=w2,w1=w3", "all_words_equal", "xor_of_words_zero", "low_half_zero", "high_half_zero", "single_nonzero_word", "first_16_zero"], "structured shared secrets")
    out += need(m, "beforenm", ["locked_and_readonly_locked_containers"], "locked precomputation")
    out += need(m, "kx_own_public_key_form", ["bit255_set", "belongs_to_another_secret_key", "all_zero"], "forms of the own public key in key exchange")
    out += need(m, "rfc7748_iterations", ["1", "1000"] if tier == "quick" else ["1", "1000", "1000000"], "RFC 7748 iterated vectors")
    if "x25519_point_side" in m.cov and len(m.cov["x25519_point_side"]) < 2:
        out.append("offline classification saw only one of curve/twist")
    return out


PROPS["C05"] = dict(
    level="exploration",
    technique="runtime differential monitoring: libsodium crypto_scalarmult / crypto_box_beforenm / crypto_kx online on random, low-order, twist and non-canonical encodings; RFC 7748 Montgomery ladder in Python offline; RFC iterated vectors",
    level_text="X25519 is executed on uniformly random 32-byte encodings (most of them off the prime-order subgroup), on the complete low-order table with "
               "its non-canonical and high-bit variants, on edge field elements around p and 2^255, and on the RFC 7748 (iterated) vectors; DH commutativity, "
               "box precomputation and key-exchange session keys (classic + object API) are compared with libsodium including its refusals. Every one-bit neighbour (256 per encoding) and random one-byte neighbours of every special encoding and of the base point are multiplied as well, peers are constructed so that the shared secret has repeating / cancelling / mostly-zero words, and the object-API sessions must derive libsodium's keys for every special and random peer encoding (not only take the same accept/refuse decision). Honest exchanges are repeated with the own public key in another form (bit 255 set, belonging to another secret key, all-zero): both APIs must hash the bytes supplied, as libsodium does. The scalar/point "
               "space is 2^512, so this is exploration: dense on the special encodings, sampled elsewhere.",
    level_note="Where libsodium returns -1 (block-listed input or all-zero result) the RFC 7748 value is all-zero; the Python ladder arbitrates those cases offline.",
    runs=lambda tier: [dict(build="st", monitor="c05"), dict(build="ni", monitor="c05", opts=NI_ONLY)] + _rel("c05")(tier),
    offline=offline.check_c05,
    models=["x25519", "salsa20"],
    floors=_c05_floors,
    rule="a case is (scalar, point encoding) or (key pair, peer key); distinct by the generated 32-byte values / special-table cell; non-trivial: every case "
         "(no two draws coincide); the offline oracle classifies sampled points as on-curve / on-twist",
    assumptions=["crypto_box_beforenm cannot signal failure in dryoc's signature: where libsodium refuses a peer key the value is not compared (counted in coverage.dimensions.beforenm)"],
    trusted_base=TB_COMMON,
)

# ---------------------------------------------------------------------------------------------- C06


def _c06_floors(m, tier):
    fams = ["valid_pure", "valid_prehashed", "pure_sig_to_prehashed_verify", "prehashed_sig_to_pure_verify", "S_plus_kL",
            "sig_bit_flip", "pk_bit_flip", "msg_bit_flip", "msg_bit_flip_prehashed", "sig_bit_flip_prehashed",
            "small_order_public_key(equation-valid forgery)", "small_order_R(S=k*a)", "small_order_R_prehashed",
            "mixed_order_public_key(k*T=identity)", "mixed_order_public_key(k*T!=identity)"]
    out = need(m, "negative_family", fams, "verification families")
    if len(m.cov.get("small_order_A", {})) < 14 or len(m.cov.get("small_order_R", {})) < 14:
        out.append("not all 14 small-order / non-canonical encodings used as A and as R")
    out += need(m, "S_plus_kL_k", range(1, 15), "malleation multiples k")
    out += need(m, "msg_len_mod128", range(128), "message length residues mod 128")
    out += need(m, "negative_family", ["small_order_public_key(equation-valid forgery)|prehashed", "small_order_R(S=k*a)|prehashed", "small_order_A_and_R(S=0)", "small_order_A_and_R(S=0)|prehashed"], "pre-hashed forgery families")
    out += need(m, "from_secret_key_buffer", ["consistent", "zeros", "ff", "seed_repeated", "public_half_one_bit_flipped"], "secret-key buffer variants")
    if len(m.cov.get("ground_public_key_class", {})) < 4:
        out.append("seed grinding found only %d of 5 structured public-key classes" % len(m.cov.get("ground_public_key_class", {})))
    return out


PROPS["C06"] = dict(
    level="exploration",
    technique="runtime differential monitoring: libsodium crypto_sign_* bytes and accept/reject decisions online over generated messages and an enumerated negative family (bit flips, S+kL, small-order A/R forgeries, mode cross-overs); RFC 8032 Python signer/verifier offline",
    level_text="Signing through every classic and object entry point is compared byte-for-byte with libsodium for every message length 0..=L, in pure and pre-hashed mode; "
               "verification decisions of every entry point are compared with libsodium on all single-bit mutations (exhaustively on a subset of cases), the full S+kL family, "
               "equation-valid forgeries built on all 14 small-order / non-canonical encodings as A and as R, and mode cross-overs. Honest key pairs with structured public-key encodings are found by grinding 4 M (quick) / 64 M (thorough) seeds and exercised like the others; key-pair objects are rebuilt from secret-key buffers whose public half is inconsistent with the seed. The forgeries are equation-valid in the mode they are presented in (pure and pre-hashed challenge), include small-order A together with small-order R and S = 0, and mixed-order keys A + T in both modes. Seeds and messages are sampled.",
    level_note="This libsodium build is the default (non ED25519_COMPAT) one; its decision is the specification the property names. The Python RFC 8032 model re-checks a sample.",
    runs=lambda tier: [dict(build="st", monitor="c06")] + _rel("c06")(tier),
    offline=offline.check_c06,
    models=["ed25519"],
    floors=_c06_floors,
    rule="positive cases: (seed, message) per length 0..=300 (quick) / 0..=1100+4KiB+64KiB (thorough); negative cases: one (signature, message, key) triple per mutation; "
         "distinct by (length, seed index) resp. (encoding, repetition)",
    assumptions=[],
    trusted_base=TB_COMMON,
)

# ------------------------------------------------------------------------------------ C01 / C02 / C17

NI_ONLY = {"nightly_forms_only": "1"}


def _c01_floors(m, tier):
    out = need(m, "len_mod16", range(16), "message length residues mod 16")
    out += need(m, "len_mod64", range(64), "message length residues mod 64")
    if len(m.cov.get("poly1305_edge_messages", {})) < 10:
        out.append("crafted Poly1305-edge messages: only %d of 10 (family, residue) cells built" % len(m.cov.get("poly1305_edge_messages", {})))
    ne, no = len(m.cov.get("enc_form", {})), len(m.cov.get("open_form", {}))
    if ne < 30:
        out.append("only %d of 30 encryption forms (24 stable + 6 heap/locked) driven" % ne)
    if no < 32:
        out.append("only %d of 32 opening forms (26 stable incl. 4 trial-decryption sequences + 6 heap/locked) driven" % no)
    if len(m.cov.get("poly1305_limb_edge_messages", {})) < (8 if tier == "quick" else 16):
        out.append("crafted Poly1305 limb-edge messages: only %d cells built" % len(m.cov.get("poly1305_limb_edge_messages", {})))
    for dim, kv in m.cov.items():
        if dim.startswith("enc_form_x_len_mod16[") and len(kv) < 16:
            out.append("%s saw only %d residues" % (dim, len(kv)))
    return out


PROPS["C01"] = dict(
    level="exploration",
    technique="runtime differential monitoring: every encryption/open entry point x container type executed on every message length, ciphertext bytes compared with libsodium, cross-opening in both directions, sealed-box construction re-derived; Python XSalsa20-Poly1305 / X25519 model offline",
    level_text="30 encryption forms and 32 opening forms (classic easy/detached/in-place/afternm/seal, in-place forms re-tried on the same buffer after a wrong key, and the object API over array, stack, Vec, heap, locked and read-only-locked "
               "containers) are run on every message length 0..=320 (quick) / 0..=1100 (thorough) plus multi-KiB lengths with seeded keys including all-zero/all-0xff keys and nonces; "
               "each ciphertext must equal libsodium's bytes and each libsodium ciphertext must open. Keys, nonces and contents are sampled; lengths are enumerated.",
    level_note="libsodium is the specification named by the property; sealed boxes are checked by libsodium opening them and by re-deriving nonce = BLAKE2b-24(epk||rpk).",
    runs=lambda tier: [dict(build="st", monitor="c01"), dict(build="ni", monitor="c01", opts=NI_ONLY)] + _rel("c01")(tier),
    offline=offline.check_c01,
    models=["salsa20", "poly1305", "x25519"],
    floors=_c01_floors,
    rule="a case is (message length, key set) driven through every form; distinct by (length, key set index); all cases non-trivial (authentic encrypt + open); "
         "each form is additionally tracked per length residue mod 16",
    assumptions=["key pairs come from seeds through libsodium's crypto_box_seed_keypair (C13 decides dryoc's own seeded generation)"],
    trusted_base=TB_COMMON,
)


def _fault_floors(pid):
    def floors(m, tier):
        cells = m.cov.get("form_x_component_x_fault", {})
        out = []
        for comp in ["tag|bit_flip", "body|bit_flip", "nonce|bit_flip", "key|bit_flip", "ephemeral_pk|bit_flip", "header|bit_flip",
                     "associated_data|bit_flip", "encrypted_tag_byte|bit_flip", "ciphertext|truncate", "ciphertext|extend"]:
            if not any(k.endswith("|" + comp) for k in cells):
                out.append("fault class %s never exercised" % comp)
        if not any("buffer sized for the genuine message" in k for k in cells):
            out.append("length-changing faults never presented with a caller buffer sized for the genuine message")
        forms = {k.split("|")[0] for k in cells}
        if len(forms) < 34:
            out.append("only %d of 34 opening forms (26 AE + 6 heap/locked + 2 stream) reached by faults" % len(forms))
        return out
    return floors


_FAULT_RULE = ("a case is one authentic message (form family, message length, AD length, stream position) with exactly one corruption: every single bit of tag, body, nonce, "
               "symmetric/precomputed/stream key, stream header, associated data, sealed-box ephemeral key, every truncation 1..=len, extensions by {1,15,16,17,64} bytes of 0x00/0xff; "
               "the enumeration is exhaustive for each authentic message; distinct = authentic messages; evaluations = (corruption, opening form) pairs")

PROPS["C02"] = dict(
    level="fault_enumeration",
    technique="runtime fault enumeration: exhaustive single-corruption family injected at the wire/key boundary of every opening entry point, oracle = Err for every corrupted input and Ok for the control (libsodium must reject the same input, else inconclusive)",
    level_text="For each authentic message the complete single-corruption family is enumerated and every opening form of its family is called; the fault space per message is finite and covered "
               "completely, message lengths are 8 boundary lengths (quick) or 0..=96 + {255,256,257,1024} (thorough). Box public/secret key bits are not flipped (X25519 ignores bit 255 and clamps "
               "5 scalar bits, so those are not corruptions of the shared key); the sealed-box ephemeral key is. Truncated and extended ciphertexts are presented twice to the copying forms: with an output buffer sized from the wire and with one sized for the genuine message. In-place forms are also driven as trial decryption (wrong key first, then the right key on the same buffer); caller buffers start at every alignment mod 8; earlier stream messages carry varied tag bytes and an authentic earlier message that is refused is itself a violation.",
    level_note="Keys and message contents are sampled once per authentic message; the enumeration over corruptions is exhaustive.",
    runs=lambda tier: [dict(build="st", monitor="c02"), dict(build="ni", monitor="c02", opts=NI_ONLY)] + _rel("c02")(tier),
    floors=_fault_floors("C02"),
    exhaustive=True,
    rule=_FAULT_RULE,
    assumptions=["the exhaustive flag refers to the corruption family per authentic message, not to the space of keys/messages"],
    trusted_base=TB_COMMON,
)

PROPS["C17"] = dict(
    level="fault_enumeration",
    technique="runtime fault enumeration: the C02 corruption family replayed against every classic open function with sentinel-filled caller buffers; oracle = after Err every output byte is its pre-call value or zero, the stream tag variable is untouched, and the error text does not vary with the rejected bytes",
    level_text="Same exhaustive single-corruption family as C02; after every rejected open the caller-visible message buffer (copying forms: pre-filled with a zero-free sentinel; in-place forms: the "
               "tampered input itself) and the stream tag output are inspected byte by byte under the most permissive reading of 'left as they were or zeroed'. Caller buffers start at every alignment mod 8 (slots inside a larger allocation); length-changing corruptions are also presented with a buffer sized for the genuine message; in-place forms are also driven as trial decryption; the set of error texts per entry point and wire length must stay small (an error text that varies with the rejected bytes is a release).",
    level_note="A leaked keystream-XORed byte escapes the per-byte test only if it happens to equal the sentinel byte or zero (probability 2/256 per byte); over the enumerated family a leak of any length is caught essentially always.",
    runs=lambda tier: [dict(build="st", monitor="c17"), dict(build="ni", monitor="c17", opts=NI_ONLY)] + _rel("c17")(tier),
    floors=_fault_floors("C17"),
    exhaustive=True,
    rule=_FAULT_RULE,
    assumptions=["object-API forms are checked only for 'returns nothing but an error'"],
    trusted_base=TB_COMMON,
)

# ---------------------------------------------------------------------------------------------- C03


def _c03_floors(m, tier):
    kinds = ["replay", "skip", "swap", "foreign", "wrong_ad", "bit_flip", "short_ciphertext", "short_buffer"]
    out = need(m, "wrong_delivery", ["%s|%s" % (k, p) for k in kinds for p in ("before_rekey", "after_rekey")], "wrong-delivery kind x rekey phase")
    out += need(m, "counter_class", ["fresh", "midrange", "0xfffffffe", "0xffffffff"], "counter classes")
    out += need(m, "auto_rekey", ["by_tag", "by_counter_wrap"], "automatic rekey causes")
    out += need(m, "len_mod16", range(16), "message length residues mod 16")
    out += need(m, "len_mod64", range(64), "message length residues mod 64")
    out += need(m, "api", ["classic", "DryocStream"], "API")
    out += need(m, "explicit_rekey", ["done"], "explicit rekey")
    return out


PROPS["C03"] = dict(
    level="exploration",
    technique="runtime history monitoring: seeded random operation histories drive dryoc push/pull and libsodium push/pull in lockstep (libsodium = executable sequential model); after every step ciphertexts, pulled messages/tags and the hooked internal (key, nonce) states are compared; wrong deliveries must be rejected without state change; Python ChaCha20-Poly1305 secretstream model replays sampled histories offline",
    level_text="Histories of depth 24 over {push(len, adlen, tag), explicit rekey, deliver-in-order, deliver-wrong(replay|skip|swap|foreign|wrong-AD|bit-flip)} are generated from a seed, "
               "each started from the four counter classes (1, mid-range, 0xfffffffe, 0xffffffff via the verif_hooks state constructor) and run through the classic functions or DryocStream; "
               "24 000 histories quick, 800 000 thorough. The history space is unbounded, so this is exploration with a coverage floor on every wrong-delivery kind before and after a rekey.",
    level_note="libsodium's public state struct (k, nonce) is compared with dryoc's hooked state after every operation; a wrong delivery that libsodium would accept is treated as a harness fault.",
    runs=lambda tier: [dict(build="st", monitor="c03")] + _rel("c03")(tier),
    offline=offline.check_c03,
    models=["chacha20", "poly1305", "secretstream"],
    floors=_c03_floors,
    rule="a case is one history (seeded op sequence x counter class x API); distinct by history index; non-trivial: every history performs at least one push and one delivery attempt; "
         "evaluations count individual oracle comparisons (ciphertext, state, message, tag, rejection, state-unchanged)",
    assumptions=["2^32 pushes are out of reach: counter wrap is reached through the hook that sets the counter"],
    trusted_base=TB_COMMON + ["hook: State::verif_from_parts / verif_parts, DryocStream::verif_from_state / verif_state (feature verif_hooks)"],
)

# ---------------------------------------------------------------------------------------------- C04


def _c04_floors(m, tier):
    out = []
    if len(m.cov.get("entry_point", {})) < 21:
        out.append("only %d of 21 entry-point groups (17 stable + 4 heap/locked) driven" % len(m.cov.get("entry_point", {})))
    out += need(m, "stream_tag_byte", range(256), "authentic stream messages with every tag byte")
    out += need(m, "stream_counter_class", ["fresh", "midrange", "0xfffffffe", "0xffffffff"], "stream counter classes")
    out += need(m, "content_class", ["zeros", "ff", "random", "valid_prefix", "valid_mutated", "valid"], "content classes")
    out += need(m, "pwhash_family", ["grammar", "structural_mutation", "parameter_list", "base64", "random_bytes(lossy utf8)", "separator_runs", "valid", "valid_one_char_mutated", "single_edit_insert", "single_edit_replace", "single_edit_delete"], "password-string families")
    if len(m.cov.get("shorter_than_overhead", {})) < 16:
        out.append("inputs shorter than the fixed overhead not presented to every entry point")
    if not m.cov.get("pwhash_verify_reached"):
        out.append("password verification (bounded cost) never reached")
    return out


def _fuzz_c04(ctx):
    """libFuzzer (cargo-fuzz, AddressSanitizer on) in front of the C04 entry points: a coverage-guided workload generator.
    Only crashes (panics, sanitizer reports, the absurd-allocation assertion) count; timeouts and OOMs are ignored."""
    import glob
    import re
    import shutil
    import subprocess
    m = ctx["m"]
    secs = 150 if ctx["tier"] == "thorough" else 20
    fz = os.path.join(ctx["root"], "harness", "fuzz")
    work = os.path.join(ctx["cache"], "fuzz-c04")
    shutil.rmtree(work, ignore_errors=True)
    os.makedirs(os.path.join(work, "corpus"))
    os.makedirs(os.path.join(work, "artifacts"))
    env = dict(ctx["env"])
    env["CARGO_TARGET_DIR"] = os.path.join(ctx["cache"], "target-fuzz")
    b = subprocess.run(["cargo", "+nightly", "fuzz", "build", "c04"], cwd=fz, env=env, stdout=subprocess.PIPE, stderr=subprocess.STDOUT, text=True)
    if b.returncode != 0:
        m.problems.append("cargo fuzz build failed: " + b.stdout[-500:].replace("\n", " | "))
        return
    cmd = ["cargo", "+nightly", "fuzz", "run", "c04", os.path.join(work, "corpus"), "--", "-max_total_time=%d" % secs, "-fork=16", "-timeout=10",
           "-len_control=0", "-max_len=600", "-seed=%d" % ctx["seed"], "-dict=" + os.path.join(fz, "c04.dict"), "-artifact_prefix=" + os.path.join(work, "artifacts") + "/"]
    try:
        p = subprocess.run(cmd, cwd=fz, env=env, stdout=subprocess.PIPE, stderr=subprocess.STDOUT, text=True, timeout=secs + 900, errors="replace")
        out = p.stdout
    except subprocess.TimeoutExpired as e:
        m.problems.append("libFuzzer run hit the wall-clock watchdog")
        return
    stats = re.findall(r"#(\d+): cov: (\d+) ft: (\d+) corp: (\d+)", out)
    execs, cov, ft, corp = (int(x) for x in stats[-1]) if stats else (0, 0, 0, 0)
    crashes = sorted(glob.glob(os.path.join(work, "artifacts", "crash-*")))
    for c in crashes[:5]:
        data = open(c, "rb").read()
        # reproduce once to get the message
        r = subprocess.run(["cargo", "+nightly", "fuzz", "run", "c04", c, "--", "-runs=1"], cwd=fz, env=env, stdout=subprocess.PIPE, stderr=subprocess.STDOUT, text=True, errors="replace")
        msg = re.search(r"panicked at ([^\n]+)\n([^\n]*)", r.stdout)
        san = re.search(r"ERROR: AddressSanitizer: ([\w-]+)", r.stdout)
        where = (msg.group(1).split(":")[0] if msg else (san.group(1) if san else "unknown"))
        keep = os.path.join(ctx["root"], "replays", "C04-fuzz-" + os.path.basename(c))
        shutil.copy(c, keep)
        m.add_viol("C04|libfuzzer_crash|%s" % where.replace("/repo/", ""), 1,
                   {"input_hex": data[:200].hex(), "selector_byte": data[0] if data else None, "panic": (msg.group(0)[:400] if msg else None), "sanitizer": san.group(0) if san else None,
                    "artifact": os.path.relpath(keep, ctx["root"])},
                   dict(seed=ctx["seed"], tier=ctx["tier"], monitor="libfuzzer:c04", build="fuzz+asan", shard=-1, nshards=16))
    if execs == 0:
        m.problems.append("libFuzzer reported no executions: " + out[-400:].replace("\n", " | "))
    m.evals += execs
    ctx["extra_cov"]["libfuzzer"] = dict(seconds=secs, executions=execs, coverage_edges=cov, features=ft, corpus_entries=corp, crashes=len(crashes),
                                         ignored=dict(timeouts=len(glob.glob(os.path.join(work, "artifacts", "timeout-*"))), ooms=len(glob.glob(os.path.join(work, "artifacts", "oom-*")))))
    shutil.rmtree(work, ignore_errors=True)


PROPS["C04"] = dict(
    level="exploration",
    technique="runtime totality monitoring: every attacker-facing entry point executed on generated byte strings (every length x content class, every stream tag byte, grammar-based password strings) under catch_unwind, a fatal-signal reporter and a counting allocator, in an overflow-checked and a plain release build",
    level_text="21 groups of opening / verifying / parsing entry points (classic and object API; 4 of them with heap / locked containers on nightly) receive every input length 0..=2*overhead+64 in six content classes (zeros, 0xff, random, valid prefix, "
               "valid with one bit flipped, valid), authentic stream messages with all 256 tag bytes through both pull APIs, and password-hash strings from a field grammar with structural, numeric, "
               "base64 and unicode mutations. A panic, a fatal signal, an arithmetic-overflow panic (overflow-checked build) or a single allocation request above 64*len+1MiB is a violation. "
               "Run twice because an unchecked subtraction panics in one build and requests ~2^64 bytes in the other.",
    level_note="Password verification is only attempted when every m=/t= number in the string is within the bounded-cost cap (m<=1024 KiB, t<=3), as the property's 'bounded cost parameters' allows; parsing paths run on all strings.",
    runs=lambda tier: [dict(build="st", monitor="c04"), dict(build="st-rel", monitor="c04"), dict(build="ni", monitor="c04", opts=NI_ONLY)] + ([dict(kind="custom", fn=_MIRI("c04")), dict(kind="custom", fn=_fuzz_c04)] if tier == "thorough" else []),
    floors=_c04_floors,
    rule="a case is (entry-point group, input bytes); distinct by (entry point, length, content class, repetition) / (tag byte, message length) / generated string index; "
         "non-trivial: all (every call reaches the function under test with caller-side buffers sized as documented)",
    assumptions=["caller-side output buffers are sized as the documentation prescribes (len - overhead, saturating at 0)", "authentic inputs are produced by dryoc's own encrypt/sign/push functions (decided byte-exact by C01/C03/C06)"],
    trusted_base=TB_COMMON + ["std::panic::catch_unwind, a SIGSEGV/SIGABRT/SIGBUS/SIGILL/SIGFPE reporter and a counting GlobalAlloc in the harness"],
)

# ---------------------------------------------------------------------------------------------- C13


def _c13_floors(m, tier):
    out = need(m, "box_seed_len", range(129), "box seed lengths")
    out += need(m, "function", ["crypto_kx_seed_keypair", "crypto_sign_seed_keypair", "ed25519_to_curve25519", "KeyPair::from_secret_key", "PwHash::derive_keypair"], "functions")
    out += need(m, "secret_key_class", ["ff", "zeros", "unclamped_random", "random"], "secret key classes")
    out += need(m, "derive_keypair_config_hash_length", ["32", "16", "33", "64"], "Config hash lengths for derive_keypair")
    out += need(m, "derive_keypair_algorithm", ["argon2i", "argon2id"], "algorithms for derive_keypair")
    out += need(m, "derive_keypair_passes", ["1", "2", "3", "4", "5", "6"], "pass counts for derive_keypair")
    return out


PROPS["C13"] = dict(
    level="exploration",
    technique="runtime differential monitoring: seeded/deterministic key generation compared with libsodium's functions where it accepts the input and with its construction rebuilt from libsodium primitives (SHA-512, BLAKE2b, Argon2 core, X25519 base mult) elsewhere; Python models offline",
    level_text="Box seeds of every length 0..=128 (zeros, 0xff, random), kx and signing seeds, secret keys including unclamped/all-ones ones, password-derived key pairs at minimum cost with salts of 8..64 bytes and "
               "Config hash lengths other than 32 (1..=6 passes; Argon2id, and Argon2i through a configuration parsed from an $argon2i$ string), and Ed25519-to-X25519 conversion of honest pairs are compared with libsodium; the converted pair must be self-consistent. Seeds are sampled, seed lengths enumerated.",
    level_note="For inputs libsodium's API cannot take (seed length != 32, salt length != 16) the reference is the documented construction computed from libsodium primitives, plus the independent Python model.",
    runs=lambda tier: [dict(build="st", monitor="c13")] + _rel("c13")(tier) + _simd("c13")(tier),
    offline=offline.check_c13,
    models=["x25519", "ed25519", "argon2"],
    floors=_c13_floors,
    rule="a case is (function, seed/secret key/password parameters); distinct by generated index resp. (seed length, repetition)",
    assumptions=["dishonest Ed25519 public keys are out of scope of the property's conversion clause"],
    trusted_base=TB_COMMON,
)

# ---------------------------------------------------------------------------------------------- C09


def _c09_floors(m, tier):
    out = need(m, "alg", ["argon2i", "argon2id"], "algorithms")
    out += need(m, "t", range(1, 7), "pass counts")
    out += need(m, "m_mod4", range(4), "memory sizes modulo the segment granularity")
    out += need(m, "m_kib", [8, 9, 11, 15, 17, 33, 255, 516, 1000, 1024, 2044, 4099], "memory sizes")
    out += need(m, "outlen_mod32", range(32), "output length residues mod 32")
    out += need(m, "outlen", [16, 63, 64, 65, 95, 96, 97, 127, 128, 129, 255, 256, 257, 1024, 1100], "output lengths at the H' boundaries")
    out += need(m, "salt_len", range(8, 65), "salt lengths")
    out += need(m, "rejected_parameter", ["outlen", "saltlen", "opslimit", "memlimit"], "rejected parameters")
    out += need(m, "reference", ["crypto_pwhash+argon2_core", "argon2_core_only"], "references")
    return out


PROPS["C09"] = dict(
    level="exploration",
    technique="runtime differential monitoring: crypto_pwhash / PwHash outputs compared with libsodium's crypto_pwhash and with its internal Argon2 core (argon2i/id_hash_raw) over a parameter grid + seeded random sets; independent RFC 9106 Python Argon2 offline on the low-cost sample; rejection of out-of-range parameters",
    level_text="Argon2i and Argon2id are run for every output length 16..=200 plus {255,256,257,1023,1024,1025,1100}, password lengths 0..=300, pass counts 1..=6, 22 memory sizes from 8 KiB to 4 MiB including "
               "non-multiples of 4 KiB and sizes whose segment length is not a multiple of 128, salts of 8..=64 bytes, and seeded random combinations; each output equals libsodium's. "
               "Out-of-range output/salt lengths and costs must be rejected; PwHash::verify must accept the right and reject altered passwords. The parameter space is sampled on a grid, hence exploration.",
    level_note="libsodium's public function refuses Argon2i with t<3 and salts != 16 bytes; those cells use libsodium's internal Argon2 core (same code path its public function calls) and the independent Python model (m<=64 KiB, t<=3).",
    runs=lambda tier: [dict(build="st", monitor="c09", timeout=(300 if tier == "quick" else 3000))] + _rel("c09")(tier) + _simd("c09")(tier),
    offline=offline.check_c09,
    models=["argon2"],
    floors=_c09_floors,
    rule="a case is (algorithm, t, memory bytes, output length, password, salt); distinct by grid cell / sweep index / random draw",
    assumptions=["parallelism is fixed to 1 lane by the API (as in libsodium)"],
    trusted_base=TB_COMMON + ["libsodium's internal argon2i_hash_raw / argon2id_hash_raw symbols linked from the static archive"],
)

# ---------------------------------------------------------------------------------------------- C10


def _c10_floors(m, tier):
    out = need(m, "string_origin", ["crypto_pwhash_str", "PwHash::to_string", "libsodium_argon2id_str", "libsodium_argon2i_str", "built_argon2id", "built_argon2i"], "string origins")
    out += need(m, "alg", ["argon2i", "argon2id"], "algorithms")
    out += need(m, "opslimit", range(1, 5), "opslimit values")
    if len(m.cov.get("salt_len", {})) < 20 or len(m.cov.get("hash_len", {})) < 20:
        out.append("fewer than 20 distinct salt / hash lengths seen")
    return out


PROPS["C10"] = dict(
    level="exploration",
    technique="runtime differential monitoring: strings produced by dryoc are decoded by an independent strict PHC decoder, re-hashed with libsodium's Argon2 core and handed to libsodium's verifier; strings produced by libsodium (argon2i and argon2id) and harness-built strings are verified, re-encoded and queried for needs-rehash under dryoc",
    level_text="For seeded passwords (0..=128 bytes, incl. NUL and non-UTF-8) and small costs (opslimit 1..4, 8..256 KiB) the check crosses both libraries in both directions: dryoc string -> libsodium verifier "
               "(right and wrong password) and decode-and-recompute; libsodium / harness-built string (both algorithms, salt 8..64 bytes, hash 16..128 bytes) -> dryoc verify, parse, re-encode (must be identical) "
               "and needs_rehash (false exactly when both costs match, for five cost variations per string). A parse-only family (no hashing) covers m and t over the whole u32 range, both algorithms: parse -> re-encode must be the identity and needs_rehash must follow the rule (cross-checked with libsodium's needs_rehash). Sampled inputs, hence exploration.",
    level_note="libsodium's decoder sizes its buffers from strlen, so its verdict is available for non-default salt/hash lengths too; the needs-rehash rule is cross-checked against libsodium on standard strings.",
    # the SIMD run uses the quick corpus in both tiers: the object API's hash lengths 16..=128 (where the variable-length
    # hash of the second BLAKE2b implementation has its own block handling) are one case in six, too few in the tiny corpus
    runs=lambda tier: [dict(build="st", monitor="c10")] + _rel("c10")(tier) + [dict(build="ni-simd", monitor="c10", tier="quick")],
    floors=_c10_floors,
    rule="a case is one password-hash string with its password and origin; distinct by generated index; every case performs hashing",
    assumptions=["costs are kept small (the property quantifies over the accepted range at small cost)"],
    trusted_base=TB_COMMON,
)

# ---------------------------------------------------------------------------------------------- C11


def _c11_floors(m, tier):
    n = len(m.cov.get("entry_point", {}))
    out = [] if n >= 50 else ["only %d of 50 randomised entry points (40 stable + 10 heap/locked) exercised" % n]
    out += need(m, "lock_refused", ["no_value_returned(panic or Err)"], "outcomes under refused memory locking")
    out += need(m, "lock_refused_errno", ["ENOMEM", "EAGAIN", "EPERM"], "errno values of the refused lock requests")
    return out


def _c11_strace(ctx):
    """conservation oracle for C11: the stable monitor's draw probe runs under strace; between the marker system calls of one
    entry-point call the getrandom(2) results are summed and must cover the bytes the call returned"""
    import re
    import subprocess
    m = ctx["m"]
    binary, bt = ctx["build"]("st")
    logp = os.path.join(ctx["cache"], "logs", ctx["pid"], "strace-c11.log")
    os.makedirs(os.path.dirname(logp), exist_ok=True)
    cmd = ["strace", "-f", "-qq", "-s", "200", "-e", "trace=getrandom,write", "-o", logp, binary, "c11", "--tier", "tiny", "--seed", str(ctx["seed"]),
           "--shard", "0", "--nshards", "1", "--opt", "draw_probe=1"]
    try:
        p = subprocess.run(cmd, env=ctx["env"], stdout=subprocess.PIPE, stderr=subprocess.PIPE, text=True, timeout=600)
    except Exception as e:
        m.problems.append("strace run failed: %s" % e)
        return
    if not os.path.exists(logp):
        m.problems.append("strace produced no log (rc=%s %s)" % (p.returncode, p.stderr[-200:]))
        return
    meta = dict(seed=ctx["seed"], tier=ctx["tier"], monitor="c11(strace)", build="st", shard=-1, nshards=1)
    cur = None
    drawn = 0
    calls = 0
    seen = 0
    for line in open(logp, errors="replace"):
        mm = re.search(r'write\(-1, "VMARK\|(BEGIN|END)\|(.*?)"', line)
        if mm:
            parts = mm.group(2).split("|")
            if mm.group(1) == "BEGIN":
                cur, drawn, calls = parts[0], 0, 0
            elif cur is not None:
                returned = int(parts[-1])
                seen += 1
                m.evals += 1
                d = m.cov.setdefault("draw_conservation", {})
                d[cur] = d.get(cur, 0) + 1
                if drawn < returned:
                    m.add_viol("C11|%s|returns_more_bytes_than_were_drawn_from_the_kernel" % cur, 1,
                               {"entry_point": cur, "bytes_returned": returned, "bytes_drawn_via_getrandom": drawn, "getrandom_calls": calls,
                                "observer": "strace -e trace=getrandom between marker system calls"}, meta)
                cur = None
            continue
        g = re.search(r'getrandom\(.*\)\s*=\s*(-?\d+)', line)
        if g and cur is not None:
            v = int(g.group(1))
            if v > 0:
                drawn += v
                calls += 1
    if seen < 10:
        m.problems.append("strace draw probe: only %d bracketed calls seen (markers or getrandom not visible to strace)" % seen)
    ctx["extra_cov"]["draw_conservation"] = dict(bracketed_calls=seen)


PROPS["C11"] = dict(
    level="exploration",
    technique="runtime history monitoring: N consecutive calls of every randomised entry point, statistical oracle with explicit false-alarm bound (distinctness, non-zero, per-byte variability)",
    level_text="50 entry points (byte-array gen() on every container, all keygen/keypair functions, object-API generators, sealed-box ephemeral key, stream header, password-hash salts from the object and the string API; "
               "heap / locked / read-only-locked variants on nightly) are each called 256 (quick) / 1024 (thorough) times in a row; no value may repeat, be all-zero, or have a byte position that never changes. Every value must be non-empty and of the announced, constant length; no bit position may be stuck (raw outputs); and after fork(2) parent and child must not draw a common value (each entry point primed once before the fork). Two fault injections: getrandom(2) failing under a seccomp filter, and mlock(2) refused from the k-th request on while constructors generate into locked memory - not returning is fine, a returned value must be filled. "
               "A finite number of calls cannot prove independence; the test detects constant, partially constant, zero and repeating outputs.",
    level_note="False-alarm probability per run < 2^-100 (distinctness and non-zero tests only on values of >= 16 bytes; a byte position constant over 256 uniform draws has probability 256^-255).",
    runs=lambda tier: [dict(build="st", monitor="c11"), dict(build="ni", monitor="c11", opts=NI_ONLY), dict(kind="custom", fn=_c11_strace)],
    floors=_c11_floors,
    rule="a case is one (entry point, output component) observed over N calls; distinct by entry point/component; evaluations = oracle applications + calls",
    assumptions=["OS randomness is assumed sound; the property is about the crate actually drawing from it on every call"],
    trusted_base=TB_COMMON,
)

# ---------------------------------------------------------------------------------------------- C14

_STATES = ["Locked+ReadWrite", "Locked+ReadOnly", "Locked+NoAccess", "Unlocked+ReadWrite", "Unlocked+ReadOnly", "Unlocked+NoAccess"]


def _c14_floors(m, tier):
    out = []
    tr = m.cov.get("transition", {})
    want_edges = 0
    for s in _STATES:
        if s == "Locked+NoAccess":
            continue  # unreachable on Linux: mlock of PROT_NONE memory is refused (observed as a transition_err)
        lk, pm = s.split("+")
        for op, dst in (("munlock", "Unlocked+" + pm), ("mprotect_readonly", lk + "+ReadOnly"), ("mprotect_readwrite", lk + "+ReadWrite")):
            want_edges += 1
            if "%s --%s--> %s" % (s, op, dst) not in tr:
                out.append("type-state edge never taken: %s --%s--> %s" % (s, op, dst))
        if lk == "Unlocked":
            if pm != "NoAccess" and "%s --mlock--> Locked+%s" % (s, pm) not in tr:
                out.append("edge never taken: %s --mlock-->" % s)
            if "%s --mprotect_noaccess--> Unlocked+NoAccess" % s not in tr:
                out.append("edge never taken: %s --mprotect_noaccess-->" % s)
    sv = m.cov.get("state_visited", {})
    for c in ("HeapBytes", "HeapByteArray"):
        for s in _STATES:
            if s == "Locked+NoAccess":
                continue  # only reachable if mlock of a no-access region succeeds, which Linux refuses
            if "%s|%s" % (c, s) not in sv:
                out.append("state never observed: %s %s" % (c, s))
    lens = m.cov.get("length", {})
    for L in (0, 1, 16, 32, 64, 4095, 4096, 4097, 8192, 8193):
        if str(L) not in lens:
            out.append("length %d never used" % L)
    if len(m.cov.get("constructor", {})) < 15:
        out.append("not all 15 constructors used")
    if not m.cov.get("fork_probe"):
        out.append("no forked-child access probe was performed")
    return out[:12]


def _valgrind_run(ctx):
    """the C14 sequences (reduced corpus) under valgrind memcheck: memory errors inside the unsafe allocator / FFI"""
    import re
    import shutil
    import subprocess
    m = ctx["m"]
    if shutil.which("valgrind") is None:
        m.problems.append("valgrind not installed")
        return
    binary, bt = ctx["build"]("ni")
    ctx["builds_used"]["ni"] = round(bt, 1)
    logdir = os.path.join(ctx["cache"], "logs", ctx["pid"])
    os.makedirs(logdir, exist_ok=True)
    nsh = 8

    def one(i):
        lp = os.path.join(logdir, "valgrind.%d.jsonl" % i)
        vl = os.path.join(logdir, "valgrind.%d.txt" % i)
        cmd = ["valgrind", "--tool=memcheck", "--error-exitcode=97", "--errors-for-leak-kinds=none", "--leak-check=no", "-q", "--child-silent-after-fork=yes",
               "--log-file=" + vl, binary, ctx["monitor"], "--tier", "tiny", "--seed", str(ctx["seed"]), "--shard", str(i), "--nshards", str(nsh),
               "--log", lp, "--opt", "no_fork=1", "--opt", "no_efault=1", "--opt", "valgrind=1"]
        try:
            p = subprocess.run(cmd, env=ctx["env"], stdout=subprocess.PIPE, stderr=subprocess.PIPE, text=True, timeout=1500)
            return i, p.returncode, lp, vl
        except subprocess.TimeoutExpired:
            return i, "timeout", lp, vl
    from concurrent.futures import ThreadPoolExecutor
    with ThreadPoolExecutor(max_workers=nsh) as ex:
        res = list(ex.map(one, range(nsh)))
    nerr = 0
    for i, rc, lp, vl in res:
        txt = open(vl, errors="replace").read() if os.path.exists(vl) else ""
        blocks = [b for b in re.split(r"\n==\d+== \n", txt) if "Invalid" in b or "uninitialised" in b or "Mismatched" in b or "overlap" in b]
        # reads performed by the monitor's own release hook (it inspects spare capacity on purpose) are not the crate's
        blocks = [b for b in blocks if "protected::verif::" not in b.split("\n")[1] if len(b.split("\n")) > 1]
        own_hook_only = rc == 97 and not blocks
        if rc == "timeout":
            m.problems.append("valgrind shard %d hit the watchdog" % i)
        elif blocks or (rc == 97 and not own_hook_only):
            nerr += len(blocks) or 1
            first = (blocks[0] if blocks else txt)[:1500]
            frame = re.search(r"(dryoc::[\w:<>]+)", first)
            m.add_viol("%s|valgrind_memcheck_error|%s" % (ctx["pid"], frame.group(1) if frame else "unknown_frame"), len(blocks) or 1,
                       {"report": first}, dict(seed=ctx["seed"], tier=ctx["tier"], monitor="valgrind:" + ctx["monitor"], build="ni", shard=-1, nshards=nsh))
        ctx["merge_logs"](m, [(i, 0 if rc in (0, 1, 97) else rc, lp, "")], ctx["monitor"], "ni+valgrind", ctx["tier"], ctx["seed"], nsh)
    ctx["extra_cov"]["valgrind"] = dict(tool="memcheck", shards=nsh, error_blocks=nerr, corpus="tier tiny of the same monitor, fork/EFAULT probes off")


def _valgrind(monitor):
    def fn(ctx):
        ctx = dict(ctx)
        ctx["monitor"] = monitor
        _valgrind_run(ctx)
    return fn


def _miri(monitor, nshards=16, timeout=2400):
    """runs the monitor's reduced ('tiny') corpus under the Miri interpreter: undefined behaviour in the unsafe array casts,
    packed-struct reinterpretation and slice arithmetic the workload reaches"""
    def fn(ctx):
        import json as _json
        import re
        import subprocess
        from concurrent.futures import ThreadPoolExecutor
        m = ctx["m"]
        env = dict(ctx["env"])
        env["CARGO_TARGET_DIR"] = os.path.join(ctx["cache"], "target-miri")
        env["MIRIFLAGS"] = "-Zmiri-disable-isolation"
        harness = os.path.join(ctx["root"], "harness")
        base = ["cargo", "+nightly", "miri", "run", "--offline", "--no-default-features", "--features", "full", "--bin", "vmon", "--"]
        # build once (and fail as inconclusive if the interpreter cannot be set up)
        b = subprocess.run(base + ["noop"], cwd=harness, env=env, stdout=subprocess.PIPE, stderr=subprocess.PIPE, text=True, timeout=1800)
        if "unknown monitor" not in b.stderr and b.returncode not in (2,):
            m.problems.append("miri build/run failed: " + b.stderr[-600:].replace("\n", " | "))
            return

        def one(i):
            cmd = base + [monitor, "--tier", "tiny", "--seed", str(ctx["seed"]), "--shard", str(i), "--nshards", str(nshards)]
            try:
                p = subprocess.run(cmd, cwd=harness, env=env, stdout=subprocess.PIPE, stderr=subprocess.PIPE, text=True, timeout=timeout, errors="replace")
                return i, p.returncode, p.stdout, p.stderr
            except subprocess.TimeoutExpired:
                return i, "timeout", "", ""
        with ThreadPoolExecutor(max_workers=nshards) as ex:
            res = list(ex.map(one, range(nshards)))
        logdir = os.path.join(ctx["cache"], "logs", ctx["pid"])
        os.makedirs(logdir, exist_ok=True)
        ub = 0
        for i, rc, out, err in res:
            lp = os.path.join(logdir, "miri-%s.%d.jsonl" % (monitor, i))
            open(lp, "w").write(out)
            if rc == "timeout":
                m.problems.append("miri shard %d of %s hit the watchdog" % (i, monitor))
                continue
            if "Undefined Behavior" in err or "error: unsupported operation" in err and "dryoc" in err:
                ub += 1
                frames = re.findall(r"(/repo/src/[\w/]+\.rs:\d+)", err)
                first = frames[0] if frames else "unknown"
                kind = re.search(r"error: (Undefined Behavior[^\n]*)", err)
                m.add_viol("%s|miri_undefined_behavior|%s" % (ctx["pid"], first.split(":")[0].replace("/repo/", "")), 1,
                           {"report": err[-2500:], "first_repo_frame": first, "kind": kind.group(1) if kind else None},
                           dict(seed=ctx["seed"], tier=ctx["tier"], monitor="miri:" + monitor, build="miri", shard=-1, nshards=nshards))
                continue
            ctx["merge_logs"](m, [(i, rc, lp, err)], monitor, "miri", ctx["tier"], ctx["seed"], nshards)
        ctx["extra_cov"].setdefault("miri", {})[monitor] = dict(shards=nshards, undefined_behaviour_reports=ub, corpus="tier tiny of the same monitor, no libsodium (golden = dryoc one-shot / round-trip oracles only)")
    return fn


def _asan(monitor, corpus_tier="quick", nshards=16):
    """the monitor's corpus in a build instrumented with AddressSanitizer (-Zsanitizer=address): heap errors inside the unsafe
    page-aligned allocator and its FFI calls while the protected-memory workloads run"""
    def fn(ctx):
        import re
        import subprocess
        from concurrent.futures import ThreadPoolExecutor
        m = ctx["m"]
        env = dict(ctx["env"])
        env["CARGO_TARGET_DIR"] = os.path.join(ctx["cache"], "target-asan")
        env["RUSTFLAGS"] = "-Zsanitizer=address -Cforce-frame-pointers=yes"
        harness = os.path.join(ctx["root"], "harness")
        b = subprocess.run(["cargo", "+nightly", "build", "--offline", "--target", "x86_64-unknown-linux-gnu", "--profile", "verif", "--bin", "vmon", "--features", "nightly,asan"],
                           cwd=harness, env=env, stdout=subprocess.PIPE, stderr=subprocess.STDOUT, text=True)
        if b.returncode != 0:
            m.problems.append("ASan build failed: " + b.stdout[-600:].replace("\n", " | "))
            return
        binary = os.path.join(ctx["cache"], "target-asan", "x86_64-unknown-linux-gnu", "verif", "vmon")
        logdir = os.path.join(ctx["cache"], "logs", ctx["pid"])
        os.makedirs(logdir, exist_ok=True)
        renv = dict(ctx["env"])
        renv["ASAN_OPTIONS"] = "detect_leaks=0:halt_on_error=1:abort_on_error=0:symbolize=1"
        renv["ASAN_SYMBOLIZER_PATH"] = "/usr/bin/llvm-symbolizer-14"

        def one(i):
            lp = os.path.join(logdir, "asan-%s.%d.jsonl" % (monitor, i))
            cmd = [binary, monitor, "--tier", corpus_tier, "--seed", str(ctx["seed"]), "--shard", str(i), "--nshards", str(nshards), "--log", lp, "--opt", "no_fork=1"]
            try:
                p = subprocess.run(cmd, env=renv, stdout=subprocess.PIPE, stderr=subprocess.PIPE, text=True, timeout=3000, errors="replace")
                return i, p.returncode, lp, p.stderr
            except subprocess.TimeoutExpired:
                return i, "timeout", lp, ""
        with ThreadPoolExecutor(max_workers=nshards) as ex:
            res = list(ex.map(one, range(nshards)))
        reports = 0
        for i, rc, lp, err in res:
            if "ERROR: AddressSanitizer" in err:
                reports += 1
                kind = re.search(r"ERROR: AddressSanitizer: ([\w-]+)", err)
                frame = re.search(r"(dryoc::[\w:<>]+)", err)
                m.add_viol("%s|asan_report|%s|%s" % (ctx["pid"], kind.group(1) if kind else "unknown", frame.group(1) if frame else "unknown_frame"), 1,
                           {"report": err[:3000]}, dict(seed=ctx["seed"], tier=ctx["tier"], monitor="asan:" + monitor, build="asan", shard=-1, nshards=nshards))
                continue
            ctx["merge_logs"](m, [(i, rc, lp, err)], monitor, "asan", ctx["tier"], ctx["seed"], nshards)
        ctx["extra_cov"].setdefault("asan", {})[monitor] = dict(shards=nshards, reports=reports, corpus="tier %s of the same monitor, forked-child probes off" % corpus_tier)
    return fn


PROPS["C14"] = dict(
    level="exploration",
    technique="runtime invariant monitoring: operation sequences over the protected-memory type-state graph executed against the real allocator; after every step an executable model is compared with the kernel's view (/proc/self/maps page rights, smaps VM_LOCKED flags, VmLck, EFAULT byte probes, forked children that must SIGSEGV) and contents; valgrind memcheck over a reduced corpus",
    level_text="All operation sequences up to depth 3 (quick) / 4 (thorough) over {mlock, munlock, read-only, read-write, no-access, clone, resize down/up, write, drop} from each of 15 constructors, for region "
               "lengths 0, 1, 16, 32, 64, page-1, page, page+1, 2*page, 2*page+1 and both containers, plus seeded random sequences of depth 10-12 with up to four regions alive; after every step each page holding "
               "data must have exactly the advertised rights, be locked iff the type says so, be fenced by guard pages, keep its contents, and after the last drop nothing stays locked or protected. "
               "Bounded-exhaustive within the depth, sampling beyond.",
    level_note="Linux only (mprotect/mlock paths); the kernel's /proc reporting is trusted after a start-up self-check against a region the harness maps, protects and locks itself. An Err from an operation the OS refuses is a result, not a violation.",
    runs=lambda tier: [dict(build="ni", monitor="c14")] + _nirel("c14")(tier) + [dict(kind="custom", fn=_valgrind("c14"))] + ([dict(kind="custom", fn=_asan("c14"))] if tier == "thorough" else []),
    floors=_c14_floors,
    rule="a case is one operation sequence (container, length, constructor, ops); distinct by enumeration index; sequences containing an operation the type system does not offer in the reached state are pruned "
         "at that point and not counted as distinct; evaluations = individual model-vs-kernel comparisons",
    assumptions=["Windows VirtualLock/VirtualProtect paths are not executable here", "Locked+NoAccess is only reachable if the OS lets mlock succeed on PROT_NONE memory (Linux does not)"],
    trusted_base=TB_COMMON + ["Linux /proc/self/{maps,smaps,status}", "hook: protected::verif allocator observer (feature verif_hooks)"],
)

# ---------------------------------------------------------------------------------------------- C15


def _c15_floors(m, tier):
    out = need(m, "release_observed", ["HeapBytes", "HeapByteArray", "Protected<HeapBytes>", "Protected<HeapByteArray>", "object types"], "containers whose release was observed")
    ph = m.cov.get("plain_history", {})
    for v in ["drop", "grow", "shrink", "grow_then_shrink", "clone", "truncate", "repeated_growth", "lock_unlock_noaccess", "shrink_then_lock", "shrink_regrow_lock_unlock"]:
        if "HeapBytes:" + v not in ph:
            out.append("HeapBytes history '%s' not run" % v)
    if len([k for k in ph if k.startswith("object:")]) < 6:
        out.append("not all 6 object-type histories run")
    out += need(m, "process_mode", ["default", "mlockall(MCL_CURRENT|MCL_FUTURE)"], "process memory-locking modes")
    bad = m.cov.get("history_without_release(inconclusive)", {})
    if bad:
        out.append("histories that created and dropped a container without any observed release: %s" % dict(bad))
    return out


def _vfree(ctx):
    """C15, build without hooks: /verif/harness/nohooks (dryoc with the nightly feature only, plain release profile) runs container
    histories while posix_memalign/free defined in the executable search every released or retained block for the secret pattern"""
    import subprocess
    from concurrent.futures import ThreadPoolExecutor
    m = ctx["m"]
    env = dict(ctx["env"])
    tdir = os.path.join(ctx["cache"], "target-nohooks")
    env["CARGO_TARGET_DIR"] = tdir
    crate = os.path.join(ctx["root"], "harness", "nohooks")
    lock = os.path.join(crate, "Cargo.lock")
    if not os.path.exists(lock) and os.path.exists("/repo/Cargo.lock"):
        import shutil
        shutil.copy("/repo/Cargo.lock", lock)
    t0 = time.time()
    b = subprocess.run(["cargo", "+nightly", "build", "--release", "--offline"], cwd=crate, env=env, stdout=subprocess.PIPE, stderr=subprocess.STDOUT, text=True)
    if b.returncode != 0:
        m.problems.append("no-hooks release build failed: " + b.stdout[-500:].replace("\n", " | "))
        return
    ctx["builds_used"]["nohooks-release"] = round(time.time() - t0, 1)
    binary = os.path.join(tdir, "release", "vfree")
    nsh = 8
    reps = 1 if ctx["tier"] == "quick" else 24

    def one(i):
        p = subprocess.run([binary, str(i), str(nsh), str(reps)], env=ctx["env"], stdout=subprocess.PIPE, stderr=subprocess.PIPE, text=True, timeout=1500)
        return i, p.returncode, p.stdout, p.stderr[-300:]
    with ThreadPoolExecutor(max_workers=nsh) as ex:
        res = list(ex.map(one, range(nsh)))
    meta = dict(seed=ctx["seed"], tier=ctx["tier"], monitor="vfree", build="nohooks-release", shard=-1, nshards=nsh)
    hist = rec = freed = 0
    for i, rc, out, err in res:
        saw = False
        for line in out.splitlines():
            f = line.split("\t")
            if f[0] == "HIT" and len(f) >= 4:
                cont = f[1].split(":")[0]
                m.add_viol("C15|%s|%s|build_without_hooks" % (cont, f[3]), 1, {"history": f[1], "detail": f[2:], "observer": "posix_memalign/free interposer; dryoc built without verif_hooks, release profile"}, meta)
            elif f[0] == "SUMMARY":
                saw = True
                kv = dict(x.split("=") for x in f[1:])
                hist += int(kv["histories"]); rec += int(kv["recorded"]); freed += int(kv["freed"])
                if int(kv["table_full"]):
                    m.problems.append("vfree: allocation table full")
        if rc != 0 or not saw:
            m.add_viol("C15|build_without_hooks|history_process_died", 1, {"shard": i, "rc": rc, "stderr": err}, meta) if rc < 0 else m.problems.append("vfree shard %d ended abnormally rc=%s %s" % (i, rc, err))
    m.evals += hist
    d = m.cov.setdefault("build_without_hooks", {})
    d["histories"] = hist
    d["blocks_given_to_free_and_searched"] = freed
    if freed == 0:
        m.problems.append("vfree: no page-aligned block was observed at free()")
    ctx["extra_cov"]["build_without_hooks"] = dict(histories=hist, page_aligned_allocations=rec, searched_at_free=freed)


PROPS["C15"] = dict(
    level="exploration",
    technique="runtime invariant monitoring at a hook: the page-aligned allocator reports (address, size, non-zero byte count) immediately before free(); histories of create / fill with zero-free secret / resize / clone / lock / protect / drop are executed and every observed release must have a zero count; valgrind memcheck over a reduced corpus",
    level_text="The C14 operation sequences (depth 3 quick / 4 thorough, all constructors and lengths) plus dedicated histories over the unprotected HeapBytes / HeapByteArray containers (drop, grow across a "
               "reallocation, shrink, grow-then-shrink, clone, truncate, repeated growth, lock/unlock/no-access) and over the object types that embed protected containers (LockedBox, locked key pairs, "
               "precomputed keys, locked signed messages, LockedPwHash, heap DryocBox) run with every container filled with a zero-free pattern; the hook inspects the whole released allocation including spare capacity. "
               "A history that never observes a release is inconclusive, not held. A second observer that does not depend on the hook (posix_memalign / free defined in the monitor executable) searches every page-aligned block given to free(), and every block still allocated after all containers were dropped, for the secret pattern.",
    level_note="The hook sits after all wiping the crate does and before free(); leaks (allocations never released) are outside the property and only counted.",
    runs=lambda tier: [dict(build="ni", monitor="c15")] + _nirel("c15")(tier) + [dict(build="ni", monitor="c15", tier="quick", opts={"mlockall": "1"}, nshards=8), dict(kind="custom", fn=_valgrind("c15")), dict(kind="custom", fn=_vfree)] + ([dict(kind="custom", fn=_asan("c15"))] if tier == "thorough" else []),
    floors=_c15_floors,
    rule="a case is one history (operation sequence or named container history); distinct by enumeration index / (length, variant); evaluations count histories plus individual release events inspected",
    assumptions=["wiping registers, stack copies or swap is outside the property"],
    trusted_base=TB_COMMON + ["hook: protected::verif allocator observer (feature verif_hooks), placed immediately before free()"],
)

# ---------------------------------------------------------------------------------------------- C19


def _c19_floors(m, tier):
    out = []
    if len(m.cov.get("constructor", {})) < 15:
        out.append("not all 15 sequence constructors exercised")
    if len(m.cov.get("object_constructor", {})) < 22:
        out.append("only %d of 22 Result-returning object constructors (incl. 5 deserialisations into locked containers) exercised" % len(m.cov.get("object_constructor", {})))
    out += need(m, "fail_from_k", ["0", "1", "2"], "fault positions k")
    if not m.cov.get("constructor_err_on_refusal") or not m.cov.get("transition_err_on_refusal"):
        out.append("no Err result observed for a refused lock request (fault injection not effective?)")
    if not m.cov.get("allowed_panic(no Result in signature)"):
        out.append("clone/resize under refusal never reached")
    return out


PROPS["C19"] = dict(
    level="fault_enumeration",
    technique="runtime fault enumeration: an in-binary interposer on mlock() refuses the k-th and all later lock requests; each operation sequence is measured fault-free (n lock requests) and re-run for every k < n; oracle = no panic inside Result-returning constructors/transitions, survivors still agree with the C14 model (page rights, VM_LOCKED, VmLck, contents), nothing unwiped or locked remains after drop",
    level_text="For every operation sequence up to depth 2 (quick) / 3 (thorough) from 15 constructors over all region lengths, for seeded random sequences with several regions alive, and for 22 Result-returning object "
               "constructors (locked key pairs, precomputed keys, read-only variants), every fault position k is enumerated. A panic in clone/resize/Default, whose signatures cannot report an error, is an allowed outcome; "
               "the cleanliness checks still run while unwinding.",
    level_note="The fault is injected by defining `mlock` in the monitor executable (it forwards to the real system call when not failing), which is equivalent to an LD_PRELOAD interposer but also works under valgrind; "
               "root ignores RLIMIT_MEMLOCK in this sandbox, so the limit itself cannot be used.",
    runs=lambda tier: [dict(build="ni", monitor="c19")] + _nirel("c19")(tier) + ([dict(kind="custom", fn=_ASAN("c19"))] if tier == "thorough" else []),
    floors=_c19_floors,
    exhaustive=True,
    rule="a case is (operation sequence, fault position k); distinct by sequence index; the enumeration over k is exhaustive per sequence; evaluations = model-vs-kernel comparisons and outcome checks",
    assumptions=["ENOMEM is the errno used for a refused request", "exhaustive refers to fault positions per sequence and to sequences within the depth bound"],
    trusted_base=TB_COMMON + ["in-binary mlock interposer (harness/src/mon/prot.rs)", "Linux /proc", "hook: protected::verif allocator observer"],
)

# ---------------------------------------------------------------------------------------------- C16


def _c16_floors(m, tier):
    out = need(m, "payload_len_mod16", range(16), "payload length residues")
    rt = m.cov.get("serde_roundtrip", {})
    for ty in ["DryocSecretBox<Stack,Vec>", "DryocSecretBox<Vec,Vec>", "DryocBox<Stack,Stack,Vec>", "DryocBox(sealed)<Stack,Stack,Vec>", "SignedMessage<Stack,Vec>",
               "SigningKeyPair<Stack,Stack>", "KeyPair<Stack,Stack>", "KeyPair<Vec,Vec>", "Session<Stack>", "Kdf<Stack,Stack>", "PwHash<Vec,Vec>",
               "DryocSecretBox<Stack,HeapBytes>", "LockedBox(secretbox)<Locked<Heap16>,LockedBytes>", "LockedKeyPair", "LockedSigningKeyPair", "LockedSignedMessage",
               "LockedKdf", "LockedPwHash", "LockedSession"]:
        for fmt in ("json", "bincode", "json_reader", "bincode_reader"):
            if "%s|%s" % (ty, fmt) not in rt:
                out.append("serde round trip never run: %s via %s" % (ty, fmt))
    wl = m.cov.get("wrong_length_path", {})
    for ty in ["StackByteArray<16>", "StackByteArray<24>", "StackByteArray<32>", "StackByteArray<64>", "Locked<HeapByteArray<16>>", "Locked<HeapByteArray<32>>", "Locked<HeapByteArray<64>>"]:
        for path in ["json_array(visit_seq)", "bincode_bytes(visit_bytes)", "SeqDeserializer+end", "BytesDeserializer"]:
            if "%s|%s" % (ty, path) not in wl:
                out.append("wrong-length path never run: %s %s" % (ty, path))
    return out[:10]


PROPS["C16"] = dict(
    level="exploration",
    technique="runtime round-trip and fault-family monitoring: every object type x container is encoded and decoded through to_bytes/from_bytes, into_parts/from_parts, serde_json and bincode (from a slice and from an io::Read source) and compared (and must still decrypt/verify; wire layout compared with libsodium); fixed-length types are fed every element count 0..=2N through both serde visitor paths and TryFrom",
    level_text="Boxes (plain and sealed), secret boxes, signed messages, key pairs, sessions, KDFs and password hashes with stack, Vec, heap, locked and read-only-locked containers are round-tripped for every "
               "payload length 0..=130 (quick) / 0..=600 (thorough); for each fixed-length array type (16/24/32/64 bytes, stack and locked-heap) every element count 0..=2N is presented as a JSON array (element-sequence path), "
               "a bincode byte string (byte-string path), through serde's value deserializers and through TryFrom / from_slices, and must be rejected unless the count is exactly N. "
               "The count enumeration is exhaustive within 0..=2N; payloads and keys are sampled. Vec-backed boxes are additionally rebuilt with 1..64 bytes of spare capacity and after a JSON round trip; to_vec / to_bytes / into_vec must still give the wire bytes.",
    level_note="HeapByteArray<N> and LockedRO<...> only implement Serialize; their encodings are compared with the stack type's. Vec<u8> containers have no fixed length to enforce and are only round-tripped.",
    runs=lambda tier: [dict(build="st", monitor="c16"), dict(build="ni", monitor="c16", opts=NI_ONLY)] + _rel("c16")(tier) + ([dict(kind="custom", fn=_MIRI("c16"))] if tier == "thorough" else []),
    floors=_c16_floors,
    rule="a case is (object type, containers, payload length, encoding) or (fixed-length type, decoding path, element count); distinct by payload length / type; evaluations = individual comparisons",
    assumptions=[],
    trusted_base=TB_COMMON + ["serde_json 1.0 and bincode 1.3 as the two formats (element-sequence and byte-string encodings of byte arrays)"],
)

# ---------------------------------------------------------------------------------------------- C18


def _c18_run(ctx):
    import subprocess
    from concurrent.futures import ThreadPoolExecutor
    m = ctx["m"]
    tier = ctx["tier"]
    cfgs = [("default(stable,u64_backend)", "st-default"), ("default(stable), release profile without debug assertions / overflow checks", "st-default-rel"),
            ("nightly", "ni-probe"), ("nightly+simd_backend", "ni-simd-probe")]
    bins = {}
    with ThreadPoolExecutor(max_workers=4) as ex:
        futs = {name: ex.submit(ctx["build"], b) for name, b in cfgs}
        for (name, b) in cfgs:
            binary, bt = futs[name].result()
            bins[name] = binary
            ctx["builds_used"][b] = round(bt, 1)
    nsh = ctx["nshards"]
    transcripts = {}
    container_ok = 0
    summaries = {}

    def one(args):
        name, i = args
        cmd = [bins[name], str(i), str(nsh)] + (["thorough"] if tier == "thorough" else [])
        p = subprocess.run(cmd, env=ctx["env"], stdout=subprocess.PIPE, stderr=subprocess.PIPE, text=True, timeout=3000)
        return name, i, p.returncode, p.stdout, p.stderr[-500:]
    jobs = [(name, i) for name, _ in cfgs for i in range(nsh)]
    with ThreadPoolExecutor(max_workers=16) as ex:
        results = list(ex.map(one, jobs))
    meta = dict(seed=ctx["seed"], tier=tier, monitor="vprobe", build="st-default+st-default-rel+ni-probe+ni-simd-probe", shard=-1, nshards=nsh)
    for name, i, rc, out, err in results:
        t = transcripts.setdefault(name, {})
        saw_summary = False
        for line in out.splitlines():
            parts = line.split("\t")
            if parts[0] == "SUMMARY":
                saw_summary = True
                summaries[name] = summaries.get(name, 0) + int(parts[1])
            elif parts[0] == "CONTAINER_OK":
                container_ok += 1
                fam = parts[1].split("/")[0]
                m.cov.setdefault("container_comparison", {}).setdefault("%s [%s]" % (fam, name), 0)
                m.cov["container_comparison"]["%s [%s]" % (fam, name)] += 1
            elif parts[0] == "CONTAINER_MISMATCH":
                fam = parts[1].split("/")[0]
                m.add_viol("C18|container_types_disagree|%s" % fam, 1, {"config": name, "case": parts[1], "a": parts[2], "b": parts[3]}, meta)
            elif len(parts) == 2:
                t[parts[0]] = parts[1]
        if rc != 0 or not saw_summary:
            m.problems.append("vprobe %s shard %d ended abnormally: rc=%s %s" % (name, i, rc, err.replace("\n", " | ")))
    base_name = cfgs[0][0]
    base = transcripts.get(base_name, {})
    compared = 0
    for name, _ in cfgs[1:]:
        t = transcripts.get(name, {})
        if set(t) != set(base):
            m.problems.append("transcripts of %s and %s cover different case ids (%d vs %d)" % (base_name, name, len(base), len(t)))
        for cid, v in base.items():
            if cid in t:
                compared += 1
                if t[cid] != v:
                    fam = cid.split("/")[0]
                    m.add_viol("C18|output_differs_between_configurations|%s|%s" % (fam, name), 1, {"case": cid, base_name: v, name: t[cid]}, meta)
    for cid in base:
        fam = cid.split("/")[0]
        d = m.cov.setdefault("probe_family", {})
        d[fam] = d.get(fam, 0) + 1
        m.keys.add("c18:" + cid)
    m.evals += compared + container_ok
    for fam in ("gh2", "argon2", "kdf", "sign"):
        ex_ids = [c for c in base if c.startswith(fam + "/")][:1]
        for c in ex_ids:
            m.samples.append({"case": c, "output": base[c], "identical_in": [n for n, _ in cfgs]})
    ctx["extra_cov"]["configurations"] = [n for n, _ in cfgs]
    ctx["extra_cov"]["transcript_lines_per_configuration"] = {n: len(transcripts.get(n, {})) for n, _ in cfgs}
    ctx["extra_cov"]["container_comparisons_ok"] = container_ok


def _c18_floors(m, tier):
    out = need(m, "probe_family", ["gh", "ghpair", "gh2", "gh3", "sha512", "auth", "poly1305", "siphash", "kdf", "boxseed", "x25519", "kx", "box", "secretbox", "seal_open", "sign", "signph", "argon2"], "probe families")
    cc = m.cov.get("container_comparison", {})
    for fam in ["gh:stack-vs-locked", "kdf:stack-vs-locked", "precalc:stack-vs-lockedro", "secretbox:stack-vs-locked", "box:stack-vs-locked", "sign:stack-vs-locked", "kx:stack-vs-locked"]:
        for cfgname in ("nightly", "nightly+simd_backend"):
            if "%s [%s]" % (fam, cfgname) not in cc:
                out.append("container comparison %s never ran in %s" % (fam, cfgname))
    return out[:10]


PROPS["C18"] = dict(
    level="exploration",
    technique="runtime differential monitoring across builds: one deterministic probe corpus is executed by three builds of the crate (default software backend on stable, nightly, nightly + portable-SIMD backend) and the output transcripts are diffed; inside the nightly builds every operation is repeated with stack / Vec / heap / locked / read-only-locked containers and compared in-process",
    level_text="The probe corpus covers BLAKE2b one-shot for every length 0..=520 (quick) / 1100 (thorough) and all 49x50 digest/key pairs, every 2-way chunking of every length 0..=400/700 and 3-way chunkings at the block "
               "boundaries, SHA-512, HMAC, Poly1305, SipHash, KDF (all lengths x ids), seeded box key pairs, X25519, kx, box, secretbox, 32 special peer encodings (low-order points, p, their neighbours and high-bit variants: decisions are outputs too), hand-built sealed boxes (nonce derivation), signatures (pure and pre-hashed) "
               "and an Argon2 grid including password lengths that end on BLAKE2b block boundaries. Any differing transcript line or container mismatch is a violation. Four build configurations are compared (stable verif profile, stable plain release, nightly, nightly + simd_backend); the lengths of all 51 public type aliases are compared with libsodium's constants and the length-inferring generic-hash API is run through the stack and protected aliases. Inputs are fixed by the corpus, hence exploration.",
    level_note="Equality with the specifications is decided by C07/C08/C09/C12 on the stable build; C18 adds that the other configurations and container types produce the same bytes.",
    # second run: the nightly half of the C16 monitor (same value, same encoding in stack, heap and locked containers; one
    # container family reads what the other wrote) - container independence of the serde encodings belongs to both properties
    runs=lambda tier: [dict(kind="custom", fn=_c18_run), dict(build="ni", monitor="c16", opts=NI_ONLY, tier=("quick" if tier == "thorough" else "tiny"))],
    floors=_c18_floors,
    rule="a case is one probe id (operation, parameters); distinct by id; evaluations = pairwise transcript comparisons + in-process container comparisons",
    assumptions=["only configurations that build on this machine are compared: default, nightly, nightly+simd_backend (x86_64 Linux)"],
    trusted_base=TB_COMMON + ["the folding of outputs longer than 64 bytes uses a 128-bit FNV implemented in the probe, not a dryoc primitive"],
)

# ---------------------------------------------------------------------------------------------- C20

import c20  # noqa: E402


def _c20_floors(m, tier):
    out = []
    nm = len(m.cov.get("cell_misuse", {}))
    nc = len(m.cov.get("cell_control", {}))
    if nm < 60 or nc < 60:
        out.append("table too small: %d misuse cells, %d control cells" % (nm, nc))
    if not m.cov.get("rejection_error_code"):
        out.append("no misuse program was rejected by the compiler (nothing observed)")
    if m.cov.get("control_outcome", {}).get("compiles+runs", 0) < 60:
        out.append("fewer than 60 control programs compiled and ran")
    if len(m.cov.get("route_offered_and_runs", {})) < 60:
        out.append("fewer than 60 (container, state, access route) cells were offered by the API and ran")
    if nm < 180:
        out.append("fewer than 180 misuse programs (table + access routes): %d" % nm)
    return out


PROPS["C20"] = dict(
    level="exploration",
    technique="runtime monitoring of the compiler as an observed process: misuse/control programs generated from the type-state table are compiled by the real rustc against the rlib of the crate just built; verdict and error class are recorded per cell; every program that compiles is linked and executed under a signal monitor",
    level_text="One misuse and/or one control program per cell of {ReadWrite, ReadOnly, NoAccess} x {Locked, Unlocked} x {read view, mutable view, array view, mutable array view, index, index-assign, resize, clone, "
               "lock, unlock, read-only, read-write, no-access, use-after-transition} for HeapBytes and HeapByteArray<32>, plus 21 further access routes to the bytes per (container, state) (Deref/DerefMut, AsRef/AsMut to slice and array, slice methods reached by auto-deref, range indexing, "
               "generic Bytes/MutBytes/ByteArray/MutByteArray bounds, PartialEq, Debug; a route the API does not offer where it would be permitted is recorded, not demanded), resize shrink / to-zero / grow-then-shrink controls, regions of 0, 1, 4096 and 4097 bytes from alternative constructors driven through every state, "
               "plus {Push, Pull} x {push, pull}: about 480 programs. The five classes the property names "
               "must be rejected by the compiler with an error located on the misuse statement; other cells the model marks forbidden are violated only if the program compiles and faults at run time; every "
               "control (a program differing from the misuse in exactly one statement) must compile, run and exit 0. The claim covers the generated table, not all programs.",
    level_note="This is the one check where the observed execution is the compiler's: a property of the type system cannot be refuted by running the crate. Error codes are recorded, not prescribed, so a reworded diagnostic cannot alarm.",
    runs=lambda tier: [dict(kind="custom", fn=c20.run)],
    floors=_c20_floors,
    rule="a case is one generated program (cell, kind); distinct by (cell, kind); all non-trivial (each reaches the state through the public API before the statement under test)",
    assumptions=["Locked+NoAccess is a compile-only state on Linux (mlock of PROT_NONE memory fails at run time), its controls are type-checked but not executed"],
    trusted_base=TB_COMMON + ["rustc nightly as installed (the verdict of the type checker is the observation)"],
)
