"""Offline oracles: re-compute sampled I/O events from the harness logs with the pure-Python models."""
import time

import models as M


def _b(x):
    return bytes.fromhex(x) if x is not None else None


def _result(checked, viols, inconc, names):
    return dict(checked=checked, violations=viols, inconclusive=inconc, models=names)


def _run(io, handlers, time_budget, prop):
    t0 = time.time()
    checked = 0
    viols, inconc = [], []
    seen_ops = set()
    for rec in io:
        if time.time() - t0 > time_budget:
            break  # sample truncated, not a verdict
        op, d = rec["op"], rec["d"]
        h = handlers.get(op)
        if h is None:
            continue
        try:
            res = h(d)
        except Exception as e:  # a crash of the model is a problem of the model
            inconc.append("python model for %s raised %r" % (op, e))
            continue
        checked += 1
        seen_ops.add(op)
        if res is None:
            continue
        ok, want = res
        if not ok:
            # dryoc != python.  The online oracle already compared dryoc with libsodium on the same
            # input: if that passed (no online violation with this output) the two references disagree.
            if d.get("agrees_with_libsodium", True) and not d.get("sole_reference"):
                inconc.append("reference disagreement on %s: python=%s dryoc/libsodium=%s input=%s" % (
                    op, want, d.get("out"), {k: v for k, v in d.items() if k not in ("out",)}))
            else:
                viols.append(("%s|%s|mismatch_vs_python_model" % (prop, op), dict(d, python=want)))
    return _result(checked, viols, inconc, sorted(seen_ops))


def check_c07(io, time_budget=120):
    def eq(got_hex, want_bytes):
        return (got_hex == want_bytes.hex(), want_bytes.hex())
    handlers = {
        "blake2b": lambda d: eq(d["out"], M.blake2b(_b(d["in"]), d["outlen"], key=_b(d.get("key")))),
        "sha512": lambda d: eq(d["out"], M.sha512(_b(d["in"]))),
        "hmacsha512256": lambda d: eq(d["out"], M.hmacsha512256(_b(d["in"]), _b(d["key"]))),
        "poly1305": lambda d: eq(d["out"], M.poly1305(_b(d["in"]), _b(d["key"]))),
        "siphash24": lambda d: eq(d["out"], M.siphash24(_b(d["in"]), _b(d["key"]))),
        "hsalsa20": lambda d: eq(d["out"], M.hsalsa20(_b(d["in"]), _b(d["key"]), _b(d.get("const")))),
        "hchacha20": lambda d: eq(d["out"], M.hchacha20(_b(d["in"]), _b(d["key"]), _b(d.get("const")))),
        "increment": lambda d: eq(d["out"], M.increment_le(_b(d["in"]))),
    }
    return _run(io, handlers, time_budget, "C07")


def check_c12(io, time_budget=120):
    def h(d):
        want = M.kdf_derive(d["len"], int(d["id"]), _b(d["ctx"]), _b(d["key"]))
        return (d["out"] == want.hex(), want.hex())
    return _run(io, {"kdf": h}, time_budget, "C12")


def check_c05(io, time_budget=120):
    cov = {}

    def x(d):
        want = M.x25519(_b(d["n"]), _b(d["p"]))
        side = M.mont_classify(_b(d["p"]))
        cov.setdefault("x25519_point_side", {}).setdefault(side, 0)
        cov["x25519_point_side"][side] += 1
        if d.get("libsodium_rc") == -1 and want != b"\0" * 32:
            raise RuntimeError("libsodium refused a point whose X25519 value is not zero")
        return (d["out"] == want.hex(), want.hex())

    def xb(d):
        want = M.x25519_base(_b(d["n"]))
        return (d["out"] == want.hex(), want.hex())

    def bn(d):
        want = M.box_beforenm(_b(d["pk"]), _b(d["sk"]))
        return (d["out"] == want.hex(), want.hex())

    def kx(d):
        shared = M.x25519(_b(d["csk"]), _b(d["spk"]))
        rx, tx = M.kx_keys(shared, _b(d["cpk"]), _b(d["spk"]))
        return (d["client_rx"] == rx.hex() and d["client_tx"] == tx.hex(), (rx + tx).hex())
    res = _run(io, {"x25519": x, "x25519_base": xb, "beforenm": bn, "kx": kx}, time_budget, "C05")
    res["cov"] = cov
    return res


def check_c06(io, time_budget=120):
    def h(d):
        seed, msg = _b(d["seed"]), _b(d["msg"])
        pk = M.ed25519_public(seed)
        s1 = M.ed25519_sign(seed, msg)
        s2 = M.ed25519_sign(seed, msg, ph=True)
        ok = d["pk"] == pk.hex() and d["sig"] == s1.hex() and d["sig_ph"] == s2.hex()
        ok = ok and M.ed25519_verify_rfc(pk, msg, s1) and M.ed25519_verify_rfc(pk, msg, s2, ph=True)
        ok = ok and not M.ed25519_verify_rfc(pk, msg, s1, ph=True)
        return (ok, dict(pk=pk.hex(), sig=s1.hex(), sig_ph=s2.hex()))
    return _run(io, {"ed25519": h}, time_budget, "C06")


def check_c01(io, time_budget=120):
    def sb(d):
        want = M.secretbox_easy(_b(d["msg"]), _b(d["nonce"]), _b(d["key"]))
        return (d["ct"] == want.hex(), want.hex()[:64])

    def bx(d):
        want = M.box_easy(_b(d["msg"]), _b(d["nonce"]), _b(d["pk"]), _b(d["sk"]))
        return (d["ct"] == want.hex(), want.hex()[:64])

    def sl(d):
        got = M.seal_open(_b(d["ct"]), _b(d["rpk"]), _b(d["rsk"]))
        # sole reference for the python side: the ciphertext came from dryoc, libsodium already opened it online
        return (got is not None and got.hex() == d["msg"], None if got is None else got.hex()[:64])
    return _run(io, {"secretbox": sb, "box": bx, "seal": sl}, time_budget, "C01")


def check_c03(io, time_budget=120):
    def hist(d):
        k0, n0 = _b(d["k0"]), _b(d["nonce0"])
        push = M.SecretStream(k=k0, nonce=n0)
        pull = M.SecretStream(k=k0, nonce=n0)
        queue = []
        for i, op in enumerate(d["ops"]):
            if op["op"] == "push":
                ad = _b(op["ad"]) if op["ad"] is not None else None
                ct = push.push(_b(op["msg"]), ad, op["tag"])
                if ct.hex() != op["ct"]:
                    return (False, "op %d: push ciphertext %s.." % (i, ct.hex()[:48]))
                if push.k.hex() != op["k"] or push.nonce.hex() != op["nonce"]:
                    return (False, "op %d: push state k=%s nonce=%s" % (i, push.k.hex(), push.nonce.hex()))
                queue.append(("ct", ct, ad, _b(op["msg"]), op["tag"]))
            elif op["op"] == "rekey":
                push.rekey()
                if push.k.hex() != op["k"] or push.nonce.hex() != op["nonce"]:
                    return (False, "op %d: state after rekey" % i)
                queue.append(("rekey",))
            elif op["op"] == "pull":
                while queue and queue[0][0] == "rekey":
                    queue.pop(0)
                    pull.rekey()
                _, ct, ad, msg, tag = queue.pop(0)
                r = pull.pull(ct, ad)
                if r is None or r[0] != msg or r[1] != tag:
                    return (False, "op %d: python pull rejected / differs" % i)
                if pull.k.hex() != op["k"] or pull.nonce.hex() != op["nonce"]:
                    return (False, "op %d: pull state k=%s nonce=%s" % (i, pull.k.hex(), pull.nonce.hex()))
        return (True, None)
    return _run(io, {"stream_history": hist}, time_budget, "C03")


def check_c13(io, time_budget=120):
    def box_seed(d):
        pk, sk = M.box_seed_keypair(_b(d["seed"]))
        return (d["pk"] == pk.hex() and d["sk"] == sk.hex(), (pk + sk).hex())

    def kx_seed(d):
        pk, sk = M.kx_seed_keypair(_b(d["seed"]))
        return (d["pk"] == pk.hex() and d["sk"] == sk.hex(), (pk + sk).hex())

    def sign_seed(d):
        seed = _b(d["seed"])
        pk = M.ed25519_public(seed)
        return (d["pk"] == pk.hex() and d["sk"] == (seed + pk).hex(), (pk + seed + pk).hex())

    def ed2x(d):
        xpk = M.ed_pk_to_x25519(_b(d["ed_pk"]))
        xsk = M.ed_seed_to_x25519_sk(_b(d["seed"]))
        ok = d["x_pk"] == xpk.hex() and d["x_sk"] == xsk.hex() and M.x25519_base(xsk) == xpk
        return (ok, (xpk + xsk).hex())

    def pwkp(d):
        sk = M.argon2(_b(d["pw"]), _b(d["salt"]), d["t"], d["m"], 32, d.get("y", 2))
        pk = M.x25519_base(sk)
        return (d["pk"] == pk.hex() and d["sk"] == sk.hex(), (pk + sk).hex())
    return _run(io, {"box_seed": box_seed, "kx_seed": kx_seed, "sign_seed": sign_seed, "ed_to_curve": ed2x, "pw_keypair": pwkp}, time_budget, "C13")


def check_c09(io, time_budget=120):
    def h(d):
        if d["m"] > 64 or d["t"] > 3:
            return None
        want = M.argon2(_b(d["pw"]), _b(d["salt"]), d["t"], d["m"], d["outlen"], 2 if d["id"] else 1)
        return (d["out"] == want.hex(), want.hex())
    # cheapest first so that the time budget truncates the expensive tail, not the variety
    io = sorted([r for r in io if r["op"] == "argon2"], key=lambda r: r["d"]["m"] * r["d"]["t"])
    return _run(io, {"argon2": h}, time_budget, "C09")
