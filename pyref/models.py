"""Pure-Python (stdlib only) executable specification models — reference #2.

Written from the RFCs / papers, independent of both dryoc and libsodium:
  Poly1305, ChaCha20, HChaCha20 (RFC 8439 / draft-irtf-cfrg-xchacha), Salsa20 / HSalsa20 / XSalsa20
  (Bernstein), SipHash-2-4 (Aumasson-Bernstein), X25519 (RFC 7748), Ed25519 / Ed25519ph (RFC 8032),
  BLAKE2b / SHA-512 / HMAC through hashlib, Argon2i/id v1.3 (RFC 9106),
  and the NaCl / libsodium compositions: secretbox, box, sealed box, secretstream, kdf, kx.
Every model carries published vectors that `selftest()` re-runs.
"""
import hashlib
import hmac
import struct

M32 = 0xFFFFFFFF
M64 = 0xFFFFFFFFFFFFFFFF


def rotl32(v, c):
    return ((v << c) & M32) | (v >> (32 - c))


def rotl64(v, c):
    return ((v << c) & M64) | (v >> (64 - c))


def rotr64(v, c):
    return (v >> c) | ((v << (64 - c)) & M64)


# ------------------------------------------------------------------ Poly1305

P1305 = (1 << 130) - 5


def poly1305(msg, key):
    r = int.from_bytes(key[:16], "little") & 0x0FFFFFFC0FFFFFFC0FFFFFFC0FFFFFFF
    s = int.from_bytes(key[16:32], "little")
    acc = 0
    for i in range(0, len(msg), 16):
        blk = msg[i:i + 16]
        n = int.from_bytes(blk + b"\x01", "little")
        acc = ((acc + n) * r) % P1305
    return ((acc + s) & ((1 << 128) - 1)).to_bytes(16, "little")


# ------------------------------------------------------------------ ChaCha20

SIGMA = b"expand 32-byte k"


def _qr_chacha(x, a, b, c, d):
    x[a] = (x[a] + x[b]) & M32; x[d] = rotl32(x[d] ^ x[a], 16)
    x[c] = (x[c] + x[d]) & M32; x[b] = rotl32(x[b] ^ x[c], 12)
    x[a] = (x[a] + x[b]) & M32; x[d] = rotl32(x[d] ^ x[a], 8)
    x[c] = (x[c] + x[d]) & M32; x[b] = rotl32(x[b] ^ x[c], 7)


def _chacha_rounds(x):
    for _ in range(10):
        _qr_chacha(x, 0, 4, 8, 12); _qr_chacha(x, 1, 5, 9, 13)
        _qr_chacha(x, 2, 6, 10, 14); _qr_chacha(x, 3, 7, 11, 15)
        _qr_chacha(x, 0, 5, 10, 15); _qr_chacha(x, 1, 6, 11, 12)
        _qr_chacha(x, 2, 7, 8, 13); _qr_chacha(x, 3, 4, 9, 14)


def chacha20_block(key, counter, nonce12):
    st = list(struct.unpack("<4I", SIGMA)) + list(struct.unpack("<8I", key)) + [counter & M32] + list(struct.unpack("<3I", nonce12))
    x = st[:]
    _chacha_rounds(x)
    return struct.pack("<16I", *[(x[i] + st[i]) & M32 for i in range(16)])


def chacha20_ietf_xor(data, key, nonce12, counter=0):
    out = bytearray()
    for i in range(0, len(data), 64):
        ks = chacha20_block(key, counter + i // 64, nonce12)
        out += bytes(a ^ b for a, b in zip(data[i:i + 64], ks))
    return bytes(out)


def hchacha20(inp16, key, const=None):
    st = list(struct.unpack("<4I", const or SIGMA)) + list(struct.unpack("<8I", key)) + list(struct.unpack("<4I", inp16))
    _chacha_rounds(st)
    return struct.pack("<8I", *(st[0:4] + st[12:16]))


# ------------------------------------------------------------------- Salsa20

def _salsa_rounds(x, rounds=20):
    def qr(a, b, c, d):
        x[b] ^= rotl32((x[a] + x[d]) & M32, 7)
        x[c] ^= rotl32((x[b] + x[a]) & M32, 9)
        x[d] ^= rotl32((x[c] + x[b]) & M32, 13)
        x[a] ^= rotl32((x[d] + x[c]) & M32, 18)
    for _ in range(rounds // 2):
        qr(0, 4, 8, 12); qr(5, 9, 13, 1); qr(10, 14, 2, 6); qr(15, 3, 7, 11)
        qr(0, 1, 2, 3); qr(5, 6, 7, 4); qr(10, 11, 8, 9); qr(15, 12, 13, 14)


def _salsa_state(key, in16, const=None):
    c = struct.unpack("<4I", const or SIGMA)
    k = struct.unpack("<8I", key)
    n = struct.unpack("<4I", in16)
    return [c[0], k[0], k[1], k[2], k[3], c[1], n[0], n[1], n[2], n[3], c[2], k[4], k[5], k[6], k[7], c[3]]


def salsa20_block(key, nonce8, counter):
    st = _salsa_state(key, nonce8 + struct.pack("<Q", counter))
    x = st[:]
    _salsa_rounds(x)
    return struct.pack("<16I", *[(x[i] + st[i]) & M32 for i in range(16)])


def hsalsa20(in16, key, const=None):
    x = _salsa_state(key, in16, const)
    _salsa_rounds(x)
    return struct.pack("<8I", x[0], x[5], x[10], x[15], x[6], x[7], x[8], x[9])


def xsalsa20_stream(n, nonce24, key):
    sub = hsalsa20(nonce24[:16], key)
    out = bytearray()
    ctr = 0
    while len(out) < n:
        out += salsa20_block(sub, nonce24[16:24], ctr)
        ctr += 1
    return bytes(out[:n])


# ------------------------------------------------------------------- SipHash

def siphash24(msg, key):
    k0, k1 = struct.unpack("<QQ", key)
    v0 = k0 ^ 0x736f6d6570736575; v1 = k1 ^ 0x646f72616e646f6d
    v2 = k0 ^ 0x6c7967656e657261; v3 = k1 ^ 0x7465646279746573

    def rnd(v0, v1, v2, v3):
        v0 = (v0 + v1) & M64; v1 = rotl64(v1, 13); v1 ^= v0; v0 = rotl64(v0, 32)
        v2 = (v2 + v3) & M64; v3 = rotl64(v3, 16); v3 ^= v2
        v0 = (v0 + v3) & M64; v3 = rotl64(v3, 21); v3 ^= v0
        v2 = (v2 + v1) & M64; v1 = rotl64(v1, 17); v1 ^= v2; v2 = rotl64(v2, 32)
        return v0, v1, v2, v3
    n = len(msg)
    full = n - n % 8
    for i in range(0, full, 8):
        m = struct.unpack_from("<Q", msg, i)[0]
        v3 ^= m
        v0, v1, v2, v3 = rnd(v0, v1, v2, v3); v0, v1, v2, v3 = rnd(v0, v1, v2, v3)
        v0 ^= m
    b = (n & 0xff) << 56 | int.from_bytes(msg[full:], "little")
    v3 ^= b
    v0, v1, v2, v3 = rnd(v0, v1, v2, v3); v0, v1, v2, v3 = rnd(v0, v1, v2, v3)
    v0 ^= b
    v2 ^= 0xff
    for _ in range(4):
        v0, v1, v2, v3 = rnd(v0, v1, v2, v3)
    return struct.pack("<Q", v0 ^ v1 ^ v2 ^ v3)


# --------------------------------------------------------- hashes via hashlib

def blake2b(data, outlen, key=None, salt=b"", person=b""):
    return hashlib.blake2b(data, digest_size=outlen, key=key or b"", salt=salt, person=person).digest()


def sha512(data):
    return hashlib.sha512(data).digest()


def hmacsha512256(msg, key):
    return hmac.new(key, msg, hashlib.sha512).digest()[:32]


def increment_le(b):
    n = (int.from_bytes(b, "little") + 1) % (1 << (8 * len(b))) if len(b) else 0
    return n.to_bytes(len(b), "little")


# -------------------------------------------------------------------- X25519

P25519 = (1 << 255) - 19
A24 = 121665


def clamp(k):
    k = bytearray(k)
    k[0] &= 248; k[31] &= 127; k[31] |= 64
    return bytes(k)


def x25519(k, u):
    """RFC 7748 X25519 (scalar clamped, u with bit 255 masked, non-canonical u reduced)."""
    kn = int.from_bytes(clamp(k), "little")
    x1 = (int.from_bytes(u, "little") & ((1 << 255) - 1)) % P25519
    x2, z2, x3, z3, swap = 1, 0, x1, 1, 0
    for t in range(254, -1, -1):
        kt = (kn >> t) & 1
        swap ^= kt
        if swap:
            x2, x3 = x3, x2; z2, z3 = z3, z2
        swap = kt
        a = (x2 + z2) % P25519; aa = a * a % P25519
        b = (x2 - z2) % P25519; bb = b * b % P25519
        e = (aa - bb) % P25519
        c = (x3 + z3) % P25519; d = (x3 - z3) % P25519
        da = d * a % P25519; cb = c * b % P25519
        x3 = (da + cb) % P25519; x3 = x3 * x3 % P25519
        z3 = (da - cb) % P25519; z3 = x1 * z3 * z3 % P25519
        x2 = aa * bb % P25519
        z2 = e * (aa + A24 * e) % P25519
    if swap:
        x2, x3 = x3, x2; z2, z3 = z3, z2
    return (x2 * pow(z2, P25519 - 2, P25519) % P25519).to_bytes(32, "little")


def x25519_base(k):
    return x25519(k, (9).to_bytes(32, "little"))


def mont_classify(u_bytes):
    """on curve / on twist, and whether the point has a small-order component (order of u divides 8 ...)."""
    u = (int.from_bytes(u_bytes, "little") & ((1 << 255) - 1)) % P25519
    v2 = (u * u * u + 486662 * u * u + u) % P25519
    on_curve = v2 == 0 or pow(v2, (P25519 - 1) // 2, P25519) == 1
    return "curve" if on_curve else "twist"


# ------------------------------------------------------------------- Ed25519

L = (1 << 252) + 27742317777372353535851937790883648493
D = -121665 * pow(121666, P25519 - 2, P25519) % P25519
SQRTM1 = pow(2, (P25519 - 1) // 4, P25519)


def _ed_add(P, Q):
    A = (P[1] - P[0]) * (Q[1] - Q[0]) % P25519; B = (P[1] + P[0]) * (Q[1] + Q[0]) % P25519
    C = 2 * P[3] * Q[3] * D % P25519; Dd = 2 * P[2] * Q[2] % P25519
    E, F, G, H = B - A, Dd - C, Dd + C, B + A
    return (E * F % P25519, G * H % P25519, F * G % P25519, E * H % P25519)


def _ed_mul(s, P):
    Q = (0, 1, 1, 0)
    while s > 0:
        if s & 1:
            Q = _ed_add(Q, P)
        P = _ed_add(P, P)
        s >>= 1
    return Q


def _ed_eq(P, Q):
    return (P[0] * Q[2] - Q[0] * P[2]) % P25519 == 0 and (P[1] * Q[2] - Q[1] * P[2]) % P25519 == 0


def _recover_x(y, sign):
    if y >= P25519:
        return None
    x2 = (y * y - 1) * pow(D * y * y + 1, P25519 - 2, P25519) % P25519
    if x2 == 0:
        return None if sign else 0
    x = pow(x2, (P25519 + 3) // 8, P25519)
    if (x * x - x2) % P25519 != 0:
        x = x * SQRTM1 % P25519
    if (x * x - x2) % P25519 != 0:
        return None
    if (x & 1) != sign:
        x = P25519 - x
    return x


_GY = 4 * pow(5, P25519 - 2, P25519) % P25519
_GX = _recover_x(_GY, 0)
G = (_GX, _GY, 1, _GX * _GY % P25519)


def ed_compress(P):
    zi = pow(P[2], P25519 - 2, P25519)
    x = P[0] * zi % P25519; y = P[1] * zi % P25519
    return (y | ((x & 1) << 255)).to_bytes(32, "little")


def ed_decompress(s):
    y = int.from_bytes(s, "little")
    sign = y >> 255
    y &= (1 << 255) - 1
    x = _recover_x(y, sign)
    if x is None:
        return None
    return (x, y, 1, x * y % P25519)


DOM2_PH = b"SigEd25519 no Ed25519 collisions\x01\x00"


def ed25519_expand(seed):
    h = sha512(seed)
    a = int.from_bytes(clamp(h[:32]), "little")
    return a, h[32:]


def ed25519_public(seed):
    a, _ = ed25519_expand(seed)
    return ed_compress(_ed_mul(a, G))


def ed25519_sign(seed, msg, ph=False):
    a, prefix = ed25519_expand(seed)
    A = ed_compress(_ed_mul(a, G))
    dom = DOM2_PH if ph else b""
    m = sha512(msg) if ph else msg
    r = int.from_bytes(sha512(dom + prefix + m), "little") % L
    R = ed_compress(_ed_mul(r, G))
    h = int.from_bytes(sha512(dom + R + A + m), "little") % L
    S = (r + h * a) % L
    return R + S.to_bytes(32, "little")


def ed25519_verify_rfc(pk, msg, sig, ph=False):
    """RFC 8032 verification with the strictness libsodium (non-COMPAT) adds: S canonical,
    R and A not of small order, A canonical; cofactorless equation, byte comparison of R."""
    if len(sig) != 64 or len(pk) != 32:
        return False
    S = int.from_bytes(sig[32:], "little")
    if S >= L:
        return False
    A = ed_decompress(pk)
    R = ed_decompress(sig[:32])
    if A is None:
        return False
    if _ed_eq(_ed_mul(8, A), (0, 1, 1, 0)):
        return False
    if R is not None and _ed_eq(_ed_mul(8, R), (0, 1, 1, 0)):
        return False
    if R is None and ed_small_order_encoding(sig[:32]):
        return False
    if int.from_bytes(pk, "little") & ((1 << 255) - 1) >= P25519:
        return False
    dom = DOM2_PH if ph else b""
    m = sha512(msg) if ph else msg
    h = int.from_bytes(sha512(dom + sig[:32] + pk + m), "little") % L
    negA = (P25519 - A[0], A[1], A[2], P25519 - A[3])
    Rc = _ed_add(_ed_mul(S, G), _ed_mul(h, negA))
    return ed_compress(Rc) == sig[:32]


def ed_small_order_encoding(s):
    y = int.from_bytes(s, "little") & ((1 << 255) - 1)
    P = ed_decompress(s)
    if P is None:
        # encodings whose y reduces to a small-order y but with an impossible sign bit
        y %= P25519
        for sign in (0, 1):
            x = _recover_x(y, sign)
            if x is not None and _ed_eq(_ed_mul(8, (x, y, 1, x * y % P25519)), (0, 1, 1, 0)):
                return True
        return False
    return _ed_eq(_ed_mul(8, P), (0, 1, 1, 0))


def ed_pk_to_x25519(pk):
    y = int.from_bytes(pk, "little") & ((1 << 255) - 1)
    u = (1 + y) * pow(1 - y, P25519 - 2, P25519) % P25519
    return u.to_bytes(32, "little")


def ed_seed_to_x25519_sk(seed):
    return clamp(sha512(seed)[:32])


# --------------------------------------------------------- NaCl compositions

def secretbox_detached(msg, nonce24, key):
    ks = xsalsa20_stream(32 + len(msg), nonce24, key)
    c = bytes(a ^ b for a, b in zip(msg, ks[32:]))
    return c, poly1305(c, ks[:32])


def secretbox_easy(msg, nonce24, key):
    c, mac = secretbox_detached(msg, nonce24, key)
    return mac + c


def secretbox_open_easy(ct, nonce24, key):
    if len(ct) < 16:
        return None
    ks = xsalsa20_stream(32 + len(ct) - 16, nonce24, key)
    if not hmac.compare_digest(poly1305(ct[16:], ks[:32]), ct[:16]):
        return None
    return bytes(a ^ b for a, b in zip(ct[16:], ks[32:]))


def box_beforenm(pk, sk):
    return hsalsa20(b"\0" * 16, x25519(sk, pk))


def box_easy(msg, nonce24, pk, sk):
    return secretbox_easy(msg, nonce24, box_beforenm(pk, sk))


def seal_nonce(epk, rpk):
    return blake2b(epk + rpk, 24)


def seal_open(ct, rpk, rsk):
    if len(ct) < 48:
        return None
    epk = ct[:32]
    return secretbox_open_easy(ct[32:], seal_nonce(epk, rpk), box_beforenm(epk, rsk))


def kdf_derive(length, subkey_id, ctx8, key):
    return blake2b(b"", length, key=key, salt=struct.pack("<Q", subkey_id) + b"\0" * 8, person=ctx8 + b"\0" * 8)


def kx_keys(shared, client_pk, server_pk):
    """returns (first32, second32): client rx = first, client tx = second; server rx = second, tx = first."""
    h = blake2b(shared + client_pk + server_pk, 64)
    return h[:32], h[32:]


def box_seed_keypair(seed):
    sk = sha512(seed)[:32]
    return x25519_base(sk), sk


def kx_seed_keypair(seed):
    sk = blake2b(seed, 32)
    return x25519_base(sk), sk


# ------------------------------------------------------------- secretstream

class SecretStream:
    """crypto_secretstream_xchacha20poly1305 re-derived from ChaCha20 + Poly1305 (libsodium layout,
    including its historical mac padding quirk ((0x10 - 64 + mlen) & 0xf))."""

    def __init__(self, key=None, header=None, k=None, nonce=None):
        if k is not None:
            self.k, self.nonce = bytes(k), bytes(nonce)
        else:
            self.k = hchacha20(header[:16], key)
            self.nonce = struct.pack("<I", 1) + header[16:24]

    def rekey(self):
        buf = chacha20_ietf_xor(self.k + self.nonce[4:12], self.k, self.nonce, 0)
        self.k = buf[:32]
        self.nonce = struct.pack("<I", 1) + buf[32:40]

    def _mac(self, ad, block, c):
        mac_key = chacha20_block(self.k, 0, self.nonce)[:32]
        data = ad + b"\0" * ((16 - len(ad) % 16) % 16) + block + c + b"\0" * ((0x10 - 64 + len(c)) & 0xf)
        data += struct.pack("<QQ", len(ad), 64 + len(c))
        return poly1305(data, mac_key)

    def _advance(self, mac, tag):
        inonce = bytes(a ^ b for a, b in zip(self.nonce[4:12], mac[:8]))
        ctr = (struct.unpack("<I", self.nonce[:4])[0] + 1) & M32
        self.nonce = struct.pack("<I", ctr) + inonce
        if (tag & 2) or ctr == 0:
            self.rekey()

    def push(self, msg, ad, tag):
        ad = ad or b""
        block = bytearray(64); block[0] = tag
        block = chacha20_ietf_xor(bytes(block), self.k, self.nonce, 1)
        c = chacha20_ietf_xor(msg, self.k, self.nonce, 2)
        mac = self._mac(ad, block, c)
        self._advance(mac, tag)
        return bytes([block[0]]) + c + mac

    def pull(self, ct, ad):
        ad = ad or b""
        if len(ct) < 17:
            return None
        block = bytearray(64); block[0] = ct[0]
        block = bytearray(chacha20_ietf_xor(bytes(block), self.k, self.nonce, 1))
        tag = block[0]
        block[0] = ct[0]
        c = ct[1:-16]
        mac = self._mac(ad, bytes(block), c)
        if not hmac.compare_digest(mac, ct[-16:]):
            return None
        m = chacha20_ietf_xor(c, self.k, self.nonce, 2)
        self._advance(mac, tag)
        return m, tag


# -------------------------------------------------------------------- Argon2

def _blake2b_long(data, outlen):
    pre = struct.pack("<I", outlen)
    if outlen <= 64:
        return blake2b(pre + data, outlen)
    out = bytearray()
    v = hashlib.blake2b(pre + data, digest_size=64).digest()
    out += v[:32]
    remaining = outlen - 32
    while remaining > 64:
        v = hashlib.blake2b(v, digest_size=64).digest()
        out += v[:32]
        remaining -= 32
    out += hashlib.blake2b(v, digest_size=remaining).digest()
    return bytes(out)


def _fbla(x, y):
    return (x + y + 2 * (x & M32) * (y & M32)) & M64


def _argon_g(v, a, b, c, d):
    v[a] = _fbla(v[a], v[b]); v[d] = rotr64(v[d] ^ v[a], 32)
    v[c] = _fbla(v[c], v[d]); v[b] = rotr64(v[b] ^ v[c], 24)
    v[a] = _fbla(v[a], v[b]); v[d] = rotr64(v[d] ^ v[a], 16)
    v[c] = _fbla(v[c], v[d]); v[b] = rotr64(v[b] ^ v[c], 63)


def _argon_p(v, idx):
    t = [v[i] for i in idx]
    _argon_g(t, 0, 4, 8, 12); _argon_g(t, 1, 5, 9, 13); _argon_g(t, 2, 6, 10, 14); _argon_g(t, 3, 7, 11, 15)
    _argon_g(t, 0, 5, 10, 15); _argon_g(t, 1, 6, 11, 12); _argon_g(t, 2, 7, 8, 13); _argon_g(t, 3, 4, 9, 14)
    for i, j in enumerate(idx):
        v[j] = t[i]


def _argon_compress(X, Y):
    R = [a ^ b for a, b in zip(X, Y)]
    Q = R[:]
    for i in range(8):
        _argon_p(Q, list(range(16 * i, 16 * i + 16)))
    for i in range(8):
        _argon_p(Q, [2 * i + 16 * j + k for j in range(8) for k in (0, 1)])
    return [a ^ b for a, b in zip(Q, R)]


def argon2(pw, salt, t, m_kib, outlen, typ, lanes=1, secret=b"", ad=b"", version=0x13):
    """RFC 9106 Argon2 (typ: 1 = Argon2i, 2 = Argon2id); lanes are processed sequentially."""
    p = lanes
    h0 = hashlib.blake2b(struct.pack("<IIIIII", p, outlen, m_kib, t, version, typ)
                         + struct.pack("<I", len(pw)) + pw + struct.pack("<I", len(salt)) + salt
                         + struct.pack("<I", len(secret)) + secret + struct.pack("<I", len(ad)) + ad,
                         digest_size=64).digest()
    mprime = 4 * p * (max(m_kib, 8 * p) // (4 * p))
    q = mprime // p
    seg = q // 4
    B = [[None] * q for _ in range(p)]

    def to_words(b):
        return list(struct.unpack("<128Q", b))
    for l in range(p):
        B[l][0] = to_words(_blake2b_long(h0 + struct.pack("<II", 0, l), 1024))
        B[l][1] = to_words(_blake2b_long(h0 + struct.pack("<II", 1, l), 1024))
    zero = [0] * 128
    for r in range(t):
        for s in range(4):
            indep = typ == 1 or (typ == 2 and r == 0 and s < 2)
            for l in range(p):
                addr = []
                if indep:
                    ctr = 0
                    while len(addr) < seg:
                        ctr += 1
                        inp = [r, l, s, mprime, t, typ, ctr] + [0] * 121
                        addr += _argon_compress(zero, _argon_compress(zero, inp))
                start = 2 if (r == 0 and s == 0) else 0
                for i in range(start, seg):
                    j = s * seg + i
                    prev = B[l][(j - 1) % q]
                    w = addr[i] if indep else prev[0]
                    j1, j2 = w & M32, w >> 32
                    rl = l if (r == 0 and s == 0) else j2 % p
                    same = rl == l
                    if r == 0:
                        area = (s * seg + i - 1) if same else (s * seg - (1 if i == 0 else 0))
                    else:
                        area = (q - seg + i - 1) if same else (q - seg - (1 if i == 0 else 0))
                    x = (j1 * j1) >> 32
                    y = (area * x) >> 32
                    zz = area - 1 - y
                    startpos = 0 if r == 0 else ((s + 1) % 4) * seg
                    ref = (startpos + zz) % q
                    nb = _argon_compress(prev, B[rl][ref])
                    if r > 0:
                        nb = [a ^ b for a, b in zip(nb, B[l][j])]
                    B[l][j] = nb
    fin = B[0][q - 1]
    for l in range(1, p):
        fin = [a ^ b for a, b in zip(fin, B[l][q - 1])]
    return _blake2b_long(struct.pack("<128Q", *fin), outlen)


# ----------------------------------------------------------------- self test

def _h(s):
    return bytes.fromhex(s.replace(" ", "").replace("\n", ""))


def selftest(which=None):
    """Published vectors; raises AssertionError on any mismatch."""
    def want(name):
        return which is None or name in which
    if want("poly1305"):
        k = _h("85d6be7857556d337f4452fe42d506a80103808afb0db2fd4abff6af4149f51b")
        assert poly1305(b"Cryptographic Forum Research Group", k) == _h("a8061dc1305136c6c22b8baf0c0127a9")  # RFC 8439 2.5.2
    if want("chacha20"):
        k = bytes(range(32)); n = _h("000000090000004a00000000")
        assert chacha20_block(k, 1, n)[:16] == _h("10f1e7e4d13b5915500fdd1fa32071c4")  # RFC 8439 2.3.2
        # draft-irtf-cfrg-xchacha 2.2.1
        assert hchacha20(_h("000000090000004a0000000031415927"), k) == _h(
            "82413b4227b27bfed30e42508a877d73a0f9e4d58a74a853c12ec41326d3ecdc")
    if want("salsa20"):
        # NaCl secretbox test vector (tests/secretbox.c): first key/nonce, ciphertext prefix
        firstkey = _h("1b27556473e985d462cd51197a9a46c76009549eac6474f206c4ee0844f68389")
        nonce = _h("69696ee955b62b73cd62bda875fc73d68219e0036b7a0b37")
        m = _h("be075fc53c81f2d5cf141316ebeb0c7b5228c52a4c62cbd44b66849b64244ffce5ecbaaf33bd751a1ac728d45e6c61296cdc3c01233561f41db66cce314adb310e3be8250c46f06dceea3a7fa1348057e2f6556ad6b1318a024a838f21af1fde048977eb48f59ffd4924ca1c60902e52f0a089bc76897040e082f937763848645e0705")
        c = secretbox_easy(m, nonce, firstkey)
        assert c[:32] == _h("f3ffc7703f9400e52a7dfb4b3d3305d98e993b9f48681273c29650ba32fc76ce"), c[:32].hex()
        assert secretbox_open_easy(c, nonce, firstkey) == m
    if want("siphash"):
        k = bytes(range(16))
        assert siphash24(bytes(range(15)), k) == struct.pack("<Q", 0xa129ca6149be45e5)  # SipHash paper, appendix A
        assert siphash24(b"", k) == _h("310e0edd47db6f72")
    if want("x25519"):
        assert x25519(_h("a546e36bf0527c9d3b16154b82465edd62144c0ac1fc5a18506a2244ba449ac4"),
                      _h("e6db6867583030db3594c1a424b15f7c726624ec26b3353b10a903a6d0ab1c4c")) == _h(
            "c3da55379de9c6908e94ea4df28d084f32eccf03491c71f754b4075577a28552")  # RFC 7748 5.2
        assert x25519(_h("4b66e9d4d1b4673c5ad22691957d6af5c11b6421e0ea01d42ca4169e7918ba0d"),
                      _h("e5210f12786811d3f4b7959d0538ae2c31dbe7106fc03c3efc4cd549c715a493")) == _h(
            "95cbde9476e8907d7aade45cb4b873f88b595a68799fa152e6f8f7647aac7957")
        k = u = (9).to_bytes(32, "little")
        k, u = x25519(k, u), k
        assert k == _h("422c8e7a6227d7bca1350b3e2bb7279f7897b87bb6854b783c60e80311ae3079")  # 1 iteration
    if want("ed25519"):
        seed = _h("9d61b19deffd5a60ba844af492ec2cc44449c5697b326919703bac031cae7f60")
        pk = _h("d75a980182b10ab7d54bfed3c964073a0ee172f3daa62325af021a68f707511a")
        sig = _h("e5564300c360ac729086e2cc806e828a84877f1eb8e5d974d873e065224901555fb8821590a33bacc61e39701cf9b46bd25bf5f0595bbe24655141438e7a100b")
        assert ed25519_public(seed) == pk and ed25519_sign(seed, b"") == sig and ed25519_verify_rfc(pk, b"", sig)  # RFC 8032 7.1 TEST 1
        seedph = _h("833fe62409237b9d62ec77587520911e9a759cec1d19755b7da901b96dca3d42")
        pkph = _h("ec172b93ad5e563bf4932c70e1245034c35467ef2efd4d64ebf819683467e2bf")
        sigph = _h("98a70222f0b8121aa9d30f813d683f809e462b469c7ff87639499bb94e6dae4131f85042463c2a355a2003d062adf5aaa10b8c61e636062aaad11c2a26083406")
        assert ed25519_public(seedph) == pkph and ed25519_sign(seedph, b"abc", ph=True) == sigph  # RFC 8032 7.3
        assert ed25519_verify_rfc(pkph, b"abc", sigph, ph=True) and not ed25519_verify_rfc(pkph, b"abc", sigph, ph=False)
    if want("argon2"):
        # RFC 9106 section 5.2 (Argon2i) and 5.3 (Argon2id): t=3, m=32 KiB, p=4, secret and associated data
        pw, salt, sec, ad = b"\x01" * 32, b"\x02" * 16, b"\x03" * 8, b"\x04" * 12
        got = argon2(pw, salt, 3, 32, 32, 1, lanes=4, secret=sec, ad=ad)
        assert got == _h("c814d9d1dc7f37aa13f0d77f2494bda1c8de6b016dd388d29952a4c4672b6ce8"), got.hex()
        got = argon2(pw, salt, 3, 32, 32, 2, lanes=4, secret=sec, ad=ad)
        assert got == _h("0d640df58d78766c08c037a34a8b53c9d01ef0452d75b65eb52520e96b01e659"), got.hex()
        # phc-winner-argon2 test.c (version 0x13), single lane: t=2, m=2^8 KiB, p=1
        got = argon2(b"password", b"somesalt", 2, 256, 32, 1)
        assert got == _h("89e9029f4637b295beb027056a7336c414fadd43f6b208645281cb214a56452f"), got.hex()
    if want("secretstream"):
        # internal consistency + ChaCha20/Poly1305 anchored by the RFC vectors above; byte-level anchoring of the
        # layout against libsodium is done online (both references must agree before dryoc is blamed)
        key = bytes(range(32)); hdr = bytes(range(24))
        a, b = SecretStream(key, hdr), SecretStream(key, hdr)
        for i, (m, ad, tag) in enumerate([(b"", None, 0), (b"x" * 65, b"ad", 1), (b"y" * 16, b"", 2), (b"z", b"q" * 17, 3)]):
            c = a.push(m, ad, tag)
            assert b.pull(c, ad) == (m, tag)
            assert a.k == b.k and a.nonce == b.nonce
    return True


if __name__ == "__main__":
    selftest()
    print("models ok")
