"""C20 — safe code cannot request an access the current state forbids.

The refutation event is "a program in safe Rust that compiles and touches protected memory / a stream in a way its
state forbids". This driver generates one misuse and/or one control program per cell of the type-state table and
OBSERVES THE REAL COMPILER on the real crate (rustc against the rlib the nightly harness build just produced),
then links and runs the programs that compile under a signal monitor.
"""
import json
import os
import shutil
import subprocess
from concurrent.futures import ThreadPoolExecutor

STATES = ["RwL", "RoL", "NaL", "RwU", "RoU", "NaU"]
STATE_NAME = {"RwL": "Locked+ReadWrite", "RoL": "Locked+ReadOnly", "NaL": "Locked+NoAccess", "RwU": "Unlocked+ReadWrite", "RoU": "Unlocked+ReadOnly", "NaU": "Unlocked+NoAccess"}

HEADER = """#![feature(allocator_api)]
#![allow(unused_variables, unused_mut, unused_imports, unused_must_use, dead_code)]
use dryoc::protected::*;
use dryoc::types::*;
use dryoc::dryocstream::*;
fn g_bytes<B: Bytes>(b: &B) -> usize { b.as_slice().len() }
fn g_mutbytes<B: MutBytes>(b: &mut B) { b.as_mut_slice()[0] = 1; }
fn g_bytearray<B: ByteArray<32>>(b: &B) -> u8 { b.as_array()[0] }
fn g_mutbytearray<B: MutByteArray<32>>(b: &mut B) { b.as_mut_array()[0] = 1; }
fn main() {
    body();
    std::process::exit(0);
}
fn body() {
    let src = [7u8; 32];
"""
# every local is dropped when body() returns: releasing a region (wipe, unlock, unprotect) is part of each permitted program
FOOTER = """}
"""


def reach(container, state):
    """statements that bind `r` in the given state; returns (lines, runnable)"""
    if container == "HeapBytes":
        rw = "    let mut r = HeapBytes::from_slice_into_locked(&src).unwrap();\n"
        ro = "    let mut r = HeapBytes::from_slice_into_readonly_locked(&src).unwrap();\n"
    else:
        rw = "    let mut r = HeapByteArray::<32>::from_slice_into_locked(&src).unwrap();\n"
        ro = "    let mut r = HeapByteArray::<32>::from_slice_into_readonly_locked(&src).unwrap();\n"
    if state == "RwL":
        return rw, True
    if state == "RoL":
        return ro, True
    if state == "RwU":
        return rw + "    let mut r = r.munlock().unwrap();\n", True
    if state == "RoU":
        return ro + "    let mut r = r.munlock().unwrap();\n", True
    if state == "NaU":
        return rw + "    let mut r = r.munlock().unwrap();\n    let mut r = r.mprotect_noaccess().unwrap();\n", True
    # Locked+NoAccess only exists as a type on Linux (mlock of PROT_NONE memory fails at run time): compile-only
    return rw + "    let mut r = r.munlock().unwrap();\n    let mut r = r.mprotect_noaccess().unwrap();\n    let mut r = r.mlock().unwrap();\n", False


# other ways to obtain a protected region (the main table starts from from_slice_into_locked / _readonly_locked): each
# (container, origin) is taken to every state by unlock -> protect -> lock and a light set of permitted programs is run,
# the plain "let it drop" program included
ORIGINS = {
    "HeapBytes": [
        ("HeapBytes::from(&[u8]).mlock()", "RwL", "    let mut r = HeapBytes::from(&src[..]).mlock().unwrap();\n"),
        ("new_locked()+resize", "RwL", "    let mut r = HeapBytes::new_locked().unwrap();\n    r.resize(32, 7);\n"),
        ("clone of a locked region", "RwL", "    let r0 = HeapBytes::from_slice_into_locked(&src).unwrap();\n    let mut r = r0.clone();\n"),
        ("clone of a read-only locked region", "RoL", "    let r0 = HeapBytes::from_slice_into_readonly_locked(&src).unwrap();\n    let mut r = r0.clone();\n"),
        # region lengths around the page size (the main table uses 32 bytes): one byte into a second page, exactly one page
        ("from_slice_into_locked, 4097 bytes", "RwL", "    let big = [9u8; 4097];\n    let mut r = HeapBytes::from_slice_into_locked(&big).unwrap();\n"),
        ("from_slice_into_readonly_locked, 4097 bytes", "RoL", "    let big = [9u8; 4097];\n    let mut r = HeapBytes::from_slice_into_readonly_locked(&big).unwrap();\n"),
        ("from_slice_into_locked, 4096 bytes", "RwL", "    let big = [9u8; 4096];\n    let mut r = HeapBytes::from_slice_into_locked(&big).unwrap();\n"),
        ("from_slice_into_locked, 1 byte", "RwL", "    let one = [9u8; 1];\n    let mut r = HeapBytes::from_slice_into_locked(&one).unwrap();\n"),
        # the empty region: every permitted transition still succeeds (there is nothing to protect); only the
        # operations of EMPTY_OPS are generated for it, since there is no byte to index
        ("new_locked(), empty", "RwL", "    let mut r = HeapBytes::new_locked().unwrap();\n"),
        ("new_readonly_locked(), empty", "RoL", "    let mut r = HeapBytes::new_readonly_locked().unwrap();\n"),
        ("from_slice_into_readonly_locked(b\"\"), empty", "RoL", "    let mut r = HeapBytes::from_slice_into_readonly_locked(b\"\").unwrap();\n"),
        ("locked region resized to zero, empty", "RwL", "    let mut r = HeapBytes::from_slice_into_locked(&src).unwrap();\n    r.resize(0, 0);\n"),
    ],
    "HeapByteArray<32>": [
        ("StackByteArray::mlock()", "RwL", "    let mut r = StackByteArray::<32>::from(src).mlock().unwrap();\n"),
        ("StackByteArray::mprotect_readonly()", "RoU", "    let mut r = StackByteArray::<32>::from(src).mprotect_readonly().unwrap();\n"),
        ("HeapByteArray::from(&[u8;N]).mlock()", "RwL", "    let mut r = HeapByteArray::<32>::from(&src).mlock().unwrap();\n"),
        ("new_locked()", "RwL", "    let mut r = HeapByteArray::<32>::new_locked().unwrap();\n"),
        ("gen_locked()", "RwL", "    let mut r = HeapByteArray::<32>::gen_locked().unwrap();\n"),
        ("new_readonly_locked()", "RoL", "    let mut r = HeapByteArray::<32>::new_readonly_locked().unwrap();\n"),
        ("gen_readonly_locked()", "RoL", "    let mut r = HeapByteArray::<32>::gen_readonly_locked().unwrap();\n"),
    ],
}
LIGHT_OPS = {
    "drop_only": "let unused = 0;",
    "read_view(as_slice)": "let v = r.as_slice().len();",
    "mutable_view(as_mut_slice)": "r.as_mut_slice()[0] = 1;",
    "unlock": "let t = r.munlock();",
    "read_write_then_write": "let mut t = r.mprotect_readwrite().unwrap(); t.as_mut_slice()[0] = 1; let n = t.as_slice().len(); t.as_mut_slice()[n - 1] = 1;",
    "read_last_byte": "let n = r.as_slice().len(); let v = r.as_slice()[n - 1];",
    "write_last_byte": "let n = r.as_slice().len(); r.as_mut_slice()[n - 1] = 1;",
    "read_only_then_read_last": "let t = r.mprotect_readonly().unwrap(); let n = t.as_slice().len(); let v = t.as_slice()[n - 1];",
    "clone_when_readable": "let c = r.clone(); let n = c.as_slice().len();",
}


EMPTY_OPS = ("drop_only", "read_view(as_slice)", "unlock", "clone_when_readable")


def path(origin_state, target):
    """transitions from origin_state to target: unlock, set the protection, lock"""
    pm, lm = origin_state[:2], origin_state[2]
    steps = ""
    if origin_state == target:
        return steps
    if lm == "L":
        steps += "    let mut r = r.munlock().unwrap();\n"
    if pm != target[:2]:
        steps += "    let mut r = r.mprotect_%s().unwrap();\n" % {"Rw": "readwrite", "Ro": "readonly", "Na": "noaccess"}[target[:2]]
    if target[2] == "L":
        steps += "    let mut r = r.mlock().unwrap();\n"
    return steps


# operation -> statement (the single statement that differs between a misuse program and its control)
OPS = {
    "read_view(as_slice)": "let v = r.as_slice().len();",
    "mutable_view(as_mut_slice)": "r.as_mut_slice()[0] = 1;",
    "array_view(as_array)": "let v = r.as_array()[0];",
    "mutable_array_view(as_mut_array)": "r.as_mut_array()[0] = 1;",
    "index": "let v = r[0];",
    "index_assign": "r[0] = 1;",
    "resize": "r.resize(64, 0);",
    "resize_shrink": "r.resize(8, 0); let v = r.as_slice()[7];",
    "resize_to_zero": "r.resize(0, 0);",
    "resize_grow_then_shrink": "r.resize(5000, 1); r.resize(4096, 0); r.resize(31, 0); let v = r.as_slice()[30];",
    "clone": "let c = r.clone();",
    "lock": "let t = r.mlock();",
    "unlock": "let t = r.munlock();",
    "read_only": "let t = r.mprotect_readonly();",
    "read_write": "let t = r.mprotect_readwrite();",
    "no_access": "let t = r.mprotect_noaccess();",
    "use_after_transition": "let t = r.munlock(); let u = r.munlock();",
}
# the permitted statement used as the control of a forbidden cell (available in every state)
CONTROL_STMT = "let t = r.munlock();"
USE_AFTER_CONTROL = "let t = r.munlock().unwrap(); let u = t.munlock();"


def expectation(container, state, op):
    """returns (verdict, grade): verdict in {'allowed','forbidden','n/a'}; grade 'named' (one of the five classes the
    property names: must not compile) or 'model' (forbidden by the type-state model: violated only if it compiles AND faults)"""
    pm, lm = state[:2], state[2]
    arr = container != "HeapBytes"
    if op in ("array_view(as_array)", "mutable_array_view(as_mut_array)") and not arr:
        return "n/a", None
    if op.startswith("resize") and arr:
        return "n/a", None
    if op in ("read_view(as_slice)", "index", "array_view(as_array)"):
        return ("allowed", None) if pm in ("Rw", "Ro") else ("forbidden", "named")
    if op in ("mutable_view(as_mut_slice)", "index_assign", "mutable_array_view(as_mut_array)"):
        return ("allowed", None) if pm == "Rw" else ("forbidden", "named")
    if op.startswith("resize"):
        return ("allowed", None) if pm == "Rw" else ("forbidden", "model")
    if op == "clone":
        if pm == "Na":
            return "forbidden", "model"
        if lm == "L" and arr:
            return "forbidden", "model"  # not offered for the fixed-length container; harmless if it were
        return "allowed", None
    if op == "lock":
        return ("allowed", None) if lm == "U" else ("forbidden", "model")
    if op in ("unlock", "read_only", "read_write"):
        return "allowed", None
    if op == "no_access":
        return ("allowed", None) if lm == "U" else ("forbidden", "named")
    if op == "use_after_transition":
        return "forbidden", "named"
    raise KeyError(op)

# further routes to the bytes: every trait / auto-deref path through which safe code can obtain a view. Where the state
# permits the access the route is *optional* (not every route is offered for every container: a route that does not
# compile there is recorded as not offered); where the state forbids it, the program must not compile.
ROUTES = {
    # name: (statement, "read" | "write", needs fixed-length container)
    "read:Deref": ("let v: &[u8] = &*r; let n = v.len();", "read", False),
    "read:AsRef<[u8]>": ("let v: &[u8] = r.as_ref(); let n = v.len();", "read", False),
    "read:AsRef<[u8;N]>": ("let v: &[u8; 32] = r.as_ref(); let n = v[0];", "read", True),
    "read:slice_method(iter)": ("let n = r.iter().count();", "read", False),
    "read:slice_method(to_vec)": ("let v = r.to_vec();", "read", False),
    "read:slice_method(first)": ("let v = r.first().copied();", "read", False),
    "read:range_index": ("let v = r[..1].len();", "read", False),
    "read:generic Bytes": ("let n = g_bytes(&r);", "read", False),
    "read:generic ByteArray": ("let n = g_bytearray(&r);", "read", True),
    "read:PartialEq": ("let same = r == r;", "read", False),
    "read:Debug": ("let d = format!(\"{:?}\", r);", "read", False),
    "write:DerefMut": ("let v: &mut [u8] = &mut *r; v[0] = 1;", "write", False),
    "write:AsMut<[u8]>": ("let v: &mut [u8] = r.as_mut(); v[0] = 1;", "write", False),
    "write:AsMut<[u8;N]>": ("let v: &mut [u8; 32] = r.as_mut(); v[0] = 1;", "write", True),
    "write:slice_method(iter_mut)": ("for b in r.iter_mut() { *b = 1; }", "write", False),
    "write:slice_method(fill)": ("r.fill(1);", "write", False),
    "write:slice_method(swap)": ("r.swap(0, 1);", "write", False),
    "write:copy_from_slice": ("r.copy_from_slice(&src);", "write", False),
    "write:range_index": ("r[..1][0] = 1;", "write", False),
    "write:generic MutBytes": ("g_mutbytes(&mut r);", "write", False),
    "write:generic MutByteArray": ("g_mutbytearray(&mut r);", "write", True),
}


def programs():
    progs = []
    for container in ("HeapBytes", "HeapByteArray<32>"):
        for state in STATES:
            prefix, runnable = reach(container, state)
            for op, stmt in OPS.items():
                verdict, grade = expectation(container, state, op)
                if verdict == "n/a":
                    continue
                cell = "%s|%s|%s" % (container, STATE_NAME[state], op)
                body = HEADER + prefix
                line = body.count("\n") + 1
                if verdict == "allowed":
                    progs.append(dict(cell=cell, kind="control", grade=None, line=line, runnable=runnable and not (state == "NaU" and op == "lock" and False),
                                      src=body + "    " + stmt + "\n" + FOOTER))
                else:
                    progs.append(dict(cell=cell, kind="misuse", grade=grade, line=line, runnable=runnable, src=body + "    " + stmt + " // MISUSE\n" + FOOTER))
                    ctl = USE_AFTER_CONTROL if op == "use_after_transition" else CONTROL_STMT
                    progs.append(dict(cell=cell, kind="control_of_misuse", grade=None, line=line, runnable=runnable, src=body + "    " + ctl + "\n" + FOOTER))
            for route, (stmt, rw, needs_arr) in ROUTES.items():
                if needs_arr and container == "HeapBytes":
                    continue
                pm = state[:2]
                allowed = pm in ("Rw", "Ro") if rw == "read" else pm == "Rw"
                cell = "%s|%s|%s" % (container, STATE_NAME[state], route)
                body = HEADER + prefix
                line = body.count("\n") + 1
                if allowed:
                    progs.append(dict(cell=cell, kind="optional_control", grade=None, line=line, runnable=runnable, src=body + "    " + stmt + "\n" + FOOTER))
                else:
                    progs.append(dict(cell=cell, kind="misuse", grade="named", line=line, runnable=runnable, src=body + "    " + stmt + " // MISUSE\n" + FOOTER))
    for container, origins in ORIGINS.items():
        for oname, ostate, ocode in origins:
            for state in STATES:
                if state == "NaL":
                    continue
                prefix = ocode + path(ostate, state)
                for op, stmt in LIGHT_OPS.items():
                    pm = state[:2]
                    if oname.endswith("empty") and op not in EMPTY_OPS:
                        continue
                    if op == "clone_when_readable" and (pm == "Na" or container != "HeapBytes"):
                        continue
                    if op in ("read_view(as_slice)", "read_last_byte") and pm == "Na":
                        continue
                    if op in ("mutable_view(as_mut_slice)", "write_last_byte") and pm != "Rw":
                        continue
                    cell = "%s via %s|%s|%s" % (container, oname, STATE_NAME[state], op)
                    body = HEADER + prefix
                    progs.append(dict(cell=cell, kind="control", grade=None, line=body.count("\n") + 1, runnable=True, src=body + "    " + stmt + "\n" + FOOTER))
    # streams
    sp = HEADER + "    let key = Key::gen();\n    let (mut push, header): (DryocStream<Push>, Header) = DryocStream::init_push(&key);\n    let mut pull = DryocStream::init_pull(&key, &header);\n    let c: Vec<u8> = push.push_to_vec(b\"hello\", None, Tag::MESSAGE).unwrap();\n"
    line = sp.count("\n") + 1
    stream_cells = [
        ("Push|push", "control", None, "let c2: Vec<u8> = push.push_to_vec(b\"x\", None, Tag::FINAL).unwrap();"),
        ("Pull|pull", "control", None, "let (m, t) = pull.pull_to_vec(&c, None).unwrap();"),
        ("Push|pull", "misuse", "named", "let r = push.pull_to_vec(&c, None); // MISUSE"),
        ("Pull|push", "misuse", "named", "let r: Result<Vec<u8>, _> = pull.push_to_vec(b\"x\", None, Tag::MESSAGE); // MISUSE"),
        ("Push|pull", "control_of_misuse", None, "let r = pull.pull_to_vec(&c, None);"),
        ("Pull|push", "control_of_misuse", None, "let r: Result<Vec<u8>, _> = push.push_to_vec(b\"x\", None, Tag::MESSAGE);"),
    ]
    for cell, kind, grade, stmt in stream_cells:
        progs.append(dict(cell="DryocStream|" + cell, kind=kind, grade=grade, line=line, runnable=True, src=sp + "    " + stmt + "\n" + FOOTER))
    return progs


def dryoc_rlib(ctx, release=False):
    """builds the nightly harness from /repo's working tree and returns (rlib of dryoc, deps dir)"""
    # only the crate under test is built (harness/rlib depends on dryoc and contains nothing else): a change that makes a
    # permitted program fail to compile may break the monitors' own sources too, and must still be judged here
    env = dict(ctx["env"])
    tdir = os.path.join(ctx["cache"], "target-rlib")
    env["CARGO_TARGET_DIR"] = tdir
    crate = os.path.join(ctx["root"], "harness", "rlib")
    if not os.path.exists(os.path.join(crate, "Cargo.lock")) and os.path.exists("/repo/Cargo.lock"):
        shutil.copy("/repo/Cargo.lock", os.path.join(crate, "Cargo.lock"))
    prof = ["--release"] if release else ["--profile", "verif"]
    p = subprocess.run(["cargo", "+nightly", "build"] + prof + ["--offline", "--message-format=json"],
                       cwd=crate, env=env, stdout=subprocess.PIPE, stderr=subprocess.PIPE, text=True)
    rlib = None
    for line in p.stdout.splitlines():
        if not line.startswith("{"):
            continue
        try:
            m = json.loads(line)
        except Exception:
            continue
        if m.get("reason") == "compiler-artifact" and m.get("target", {}).get("name") == "dryoc":
            for f in m.get("filenames", []):
                if f.endswith(".rlib"):
                    rlib = f
    if rlib is None:
        raise ctx["Inconclusive"]("could not build / locate the dryoc rlib of the nightly build: " + p.stderr[-400:].replace("\n", " | "))
    return rlib, os.path.join(tdir, "release" if release else "verif", "deps")


def run(ctx):
    m = ctx["m"]
    rlib, deps = dryoc_rlib(ctx)
    work = os.path.join(ctx["cache"], "c20")
    shutil.rmtree(work, ignore_errors=True)
    os.makedirs(work)
    progs = programs()
    meta = dict(seed=ctx["seed"], tier=ctx["tier"], monitor="c20(rustc)", build="ni", shard=-1, nshards=0)

    def compile_and_run(item):
        i, pr = item
        src = os.path.join(work, "p%03d.rs" % i)
        open(src, "w").write(pr["src"])
        exe = os.path.join(work, "p%03d" % i)
        base = ["rustc", "+nightly", "--edition", "2021", "--error-format=json", "--extern", "dryoc=" + rlib, "-L", "dependency=" + deps, "--crate-name", "p%03d" % i]
        # misuse programs are only type-checked first (cheap); anything that compiles is linked and run
        c = subprocess.run(base + ["--emit=metadata", "-o", os.path.join(work, "p%03d.rmeta" % i), src], env=ctx["env"], stdout=subprocess.PIPE, stderr=subprocess.PIPE, text=True, timeout=300)
        diags = []
        for line in c.stderr.splitlines():
            if line.startswith("{"):
                try:
                    diags.append(json.loads(line))
                except Exception:
                    pass
        errors = [d for d in diags if d.get("level") == "error"]
        on_line = [d for d in errors if any(s.get("is_primary") and s.get("line_start") == pr["line"] for s in d.get("spans", []))]
        res = dict(compiles=c.returncode == 0, codes=sorted({(d.get("code") or {}).get("code") or "?" for d in errors}), on_misuse_line=bool(on_line),
                   first_error=(errors[0]["message"] if errors else None), run=None)
        if c.returncode == 0 and pr["runnable"]:
            l = subprocess.run(base + ["-C", "opt-level=0", "-o", exe, src], env=ctx["env"], stdout=subprocess.PIPE, stderr=subprocess.PIPE, text=True, timeout=600)
            if l.returncode != 0:
                res["run"] = "link_failed: " + l.stderr[-300:]
            else:
                try:
                    r = subprocess.run([exe], stdout=subprocess.PIPE, stderr=subprocess.PIPE, text=True, timeout=60)
                    res["run"] = r.returncode
                    res["stderr"] = r.stderr[-300:]
                except subprocess.TimeoutExpired:
                    res["run"] = "timeout"
        return i, res
    with ThreadPoolExecutor(max_workers=16) as ex:
        results = dict(ex.map(compile_and_run, enumerate(progs)))

    # the permitted programs once more as a release user would build them: dryoc's release rlib, no debug assertions in the
    # program (generic code of the crate is instantiated there), optimisation on
    rlib_r, deps_r = dryoc_rlib(ctx, release=True)

    def run_release(item):
        i, pr = item
        src = os.path.join(work, "p%03d.rs" % i)
        exe = os.path.join(work, "r%03d" % i)
        cmd = ["rustc", "+nightly", "--edition", "2021", "--extern", "dryoc=" + rlib_r, "-L", "dependency=" + deps_r, "--crate-name", "r%03d" % i,
               "-C", "opt-level=2", "-C", "debug-assertions=off", "-o", exe, src]
        l = subprocess.run(cmd, env=ctx["env"], stdout=subprocess.PIPE, stderr=subprocess.PIPE, text=True, timeout=600)
        if l.returncode != 0:
            return i, "build_failed: " + l.stderr[-300:]
        try:
            r = subprocess.run([exe], stdout=subprocess.PIPE, stderr=subprocess.PIPE, text=True, timeout=60)
            return i, r.returncode
        except subprocess.TimeoutExpired:
            return i, "timeout"
    rel_items = [(i, pr) for i, pr in enumerate(progs) if pr["kind"] in ("control", "control_of_misuse") and pr["runnable"] and results[i]["compiles"]
                 and (" via " in pr["cell"] or pr["kind"] == "control")]
    with ThreadPoolExecutor(max_workers=16) as ex:
        rel_results = dict(ex.map(run_release, rel_items))
    for i, rc in rel_results.items():
        pr = progs[i]
        m.evals += 1
        if rc != 0:
            case = dict(cell=pr["cell"], kind=pr["kind"], build="release rlib, program built with -C opt-level=2 -C debug-assertions=off", run=rc, program=pr["src"])
            if isinstance(rc, str) and rc.startswith("build_failed"):
                m.problems.append("release build of a permitted program failed: %s" % rc[:200])
            else:
                m.add_viol("C20|permitted_program_faults_at_run_time(release build)|%s" % pr["cell"].split("|")[-1], 1, case, meta)
        else:
            d = m.cov.setdefault("control_outcome", {})
            d["runs(release build)"] = d.get("runs(release build)", 0) + 1

    samples = []
    for i, pr in enumerate(progs):
        r = results[i]
        m.evals += 1
        m.keys.add("c20:%s:%s" % (pr["cell"], pr["kind"]))
        dim = m.cov.setdefault("cell_" + pr["kind"], {})
        dim[pr["cell"]] = dim.get(pr["cell"], 0) + 1
        case = dict(cell=pr["cell"], kind=pr["kind"], grade=pr["grade"], compiles=r["compiles"], error_codes=r["codes"], first_error=r["first_error"], run=r["run"],
                    program=pr["src"])
        if pr["kind"] == "optional_control":
            route = pr["cell"].split("|")[-1]
            if not r["compiles"]:
                m.cov.setdefault("route_not_offered", {})[pr["cell"]] = 1
            elif pr["runnable"] and r["run"] != 0:
                m.add_viol("C20|permitted_program_faults_at_run_time|%s" % route, 1, case, meta)
            else:
                m.cov.setdefault("route_offered_and_runs", {})[pr["cell"]] = 1
        elif pr["kind"] in ("control", "control_of_misuse"):
            if not r["compiles"]:
                m.add_viol("C20|permitted_program_rejected_by_compiler|%s" % pr["cell"].split("|")[-1], 1, case, meta)
            elif pr["runnable"] and r["run"] != 0:
                m.add_viol("C20|permitted_program_faults_at_run_time|%s" % pr["cell"].split("|")[-1], 1, case, meta)
            else:
                m.cov.setdefault("control_outcome", {}).setdefault("compiles" + ("+runs" if pr["runnable"] else "(compile-only state)"), 0)
                m.cov["control_outcome"]["compiles" + ("+runs" if pr["runnable"] else "(compile-only state)")] += 1
        else:
            cls = pr["cell"].split("|")[-1]
            if r["compiles"]:
                faulted = isinstance(r["run"], int) and r["run"] < 0
                if pr["grade"] == "named":
                    m.add_viol("C20|forbidden_program_compiles|%s|%s" % (cls, pr["cell"].split("|")[1]), 1, case, meta)
                elif faulted or (isinstance(r["run"], int) and r["run"] not in (0,)):
                    m.add_viol("C20|forbidden_program_compiles_and_faults|%s|%s" % (cls, pr["cell"].split("|")[1]), 1, case, meta)
                else:
                    m.cov.setdefault("model_forbidden_but_offered_and_harmless", {})[pr["cell"]] = 1
            else:
                if not r["on_misuse_line"]:
                    # rejected, but not (only) because of the misuse statement: the generator is suspect
                    m.problems.append("misuse program for %s is rejected by an error that is not on the misuse statement: %s" % (pr["cell"], r["first_error"]))
                for code in r["codes"]:
                    d = m.cov.setdefault("rejection_error_code", {})
                    d[code] = d.get(code, 0) + 1
                if len(samples) < 3 and pr["grade"] == "named":
                    samples.append(dict(cell=pr["cell"], verdict="rejected by rustc", error_codes=r["codes"], message=r["first_error"], misuse_statement=pr["src"].splitlines()[pr["line"] - 1].strip()))
    m.samples.extend(samples)
    ctx["extra_cov"]["programs"] = len(progs)
    ctx["extra_cov"]["rustc"] = subprocess.run(["rustc", "+nightly", "--version"], stdout=subprocess.PIPE, text=True).stdout.strip()
    shutil.rmtree(work, ignore_errors=True)
