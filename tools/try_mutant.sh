#!/bin/bash
# usage: tools/try_mutant.sh <dir with patch.diff> <PID> [tier]   -- applies the change to /repo, runs the check, reverts
D=$(realpath "$1"); PID=$2; TIER=${3:-quick}
cd /repo && git diff --quiet || { echo "/repo has uncommitted changes"; exit 2; }
git -C /repo apply "$D/patch.diff" || { echo "patch does not apply"; exit 3; }
cd /verif && ./check $PID --tier $TIER > "$D/check-$PID-$TIER.out" 2>&1; RC=$?
git -C /repo checkout -- .
echo "check $PID ($TIER) on $(basename $(dirname $D))/$(basename $D): rc=$RC"; grep -E "^VIOLATION|^INCONCLUSIVE|^HELD" "$D/check-$PID-$TIER.out" | cut -c1-220 | head -6
exit $RC
