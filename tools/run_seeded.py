#!/usr/bin/env python3
"""tools/run_seeded.py [seed_id ...] [--tier quick] [--checks C01,C02]  -- applies each seeded change to /repo, runs the check(s), reverts.
Records the outcome in seeded/<id>/detect.json and prints a table."""
import json, os, subprocess, sys, time
args = [a for a in sys.argv[1:] if not a.startswith("--")]
tier = "quick"
checks_override = None
for i, a in enumerate(sys.argv):
    if a == "--tier":
        tier = sys.argv[i + 1]; args = [x for x in args if x != tier]
    if a == "--checks":
        checks_override = sys.argv[i + 1].split(","); args = [x for x in args if x != sys.argv[i + 1]]
root = "/verif/seeded"
ids = args or sorted(d for d in os.listdir(root) if os.path.isfile(os.path.join(root, d, "meta.json")))
assert subprocess.run(["git", "-C", "/repo", "diff", "--quiet"]).returncode == 0, "/repo has uncommitted changes"
for sid in ids:
    d = os.path.join(root, sid)
    meta = json.load(open(os.path.join(d, "meta.json")))
    checks = checks_override or meta.get("checks", [meta["property"]])
    if subprocess.run(["git", "-C", "/repo", "apply", os.path.join(d, "patch.diff")]).returncode != 0:
        print(sid, "PATCH DOES NOT APPLY"); continue
    res = {}
    try:
        for pid in checks:
            t0 = time.time()
            p = subprocess.run(["./check", pid, "--tier", tier], cwd="/verif", capture_output=True, text=True)
            sigs = [l.split("#", 1)[1].strip() for l in p.stdout.splitlines() if l.startswith("VIOLATION") and "#" in l]
            res[pid] = dict(rc=p.returncode, tier=tier, wall_s=round(time.time() - t0, 1), violations=sigs[:12],
                            other=[l for l in p.stdout.splitlines() if l.startswith(("INCONCLUSIVE", "KNOWN"))][:4])
    finally:
        subprocess.run(["git", "-C", "/repo", "checkout", "--", "."])
    old = {}
    dp = os.path.join(d, "detect.json")
    if os.path.exists(dp):
        old = json.load(open(dp))
    old.update(res)
    json.dump(old, open(dp, "w"), indent=1)
    print("%-10s %s" % (sid, "  ".join("%s:%s" % (k, "DETECTED" if v["rc"] == 1 else ("missed" if v["rc"] == 0 else "inconclusive")) for k, v in res.items())), flush=True)
