#!/bin/bash
# usage: tools/prefix_mutant.sh <fix-commit> <PID> [tier] -- temporarily reverts one fix commit in /repo's working tree, runs the check, restores
C=$1; PID=$2; TIER=${3:-quick}
cd /repo && git diff --quiet || { echo "/repo has uncommitted changes"; exit 2; }
git diff $C $C^ | git apply || { echo "reverse patch does not apply"; exit 3; }
cd /verif && ./check $PID --tier $TIER > /tmp/prefix-$PID-$C.out 2>&1; RC=$?
git -C /repo checkout -- .
echo "check $PID with $C reverted: rc=$RC"; grep -E "^VIOLATION|^INCONCLUSIVE|^HELD|^KNOWN" /tmp/prefix-$PID-$C.out | cut -c1-200 | head -8
