#!/bin/bash
# usage: tools/confirm_mutant.sh <dir with patch.diff and demo.rs> [extra cargo test args for the suite]
# Confirms in a scratch worktree (outside /repo and /verif) that the change compiles, passes the pinned
# suite, and that the demonstration fails with the change and passes without it. Removes the worktree.
set -u
D=$(realpath "$1"); W=/tmp/mutconf-$$; export CARGO_TARGET_DIR=/tmp/mutconf-target CARGO_NET_OFFLINE=true
git -C /repo worktree add -q --detach "$W" HEAD || exit 2
cp /repo/Cargo.lock "$W"/
cd "$W"
res() { echo "$1" | tee -a "$D/confirm.log"; }
: > "$D/confirm.log"
FEAT=""
if grep -q "feature = \"nightly\"\|dryoc::protected\|protected::" "$D/demo.rs"; then FEAT="+nightly"; fi
if [ -n "${DEMO_FEATURES:-}" ]; then FEAT="+nightly"; fi
run_demo() { cp "$D/demo.rs" tests/zz_demo.rs; if [ -n "$FEAT" ]; then cargo +nightly test --offline --features ${DEMO_FEATURES:-nightly,serde,base64} ${DEMO_EXTRA:-} --test zz_demo >/tmp/mutconf-demo.$$ 2>&1; else cargo test --offline --features serde,base64 ${DEMO_EXTRA:-} --test zz_demo >/tmp/mutconf-demo.$$ 2>&1; fi; rc=$?; rm -f tests/zz_demo.rs; return $rc; }
run_demo; A=$?
res "demo on unmodified tree: rc=$A (want 0)"
if ! git apply "$D/patch.diff"; then res "PATCH DOES NOT APPLY"; cd /; git -C /repo worktree remove --force "$W"; exit 3; fi
cargo test --workspace --no-fail-fast --offline >/tmp/mutconf-suite.$$ 2>&1; S=$?
res "pinned suite with change: rc=$S (want 0) $(grep -c '^test result: ok' /tmp/mutconf-suite.$$) ok-groups, $(grep -E '^test result' /tmp/mutconf-suite.$$ | tr '\n' ' ')"
run_demo; B=$?
res "demo with change: rc=$B (want non-zero) $(grep -E 'test result|panicked' /tmp/mutconf-demo.$$ | head -3 | tr '\n' ' ')"
cd /; git -C /repo worktree remove --force "$W"; rm -f /tmp/mutconf-demo.$$ /tmp/mutconf-suite.$$
if [ $A -eq 0 ] && [ $S -eq 0 ] && [ $B -ne 0 ]; then res "CONFIRMED"; exit 0; else res "NOT CONFIRMED"; exit 1; fi
