#!/usr/bin/env python3
"""tools/seed_keep.py <pending_dir> <seed_id> <property> "<what it needs to manifest>"  -- keeps a confirmed seeded change"""
import json, os, shutil, sys
src, sid, prop, needs = sys.argv[1:5]
dst = os.path.join("/verif/seeded", sid)
os.makedirs(dst, exist_ok=True)
conf = open(os.path.join(src, "confirm.log")).read()
assert "CONFIRMED" in conf.splitlines()[-1] and "NOT" not in conf.splitlines()[-1], "not confirmed: " + conf
for f in ("patch.diff", "demo.rs", "README.md", "confirm.log"):
    shutil.copy(os.path.join(src, f), os.path.join(dst, f))
if os.path.exists(os.path.join(src, "patch.orig.diff")):
    shutil.copy(os.path.join(src, "patch.orig.diff"), os.path.join(dst, "patch.orig.diff"))
meta = dict(id=sid, property=prop, needs_to_manifest=needs,
            origin="independent sub-agent given only the property text and a scratch worktree of /repo",
            confirmed_by=["tools/confirm_mutant.sh: scratch worktree outside /repo and /verif; demo passes on the unmodified tree, "
                          "pinned suite (cargo test --workspace --no-fail-fast --offline) passes with the change, demo fails with the change"],
            confirm_log=conf.strip().splitlines())
json.dump(meta, open(os.path.join(dst, "meta.json"), "w"), indent=1)
print("kept", dst)
