#!/usr/bin/env python3
"""Regenerates MANIFEST.json from pyref/props.py (claimed checks) and properties.jsonl."""
import json
import os
import subprocess
import sys

ROOT = os.path.dirname(os.path.abspath(__file__))
sys.path.insert(0, os.path.join(ROOT, "pyref"))
sys.dont_write_bytecode = True
import props  # noqa: E402

ids = [json.loads(l)["id"] for l in open(os.path.join(ROOT, "properties.jsonl"))]
hooks = subprocess.run(["git", "-C", "/repo", "log", "--format=%H %s", "--grep", "^hooks:"], capture_output=True, text=True).stdout.split("\n")
hook_commits = [h.split(" ")[0] for h in hooks if h.strip()]

checks = []
na = []
for pid in ids:
    cfg = props.PROPS.get(pid)
    if cfg is None or cfg.get("disabled"):
        na.append(dict(property_id=pid, reason=(cfg or {}).get("disabled", "check not built yet in this round (work in progress; see DESIGN.md section 6 for the planned monitor)")))
        continue
    checks.append(dict(
        property_id=pid,
        quick_cmd="./check %s --tier quick" % pid,
        thorough_cmd="./check %s --tier thorough" % pid,
        evidence_file="evidence/%s.json" % pid,
        replay_cmd_template="./check %s --replay {path}" % pid,
        engine="vmon",
        level_claimed=dict(category=cfg["level"], text=cfg["level_text"], design_ref="DESIGN.md section 6, " + pid),
        level_note=cfg["level_note"],
        technique=cfg["technique"],
    ))

manifest = dict(
    version=1,
    setup_cmd="./check --setup",
    hooks=dict(
        guard="cargo feature verif_hooks (off by default)",
        enable="the harness crate /verif/harness depends on dryoc (path /repo) with features verif_hooks,serde,base64 (+nightly where needed); every check rebuilds it from /repo's working tree",
        baseline_off_cmd="cd /repo && cargo test --workspace --no-fail-fast --offline",
        source_commits=hook_commits,
        add_only=True,
    ),
    engines=[dict(name="vmon", path="harness/", serves_properties=[c["property_id"] for c in checks],
                  kind_free_text="Rust monitor binary (runtime monitors: differential reference-model oracles against libsodium, fault enumeration, "
                                 "history checkers, hooked-state invariants, /proc observers) driven by the python orchestrator ./check; "
                                 "offline pure-Python reference models in pyref/ re-check sampled event logs")],
    checks=checks,
    notes="Technique family: runtime monitoring and sanitizers. Verdicts are three-valued (exit 0 held / 1 violated / 2 inconclusive). "
          "Known findings live in known_findings.json. VERIF_SEED and VERIF_TIER are honoured.",
    not_applicable=na,
)
json.dump(manifest, open(os.path.join(ROOT, "MANIFEST.json"), "w"), indent=1)
print("claimed:", [c["property_id"] for c in checks])
