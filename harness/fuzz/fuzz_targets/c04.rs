#![no_main]
//! libFuzzer front end for the C04 totality monitor: coverage-guided generation of attacker bytes in front of
//! the same entry points; a panic, sanitizer report or absurd allocation is the refutation event.
use libfuzzer_sys::fuzz_target;

#[global_allocator]
static GLOBAL: vmon::ctx::CountingAlloc = vmon::ctx::CountingAlloc;

fuzz_target!(|data: &[u8]| {
    vmon::mon::c04::fuzz_one(data);
});
