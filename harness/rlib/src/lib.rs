//! see Cargo.toml
