//! vmon: runtime monitors for the dryoc properties C01..C20.
//! usage: vmon <monitor> [--tier quick|thorough|tiny] [--seed N] [--shard I] [--nshards N]
//!             [--log FILE] [--opt k=v ...]
#![cfg_attr(feature = "nightly", feature(allocator_api))]
#![allow(clippy::too_many_arguments)]
#![allow(dead_code)]

use std::collections::BTreeMap;

use vmon::ctx::{self, Ctx, Tier};
use vmon::mon;
#[cfg(feature = "sodium")]
use vmon::sodium;

#[global_allocator]
static GLOBAL: ctx::CountingAlloc = ctx::CountingAlloc;

fn main() {
    let args: Vec<String> = std::env::args().collect();
    if args.len() < 2 {
        eprintln!("usage: vmon <monitor> [--tier t] [--seed n] [--shard i] [--nshards n] [--log f] [--opt k=v]");
        std::process::exit(2);
    }
    let monitor = args[1].clone();
    let mut tier = Tier::Quick;
    let mut seed = 1u64;
    let mut shard = 0usize;
    let mut nshards = 1usize;
    let mut log: Option<String> = None;
    let mut opts = BTreeMap::new();
    let mut i = 2;
    while i < args.len() {
        let a = args[i].as_str();
        let v = args.get(i + 1).cloned().unwrap_or_default();
        match a {
            "--tier" => {
                tier = match v.as_str() {
                    "quick" => Tier::Quick,
                    "thorough" => Tier::Thorough,
                    "tiny" => Tier::Tiny,
                    _ => panic!("bad tier"),
                }
            }
            "--seed" => seed = v.parse().expect("seed"),
            "--shard" => shard = v.parse().expect("shard"),
            "--nshards" => nshards = v.parse().expect("nshards"),
            "--log" => log = Some(v.clone()),
            "--opt" => {
                let (k, val) = v.split_once('=').unwrap_or((v.as_str(), "1"));
                opts.insert(k.to_string(), val.to_string());
            }
            _ => panic!("unknown argument {}", a),
        }
        i += 2;
    }
    #[cfg(feature = "sodium")]
    sodium::init();

    let mut cx = Ctx::new(&monitor, tier, seed, shard, nshards, log.as_deref(), opts);
    ctx::install_panic_hook();
    if !cfg!(miri) {
        ctx::install_fatal_handlers(cx.raw_fd().unwrap_or(2));
    }
    if !mon::dispatch(&monitor, &mut cx) {
        eprintln!("unknown monitor {}", monitor);
        std::process::exit(2);
    }
    let rc = cx.finish();
    std::process::exit(rc);
}
