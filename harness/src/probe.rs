//! vprobe: deterministic probe corpus for C18 (results independent of backend, build configuration and
//! container type). Built against dryoc with (a) default features on stable, (b) `nightly`, (c) `nightly` +
//! `simd_backend`; each build prints a transcript `case-id <TAB> output` which the orchestrator diffs.
//! In the nightly builds every operation is additionally executed with stack / Vec / heap / locked containers
//! and compared in-process (lines starting with `CONTAINER_MISMATCH`).
//!
//! usage: vprobe <shard> <nshards> [thorough]
#![cfg_attr(feature = "nightly", feature(allocator_api))]
#![allow(dead_code)]

#[path = "prng.rs"]
mod prng;

use std::io::Write;

use dryoc::classic::crypto_auth::crypto_auth;
use dryoc::classic::crypto_box::*;
use dryoc::classic::crypto_core::*;
use dryoc::classic::crypto_generichash::*;
use dryoc::classic::crypto_hash::*;
use dryoc::classic::crypto_kdf::crypto_kdf_derive_from_key;
use dryoc::classic::crypto_kx::*;
use dryoc::classic::crypto_onetimeauth::crypto_onetimeauth;
use dryoc::classic::crypto_pwhash::{crypto_pwhash, PasswordHashAlgorithm};
use dryoc::classic::crypto_secretbox::crypto_secretbox_easy;
use dryoc::classic::crypto_shorthash::crypto_shorthash;
use dryoc::classic::crypto_sign::*;
use dryoc::generichash::GenericHash;
use dryoc::kdf::Kdf;
use dryoc::keypair::KeyPair;
use dryoc::precalc::PrecalcSecretKey;
use dryoc::sign::SigningKeyPair;
use dryoc::types::*;
use prng::Rng;

fn hx(b: &[u8]) -> String {
    let mut s = String::with_capacity(b.len() * 2);
    for x in b {
        s.push_str(&format!("{:02x}", x));
    }
    s
}

/// outputs longer than 64 bytes are folded with a simple 128-bit FNV (not a dryoc primitive on purpose)
fn fold(b: &[u8]) -> String {
    if b.len() <= 64 {
        return hx(b);
    }
    let mut h: u128 = 0x6c62272e07bb014262b821756295c58d;
    for x in b {
        h ^= *x as u128;
        h = h.wrapping_mul(0x0000000001000000000000000000013b);
    }
    format!("fnv128:{:032x}:len={}", h, b.len())
}

struct Out {
    shard: u64,
    n: u64,
    idx: u64,
    w: std::io::BufWriter<std::io::Stdout>,
    emitted: u64,
}

impl Out {
    fn mine(&mut self) -> bool {
        self.idx += 1;
        let mut z = self.idx.wrapping_add(0x9e3779b97f4a7c15);
        z = (z ^ (z >> 30)).wrapping_mul(0xbf58476d1ce4e5b9);
        z = (z ^ (z >> 27)).wrapping_mul(0x94d049bb133111eb);
        z ^= z >> 31;
        z % self.n == self.shard
    }
    fn emit(&mut self, id: &str, out: &[u8]) {
        let _ = writeln!(self.w, "{}\t{}", id, fold(out));
        self.emitted += 1;
    }
    fn emit_res(&mut self, id: &str, r: Result<Vec<u8>, String>) {
        match r {
            Ok(v) => self.emit(id, &v),
            Err(e) => {
                let _ = writeln!(self.w, "{}\tERR", id);
                let _ = e;
                self.emitted += 1;
            }
        }
    }
    /// in-process comparison between container types
    fn same(&mut self, id: &str, a: &[u8], b: &[u8]) {
        if a != b {
            let _ = writeln!(self.w, "CONTAINER_MISMATCH\t{}\t{}\t{}", id, fold(a), fold(b));
        } else {
            let _ = writeln!(self.w, "CONTAINER_OK\t{}", id);
        }
    }
}

fn msg_of(rng_seed: u64, len: usize) -> Vec<u8> {
    Rng::new(rng_seed, len as u64).bytes(len)
}

fn main() {
    let args: Vec<String> = std::env::args().collect();
    let shard: u64 = args.get(1).and_then(|s| s.parse().ok()).unwrap_or(0);
    let n: u64 = args.get(2).and_then(|s| s.parse().ok()).unwrap_or(1);
    let thorough = args.get(3).map(|s| s == "thorough").unwrap_or(false);
    let mut o = Out { shard, n, idx: 0, w: std::io::BufWriter::new(std::io::stdout()), emitted: 0 };
    let key64 = msg_of(11, 64);
    let key32: [u8; 32] = key64[..32].try_into().unwrap();

    // ------------------------------------------------ generic hash: lengths x parameter pairs
    let maxlen = if thorough { 1100 } else { 520 };
    for len in 0..=maxlen {
        if !o.mine() {
            continue;
        }
        let m = msg_of(1, len);
        for (ol, kl) in [(32usize, 0usize), (64, 64), (16, 16), (33, 17)] {
            let mut out = vec![0u8; ol];
            let key = if kl == 0 { None } else { Some(&key64[..kl]) };
            let r = crypto_generichash(&mut out, &m, key).map(|_| out).map_err(|e| e.to_string());
            o.emit_res(&format!("gh/{}/{}/{}", len, ol, kl), r);
        }
        let mut d = [0u8; 64];
        crypto_hash_sha512(&mut d, &m);
        o.emit(&format!("sha512/{}", len), &d);
        let mut a = [0u8; 32];
        crypto_auth(&mut a, &m, &key32);
        o.emit(&format!("auth/{}", len), &a);
        let mut t = [0u8; 16];
        crypto_onetimeauth(&mut t, &m, &key32);
        o.emit(&format!("poly1305/{}", len), &t);
        let mut s8 = [0u8; 8];
        crypto_shorthash(&mut s8, &m, key64[..16].try_into().unwrap());
        o.emit(&format!("siphash/{}", len), &s8);
    }
    for ol in 16..=64usize {
        for kl in std::iter::once(0usize).chain(16..=64) {
            if !o.mine() {
                continue;
            }
            for len in [0usize, 1, 127, 128, 129, 256] {
                let m = msg_of(2, len);
                let mut out = vec![0u8; ol];
                let key = if kl == 0 { None } else { Some(&key64[..kl]) };
                let r = crypto_generichash(&mut out, &m, key).map(|_| out).map_err(|e| e.to_string());
                o.emit_res(&format!("ghpair/{}/{}/{}", ol, kl, len), r);
            }
        }
    }
    // ------------------------------------------------ generic hash: every 2-way chunking (and 3-way near block boundaries)
    let l2 = if thorough { 700 } else { 400 };
    for len in 0..=l2 {
        if !o.mine() {
            continue;
        }
        let m = msg_of(3, len);
        for a in 0..=len {
            for keyed in [false, true] {
                let mut st = crypto_generichash_init(if keyed { Some(&key32[..]) } else { None }, 32).unwrap();
                crypto_generichash_update(&mut st, &m[..a]);
                crypto_generichash_update(&mut st, &m[a..]);
                let mut out = [0u8; 32];
                crypto_generichash_final(st, &mut out).unwrap();
                o.emit(&format!("gh2/{}/{}/{}", len, a, keyed as u8), &out);
            }
        }
    }
    // a legal but unusual call sequence: the state is initialised for digest length A and finalised into a buffer of
    // another length B (libsodium copies min(B, 64) bytes of the A-parameterised hash); buffer pre-filled, so that a
    // backend that writes fewer bytes than the buffer holds shows stale content
    if o.mine() {
        let m = msg_of(5, 150);
        for a in [16usize, 24, 32, 33, 48, 64] {
            for b in [1usize, 16, 24, 32, 33, 48, 63, 64] {
                for keyed in [false, true] {
                    let r = crypto_generichash_init(if keyed { Some(&key32[..]) } else { None }, a).map_err(|e| e.to_string()).and_then(|mut st| {
                        crypto_generichash_update(&mut st, &m);
                        let mut out = vec![0xAAu8; b];
                        crypto_generichash_final(st, &mut out).map(|_| out).map_err(|e| e.to_string())
                    });
                    o.emit_res(&format!("gh_init_final_len/{}/{}/{}", a, b, keyed as u8), r);
                }
            }
        }
    }
    for len in [127usize, 128, 129, 255, 256, 257, 384] {
        if !o.mine() {
            continue;
        }
        let m = msg_of(4, len);
        for a in 0..=len {
            for b in [a, (a + 1).min(len), (a + 127).min(len), (a + 128).min(len), len] {
                let mut h = GenericHash::<32, 64>::new(Some(&key32)).unwrap();
                h.update(&m[..a]);
                h.update(&m[a..b]);
                h.update(&m[b..]);
                let out = h.finalize_to_vec().unwrap();
                o.emit(&format!("gh3/{}/{}/{}", len, a, b), &out);
            }
        }
    }
    // ------------------------------------------------ KDF: every length x ids
    for id in [0u64, 1, 2, 255, 0xffff_ffff, 0x1_0000_0000, 1 << 63, u64::MAX] {
        if !o.mine() {
            continue;
        }
        for len in 16..=64usize {
            let mut sk = vec![0u8; len];
            let r = crypto_kdf_derive_from_key(&mut sk, id, b"ctxctxct", &key32).map(|_| sk).map_err(|e| e.to_string());
            o.emit_res(&format!("kdf/{}/{}", id, len), r);
        }
        // object API (32-byte subkeys into stack / Vec containers)
        let ks: Kdf<StackByteArray<32>, StackByteArray<8>> = Kdf::from_parts(StackByteArray::from(key32), StackByteArray::from(*b"ctxctxct"));
        o.emit_res(&format!("kdf_obj:to_vec/{}", id), ks.derive_subkey_to_vec(id).map_err(|e| e.to_string()));
        let r: Result<StackByteArray<32>, _> = ks.derive_subkey(id);
        o.emit_res(&format!("kdf_obj:stack/{}", id), r.map(|v| v.as_slice().to_vec()).map_err(|e| e.to_string()));
    }
    // ------------------------------------------------ special peer encodings: low-order points, their neighbours, the
    // ------------------------------------------------ same with bit 255 set. Decisions (Ok / Err) are outputs too.
    {
        let mut specials: Vec<[u8; 32]> = Vec::new();
        let p_: [u8; 32] = {
            let mut p = [0xffu8; 32];
            p[0] = 0xed;
            p[31] = 0x7f;
            p
        };
        let mut e0 = [0u8; 32];
        e0.copy_from_slice(&[0xe0, 0xeb, 0x7a, 0x7c, 0x3b, 0x41, 0xb8, 0xae, 0x16, 0x56, 0xe3, 0xfa, 0xf1, 0x9f, 0xc4, 0x6a, 0xda, 0x09, 0x8d, 0xeb, 0x9c, 0x32, 0xb1, 0xfd, 0x86, 0x62, 0x05, 0x16, 0x5f, 0x49, 0xb8, 0x00]);
        let mut f5 = [0u8; 32];
        f5.copy_from_slice(&[0x5f, 0x9c, 0x95, 0xbc, 0xa3, 0x50, 0x8c, 0x24, 0xb1, 0xd0, 0xb1, 0x55, 0x9c, 0x83, 0xef, 0x5b, 0x04, 0x44, 0x5c, 0xc4, 0x58, 0x1c, 0x8e, 0x86, 0xd8, 0x22, 0x4e, 0xdd, 0xd0, 0x9f, 0x11, 0x57]);
        let add = |base: &[u8; 32], d: i32| -> [u8; 32] {
            let mut v = *base;
            let mut carry = d;
            for b in v.iter_mut() {
                let t = *b as i32 + carry;
                *b = t.rem_euclid(256) as u8;
                carry = t.div_euclid(256);
                if carry == 0 {
                    break;
                }
            }
            v
        };
        for base in [[0u8; 32], e0, f5, p_] {
            for d in [-1i32, 0, 1, 2] {
                let v = add(&base, d);
                specials.push(v);
                let mut h = v;
                h[31] |= 0x80;
                specials.push(h);
            }
        }
        let mut r = Rng::new(55, 1);
        let (mypk, mysk) = crypto_box_seed_keypair(&r.bytes(32));
        for (i, peer) in specials.iter().enumerate() {
            if !o.mine() {
                continue;
            }
            let mut q = [0u8; 32];
            crypto_scalarmult(&mut q, &mysk, peer);
            o.emit(&format!("x25519:special/{}", i), &q);
            let (mut rx, mut tx) = ([0u8; 32], [0u8; 32]);
            let kc = crypto_kx_client_session_keys(&mut rx, &mut tx, &mypk, &mysk, peer).map(|_| [rx, tx].concat()).map_err(|e| e.to_string());
            o.emit_res(&format!("kx:special:client/{}", i), kc);
            let (mut rx, mut tx) = ([0u8; 32], [0u8; 32]);
            let ks = crypto_kx_server_session_keys(&mut rx, &mut tx, &mypk, &mysk, peer).map(|_| [rx, tx].concat()).map_err(|e| e.to_string());
            o.emit_res(&format!("kx:special:server/{}", i), ks);
            let kp: dryoc::keypair::KeyPair<StackByteArray<32>, StackByteArray<32>> = dryoc::keypair::KeyPair::from_slices(&mypk, &mysk).unwrap();
            let peer_s = StackByteArray::<32>::from(*peer);
            let oc = dryoc::kx::Session::<StackByteArray<32>>::new_client(&kp, &peer_s).map(|s| [s.rx_as_slice(), s.tx_as_slice()].concat()).map_err(|e| e.to_string());
            o.emit_res(&format!("kx_obj:special:client/{}", i), oc);
            let os = dryoc::kx::Session::<Vec<u8>>::new_server(&kp, &peer_s).map(|s| [s.rx_as_slice(), s.tx_as_slice()].concat()).map_err(|e| e.to_string());
            o.emit_res(&format!("kx_obj:special:server/{}", i), os);
            let nonce = [7u8; 24];
            let mut c = vec![0u8; 5 + 16];
            let br = crypto_box_easy(&mut c, b"hello", &nonce, peer, &mysk).map(|_| c).map_err(|e| e.to_string());
            o.emit_res(&format!("box:special/{}", i), br);
        }
    }
    // ------------------------------------------------ X25519, kx, box, sealed-box nonce, signatures
    let nkeys = if thorough { 3000 } else { 60 };
    for i in 0..nkeys {
        if !o.mine() {
            continue;
        }
        let mut r = Rng::new(5, i as u64);
        let (apk, ask) = crypto_box_seed_keypair(&r.bytes(32));
        let (bpk, bsk) = crypto_box_seed_keypair(&r.bytes(32));
        o.emit(&format!("boxseed/{}", i), &[apk, ask].concat());
        let mut q = [0u8; 32];
        crypto_scalarmult(&mut q, &ask, &r.arr::<32>());
        o.emit(&format!("x25519/{}", i), &q);
        let (mut rx, mut tx) = ([0u8; 32], [0u8; 32]);
        let kr = crypto_kx_client_session_keys(&mut rx, &mut tx, &apk, &ask, &bpk).map(|_| [rx, tx].concat()).map_err(|e| e.to_string());
        o.emit_res(&format!("kx/{}", i), kr);
        let nonce: [u8; 24] = r.arr();
        let mlen = r.range(0, 300);
        let m = r.bytes(mlen);
        let mut c = vec![0u8; m.len() + 16];
        crypto_box_easy(&mut c, &m, &nonce, &bpk, &ask).unwrap();
        o.emit(&format!("box/{}", i), &c);
        let mut c2 = vec![0u8; m.len() + 16];
        crypto_secretbox_easy(&mut c2, &m, &nonce, &key32).unwrap();
        o.emit(&format!("secretbox/{}", i), &c2);
        // a sealed box built by hand from a fixed ephemeral key: seal_open must derive the same BLAKE2b nonce
        let (epk, esk) = crypto_box_seed_keypair(&r.bytes(32));
        let mut sn = [0u8; 24];
        crypto_generichash(&mut sn, &[epk, bpk].concat(), None).unwrap();
        let mut inner = vec![0u8; m.len() + 16];
        crypto_box_easy(&mut inner, &m, &sn, &bpk, &esk).unwrap();
        let mut sealed = epk.to_vec();
        sealed.extend_from_slice(&inner);
        let mut opened = vec![0u8; m.len()];
        let sr = crypto_box_seal_open(&mut opened, &sealed, &bpk, &bsk).map(|_| opened).map_err(|e| e.to_string());
        o.emit_res(&format!("seal_open/{}", i), sr.map(|v| if v == m { b"opened-ok".to_vec() } else { b"opened-wrong".to_vec() }));
        let (spk, ssk) = crypto_sign_seed_keypair(&r.arr());
        let mut sig = [0u8; 64];
        crypto_sign_detached(&mut sig, &m, &ssk).unwrap();
        o.emit(&format!("sign/{}", i), &[&spk[..], &sig[..]].concat());
        let mut st = crypto_sign_init();
        crypto_sign_update(&mut st, &m[..mlen / 2]);
        crypto_sign_update(&mut st, &m[mlen / 2..]);
        let mut sig2 = [0u8; 64];
        crypto_sign_final_create(st, &mut sig2, &ssk).unwrap();
        o.emit(&format!("signph/{}", i), &sig2);
        let mut hs = [0u8; 32];
        crypto_core_hsalsa20(&mut hs, nonce[..16].try_into().unwrap(), &key32, None);
        o.emit(&format!("hsalsa20/{}", i), &hs);

        #[cfg(feature = "nightly")]
        containers(&mut o, i, &m, &nonce, &key32, (&apk, &ask), (&bpk, &bsk), &ssk);
        // the empty message as well (held read-only it touches the zero-length special cases of the protection calls)
        #[cfg(feature = "nightly")]
        if i % 16 == 0 {
            use dryoc::protected::*;
            containers(&mut o, 1_000_000 + i, &[], &nonce, &key32, (&apk, &ask), (&bpk, &bsk), &ssk);
            let base: Vec<u8> = GenericHash::<32, 32>::hash(&Vec::<u8>::new(), Some(&key32.to_vec())).unwrap();
            let ro = HeapBytes::from_slice_into_readonly_locked(&[]).map_err(|e| e.to_string());
            match ro {
                Ok(ro) => {
                    let h: Vec<u8> = GenericHash::<32, 32>::hash(&ro, Some(&key32.to_vec())).unwrap();
                    o.same(&format!("gh:empty-message-vec-vs-readonly-locked/{}", i), &base, &h);
                    let c = ro.clone();
                    o.same(&format!("clone:empty-readonly-locked/{}", i), c.as_slice(), &[]);
                }
                Err(e) => o.same(&format!("gh:empty-message-vec-vs-readonly-locked/{}", i), &base, e.as_bytes()),
            }
        }
    }
    // ------------------------------------------------ the crate's public type aliases have libsodium's lengths, and the
    // length-inferring APIs (generic hash) give the same bytes through the stack aliases as through explicit types
    if o.mine() {
        macro_rules! alias_len {
            ($name:expr, $t:ty, $want:expr) => {{
                let v = <$t>::default();
                o.same(&format!("alias_len:{}/0", $name), &[Bytes::len(&v) as u8], &[$want as u8]);
            }};
        }
        alias_len!("auth::Key", dryoc::auth::Key, 32);
        alias_len!("auth::Mac", dryoc::auth::Mac, 32);
        alias_len!("dryocbox::PublicKey", dryoc::dryocbox::PublicKey, 32);
        alias_len!("dryocbox::SecretKey", dryoc::dryocbox::SecretKey, 32);
        alias_len!("dryocbox::Nonce", dryoc::dryocbox::Nonce, 24);
        alias_len!("dryocbox::Mac", dryoc::dryocbox::Mac, 16);
        alias_len!("dryocsecretbox::Key", dryoc::dryocsecretbox::Key, 32);
        alias_len!("dryocsecretbox::Nonce", dryoc::dryocsecretbox::Nonce, 24);
        alias_len!("dryocsecretbox::Mac", dryoc::dryocsecretbox::Mac, 16);
        alias_len!("dryocstream::Key", dryoc::dryocstream::Key, 32);
        alias_len!("dryocstream::Nonce", dryoc::dryocstream::Nonce, 12);
        alias_len!("dryocstream::Header", dryoc::dryocstream::Header, 24);
        alias_len!("generichash::Hash", dryoc::generichash::Hash, 32);
        alias_len!("generichash::Key", dryoc::generichash::Key, 32);
        alias_len!("kdf::Key", dryoc::kdf::Key, 32);
        alias_len!("kdf::Context", dryoc::kdf::Context, 8);
        alias_len!("keypair::PublicKey", dryoc::keypair::PublicKey, 32);
        alias_len!("keypair::SecretKey", dryoc::keypair::SecretKey, 32);
        alias_len!("kx::SessionKey", dryoc::kx::SessionKey, 32);
        alias_len!("kx::PublicKey", dryoc::kx::PublicKey, 32);
        alias_len!("kx::SecretKey", dryoc::kx::SecretKey, 32);
        alias_len!("onetimeauth::Key", dryoc::onetimeauth::Key, 32);
        alias_len!("onetimeauth::Mac", dryoc::onetimeauth::Mac, 16);
        alias_len!("sha512::Digest", dryoc::sha512::Digest, 64);
        alias_len!("sign::PublicKey", dryoc::sign::PublicKey, 32);
        alias_len!("sign::SecretKey", dryoc::sign::SecretKey, 64);
        alias_len!("sign::Signature", dryoc::sign::Signature, 64);
        let m = msg_of(77, 100);
        let k: dryoc::generichash::Key = StackByteArray::from(key32);
        let want: StackByteArray<32> = GenericHash::<32, 32>::hash(&m, Some(&k)).unwrap();
        let got: dryoc::generichash::Hash = GenericHash::hash(&m, Some(&k)).unwrap();
        o.same("gh_alias:stack/0", want.as_slice(), got.as_slice());
        let mut h = GenericHash::new(Some(&k)).unwrap();
        h.update(&m);
        let got2: dryoc::generichash::Hash = h.finalize().unwrap();
        o.same("gh_alias:stack-incremental/0", want.as_slice(), got2.as_slice());
        #[cfg(feature = "nightly")]
        {
            use dryoc::protected::*;
            alias_len!("auth::protected::Key", dryoc::auth::protected::Key, 32);
            alias_len!("auth::protected::Mac", dryoc::auth::protected::Mac, 32);
            alias_len!("dryocbox::protected::PublicKey", dryoc::dryocbox::protected::PublicKey, 32);
            alias_len!("dryocbox::protected::SecretKey", dryoc::dryocbox::protected::SecretKey, 32);
            alias_len!("dryocbox::protected::Nonce", dryoc::dryocbox::protected::Nonce, 24);
            alias_len!("dryocbox::protected::Mac", dryoc::dryocbox::protected::Mac, 16);
            alias_len!("dryocsecretbox::protected::Key", dryoc::dryocsecretbox::protected::Key, 32);
            alias_len!("dryocsecretbox::protected::Nonce", dryoc::dryocsecretbox::protected::Nonce, 24);
            alias_len!("dryocsecretbox::protected::Mac", dryoc::dryocsecretbox::protected::Mac, 16);
            alias_len!("dryocstream::protected::Key", dryoc::dryocstream::protected::Key, 32);
            alias_len!("dryocstream::protected::Nonce", dryoc::dryocstream::protected::Nonce, 12);
            alias_len!("dryocstream::protected::Header", dryoc::dryocstream::protected::Header, 24);
            alias_len!("generichash::protected::Hash", dryoc::generichash::protected::Hash, 32);
            alias_len!("generichash::protected::Key", dryoc::generichash::protected::Key, 32);
            alias_len!("kdf::protected::Key", dryoc::kdf::protected::Key, 32);
            alias_len!("kdf::protected::Context", dryoc::kdf::protected::Context, 8);
            alias_len!("kx::protected::SessionKey", dryoc::kx::protected::SessionKey, 32);
            alias_len!("kx::protected::PublicKey", dryoc::kx::protected::PublicKey, 32);
            alias_len!("kx::protected::SecretKey", dryoc::kx::protected::SecretKey, 32);
            alias_len!("onetimeauth::protected::Key", dryoc::onetimeauth::protected::Key, 32);
            alias_len!("onetimeauth::protected::Mac", dryoc::onetimeauth::protected::Mac, 16);
            alias_len!("sign::protected::PublicKey", dryoc::sign::protected::PublicKey, 32);
            alias_len!("sign::protected::SecretKey", dryoc::sign::protected::SecretKey, 64);
            alias_len!("sign::protected::Signature", dryoc::sign::protected::Signature, 64);
            let pk: dryoc::generichash::protected::Key = HeapByteArray::from(&key32);
            let got3: dryoc::generichash::protected::Hash = GenericHash::hash(&m, Some(&pk)).unwrap();
            o.same("gh_alias:protected/0", want.as_slice(), got3.as_slice());
            let got4: Locked<dryoc::generichash::protected::Hash> = GenericHash::hash(&m, Some(&pk)).unwrap();
            o.same("gh_alias:protected-locked/0", want.as_slice(), got4.as_slice());
            let mut h = GenericHash::new(Some(&pk)).unwrap();
            h.update(&m);
            let got5: dryoc::generichash::protected::Hash = h.finalize().unwrap();
            o.same("gh_alias:protected-incremental/0", want.as_slice(), got5.as_slice());
        }
    }
    // ------------------------------------------------ Argon2 grid (reduced) incl. password lengths that end on BLAKE2b block boundaries
    for (ai, alg) in [PasswordHashAlgorithm::Argon2i13, PasswordHashAlgorithm::Argon2id13].into_iter().enumerate() {
        for t in [1u64, 2, 3] {
            for mk in [8usize, 9, 16, 33, 64, 600] {
                for (outlen, pwlen) in [(32usize, 8usize), (16, 0), (64, 72), (65, 200), (128, 56), (200, 127)] {
                    if !o.mine() {
                        continue;
                    }
                    if mk == 600 && (t > 1 || outlen != 32) && !thorough {
                        continue;
                    }
                    let pw = msg_of(6, pwlen);
                    let mut out = vec![0u8; outlen];
                    let r = crypto_pwhash(&mut out, &pw, b"0123456789abcdef", t, mk * 1024, alg.clone()).map(|_| out).map_err(|e| e.to_string());
                    o.emit_res(&format!("argon2/{}/{}/{}/{}/{}", ai, t, mk, outlen, pwlen), r);
                }
            }
        }
    }
    let _ = writeln!(o.w, "SUMMARY\t{}\t{}", o.emitted, o.idx);
    let _ = o.w.flush();
}

#[cfg(feature = "nightly")]
fn containers(o: &mut Out, i: usize, m: &[u8], nonce: &[u8; 24], key32: &[u8; 32], a: (&[u8; 32], &[u8; 32]), b: (&[u8; 32], &[u8; 32]), ssk: &[u8; 64]) {
    use dryoc::dryocsecretbox::DryocSecretBox;
    use dryoc::protected::*;
    let hb = |x: &[u8]| {
        let mut h = HeapBytes::default();
        h.resize(x.len(), 0);
        h.as_mut_slice().copy_from_slice(x);
        h
    };
    // generic hash with keys / outputs in every container
    let base: StackByteArray<32> = GenericHash::<32, 32>::hash(m, Some(&StackByteArray::<32>::from(*key32))).unwrap();
    let v: Vec<u8> = GenericHash::<32, 32>::hash(&m.to_vec(), Some(&key32.to_vec())).unwrap();
    o.same(&format!("gh:stack-vs-vec/{}", i), base.as_slice(), &v);
    let h: HeapByteArray<32> = GenericHash::<32, 32>::hash(&hb(m), Some(&HeapByteArray::<32>::from(key32))).unwrap();
    o.same(&format!("gh:stack-vs-heap/{}", i), base.as_slice(), h.as_slice());
    let lk = HeapByteArray::<32>::from_slice_into_locked(key32).unwrap();
    let l: Locked<HeapByteArray<32>> = GenericHash::<32, 32>::hash(&HeapBytes::from_slice_into_locked(m).unwrap(), Some(&lk)).unwrap();
    o.same(&format!("gh:stack-vs-locked/{}", i), base.as_slice(), l.as_slice());
    // the same edit sequence (fill, grow, overwrite part, shrink, grow again) on a Vec, a heap buffer, an unlocked and a locked
    // region, then hashed: where the bytes live must not change them
    {
        let edit_vec = |mut v: Vec<u8>| -> Vec<u8> {
            v.resize(m.len() + 37, 0x2e);
            if !v.is_empty() {
                v[0] ^= 1;
            }
            v.resize(m.len() / 2 + 1, 0);
            v.resize(m.len() + 5000, 0x2f);
            v
        };
        let want = edit_vec(m.to_vec());
        let mut hbuf = hb(m);
        hbuf.resize(m.len() + 37, 0x2e);
        if !hbuf.is_empty() {
            hbuf.as_mut_slice()[0] ^= 1;
        }
        hbuf.resize(m.len() / 2 + 1, 0);
        hbuf.resize(m.len() + 5000, 0x2f);
        o.same(&format!("resize:vec-vs-heap/{}", i), &want, hbuf.as_slice());
        let mut lbuf = HeapBytes::from_slice_into_locked(m).unwrap();
        lbuf.resize(m.len() + 37, 0x2e);
        if !lbuf.is_empty() {
            lbuf.as_mut_slice()[0] ^= 1;
        }
        lbuf.resize(m.len() / 2 + 1, 0);
        lbuf.resize(m.len() + 5000, 0x2f);
        o.same(&format!("resize:vec-vs-locked/{}", i), &want, lbuf.as_slice());
        let hv: Vec<u8> = GenericHash::<32, 32>::hash(&lbuf, Some(&lk)).unwrap();
        let hw: Vec<u8> = GenericHash::<32, 32>::hash(&want, Some(&key32.to_vec())).unwrap();
        o.same(&format!("resize+hash:vec-vs-locked/{}", i), &hw, &hv);
    }
    // kdf
    let ks: Kdf<StackByteArray<32>, StackByteArray<8>> = Kdf::from_parts(StackByteArray::from(*key32), StackByteArray::from(*b"ctxctxct"));
    let kl: dryoc::kdf::protected::LockedKdf = Kdf::from_parts(HeapByteArray::<32>::from_slice_into_locked(key32).unwrap(), HeapByteArray::<8>::from_slice_into_locked(b"ctxctxct").unwrap());
    let s1: Vec<u8> = ks.derive_subkey_to_vec(i as u64).unwrap();
    let s2: Locked<HeapByteArray<32>> = kl.derive_subkey(i as u64).unwrap();
    o.same(&format!("kdf:stack-vs-locked/{}", i), &s1, s2.as_slice());
    // key pair from secret key, precomputed keys in every container
    let kps: KeyPair<StackByteArray<32>, StackByteArray<32>> = KeyPair::from_secret_key(StackByteArray::from(*a.1));
    let kph: KeyPair<HeapByteArray<32>, HeapByteArray<32>> = KeyPair::from_secret_key(HeapByteArray::from(a.1));
    o.same(&format!("keypair:stack-vs-heap/{}", i), kps.public_key.as_slice(), kph.public_key.as_slice());
    o.same(&format!("keypair:stack-vs-classic/{}", i), kps.public_key.as_slice(), a.0);
    let pre = PrecalcSecretKey::precalculate(b.0, a.1);
    let prel = PrecalcSecretKey::precalculate_locked(b.0, a.1).unwrap();
    let prero = PrecalcSecretKey::precalculate_readonly_locked(b.0, a.1).unwrap();
    o.same(&format!("precalc:stack-vs-locked/{}", i), pre.as_slice(), prel.as_slice());
    o.same(&format!("precalc:stack-vs-lockedro/{}", i), pre.as_slice(), prero.as_slice());
    o.same(&format!("precalc:stack-vs-beforenm/{}", i), pre.as_slice(), &crypto_box_beforenm(b.0, a.1));
    let kpl: KeyPair<Locked<HeapByteArray<32>>, Locked<HeapByteArray<32>>> = KeyPair { public_key: HeapByteArray::<32>::from_slice_into_locked(a.0).unwrap(), secret_key: HeapByteArray::<32>::from_slice_into_locked(a.1).unwrap() };
    let prel2 = kpl.precalculate_locked(b.0).unwrap();
    o.same(&format!("precalc:stack-vs-keypair-locked/{}", i), pre.as_slice(), prel2.as_slice());
    // secret box
    let b1: DryocSecretBox<StackByteArray<16>, Vec<u8>> = DryocSecretBox::encrypt(m, nonce, key32);
    let b2: DryocSecretBox<HeapByteArray<16>, HeapBytes> = DryocSecretBox::encrypt(&hb(m), &HeapByteArray::<24>::from(nonce), &HeapByteArray::<32>::from(key32));
    let b3: dryoc::dryocsecretbox::protected::LockedBox = DryocSecretBox::encrypt(&hb(m), nonce, &lk);
    let w1: Vec<u8> = b1.to_bytes();
    let w2: Vec<u8> = b2.to_bytes();
    let w3: Vec<u8> = b3.to_bytes();
    o.same(&format!("secretbox:stack-vs-heap/{}", i), &w1, &w2);
    o.same(&format!("secretbox:stack-vs-locked/{}", i), &w1, &w3);
    // box
    let x1 = dryoc::dryocbox::VecBox::encrypt_to_vecbox(m, &StackByteArray::from(*nonce), &StackByteArray::from(*b.0), &StackByteArray::from(*a.1)).unwrap().to_vec();
    let x2: dryoc::dryocbox::protected::LockedBox = dryoc::dryocbox::DryocBox::encrypt(&hb(m), &HeapByteArray::<24>::from(nonce), &HeapByteArray::<32>::from(b.0), &HeapByteArray::<32>::from_slice_into_readonly_locked(a.1).unwrap()).unwrap();
    o.same(&format!("box:stack-vs-locked/{}", i), &x1, &x2.to_bytes::<Vec<u8>>());
    let x3: dryoc::dryocbox::DryocBox<HeapByteArray<32>, HeapByteArray<16>, HeapBytes> = dryoc::dryocbox::DryocBox::precalc_encrypt(m, nonce, &prero).unwrap();
    o.same(&format!("box:stack-vs-precalc-lockedro/{}", i), &x1, &x3.to_bytes::<Vec<u8>>());
    // signatures
    let sk_s: SigningKeyPair<StackByteArray<32>, StackByteArray<64>> = SigningKeyPair::from_secret_key(StackByteArray::from(*ssk));
    let sk_l: dryoc::sign::protected::LockedSigningKeyPair = SigningKeyPair { public_key: HeapByteArray::<32>::from_slice_into_locked(&ssk[32..]).unwrap(), secret_key: HeapByteArray::<64>::from_slice_into_locked(ssk).unwrap() };
    let g1 = sk_s.sign_with_defaults(m.to_vec()).unwrap().to_vec();
    let g2: dryoc::sign::protected::LockedSignedMessage = sk_l.sign(HeapBytes::from_slice_into_locked(m).unwrap()).unwrap();
    o.same(&format!("sign:stack-vs-locked/{}", i), &g1, &g2.to_bytes::<Vec<u8>>());
    // sessions
    let s_s: dryoc::kx::Session<StackByteArray<32>> = dryoc::kx::Session::new_client(&kps, &StackByteArray::from(*b.0)).unwrap();
    let s_l: dryoc::kx::protected::LockedSession = dryoc::kx::Session::new_client(&kpl, &HeapByteArray::<32>::from_slice_into_locked(b.0).unwrap()).unwrap();
    o.same(&format!("kx:stack-vs-locked/{}", i), &[s_s.rx_as_slice(), s_s.tx_as_slice()].concat(), &[s_l.rx_as_slice(), s_l.tx_as_slice()].concat());
    // sha512 object
    let d1: StackByteArray<64> = dryoc::sha512::Sha512::compute(m);
    let d2: Vec<u8> = dryoc::sha512::Sha512::compute_to_vec(&hb(m));
    o.same(&format!("sha512:stack-vs-heap-input/{}", i), d1.as_slice(), &d2);
}
