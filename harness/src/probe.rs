//! vprobe: deterministic probe corpus for C18 (placeholder until the C18 monitor lands).
fn main() {}
