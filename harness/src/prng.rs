//! Seeded xoshiro256** (so that native, Miri and replay runs see the same cases).

#[derive(Clone)]
pub struct Rng {
    s: [u64; 4],
}

fn splitmix(x: &mut u64) -> u64 {
    *x = x.wrapping_add(0x9e3779b97f4a7c15);
    let mut z = *x;
    z = (z ^ (z >> 30)).wrapping_mul(0xbf58476d1ce4e5b9);
    z = (z ^ (z >> 27)).wrapping_mul(0x94d049bb133111eb);
    z ^ (z >> 31)
}

impl Rng {
    pub fn new(seed: u64, stream: u64) -> Self {
        let mut x = seed ^ stream.wrapping_mul(0xa0761d6478bd642f) ^ 0x1234_5678_9abc_def0;
        let s = [splitmix(&mut x), splitmix(&mut x), splitmix(&mut x), splitmix(&mut x)];
        Rng { s }
    }

    pub fn fork(&mut self, tag: u64) -> Rng {
        Rng::new(self.u64(), tag)
    }

    pub fn u64(&mut self) -> u64 {
        let r = self.s[1].wrapping_mul(5).rotate_left(7).wrapping_mul(9);
        let t = self.s[1] << 17;
        self.s[2] ^= self.s[0];
        self.s[3] ^= self.s[1];
        self.s[1] ^= self.s[2];
        self.s[0] ^= self.s[3];
        self.s[2] ^= t;
        self.s[3] = self.s[3].rotate_left(45);
        r
    }

    pub fn u32(&mut self) -> u32 {
        (self.u64() >> 32) as u32
    }

    pub fn u8(&mut self) -> u8 {
        (self.u64() >> 56) as u8
    }

    /// uniform in 0..n (n > 0)
    pub fn below(&mut self, n: usize) -> usize {
        ((self.u64() as u128 * n as u128) >> 64) as usize
    }

    pub fn range(&mut self, lo: usize, hi_incl: usize) -> usize {
        lo + self.below(hi_incl - lo + 1)
    }

    pub fn chance(&mut self, num: usize, den: usize) -> bool {
        self.below(den) < num
    }

    pub fn fill(&mut self, buf: &mut [u8]) {
        for c in buf.chunks_mut(8) {
            let v = self.u64().to_le_bytes();
            c.copy_from_slice(&v[..c.len()]);
        }
    }

    pub fn bytes(&mut self, n: usize) -> Vec<u8> {
        let mut v = vec![0u8; n];
        self.fill(&mut v);
        v
    }

    pub fn arr<const N: usize>(&mut self) -> [u8; N] {
        let mut a = [0u8; N];
        self.fill(&mut a);
        a
    }

    /// bytes with no zero byte (sentinels, "secret" patterns)
    pub fn nonzero_bytes(&mut self, n: usize) -> Vec<u8> {
        let mut v = self.bytes(n);
        for b in v.iter_mut() {
            if *b == 0 {
                *b = 0xA5;
            }
        }
        v
    }

    pub fn pick<'a, T>(&mut self, xs: &'a [T]) -> &'a T {
        &xs[self.below(xs.len())]
    }
}
