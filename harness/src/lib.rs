//! vmon library: the monitors, shared context and reference wrappers (the `vmon` binary is a thin driver;
//! the fuzz target in fuzz/ links this library too). Empty without the `full` feature (the `vprobe` binary
//! is built against dryoc's default features only and uses none of it).
#![cfg(feature = "full")]
#![cfg_attr(feature = "nightly", feature(allocator_api))]
#![allow(clippy::too_many_arguments)]
#![allow(dead_code)]

pub mod ctx;
pub mod mon;
pub mod prng;
#[cfg(feature = "sodium")]
pub mod sodium;
