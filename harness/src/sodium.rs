//! Safe wrappers around libsodium 1.0.18 (reference model #1).
#![allow(dead_code)]

use libsodium_sys as ffi;
use std::ptr::null;

pub fn init() {
    let r = unsafe { ffi::sodium_init() };
    assert!(r >= 0, "sodium_init failed");
}

pub fn version() -> String {
    unsafe { std::ffi::CStr::from_ptr(ffi::sodium_version_string()).to_string_lossy().into_owned() }
}

fn p(b: &[u8]) -> *const u8 {
    if b.is_empty() {
        // libsodium accepts NULL for empty inputs; give it a valid dangling-free pointer anyway
        [0u8; 1].as_ptr()
    } else {
        b.as_ptr()
    }
}

// ------------------------------------------------------------- secretbox

pub fn secretbox_easy(m: &[u8], n: &[u8; 24], k: &[u8; 32]) -> Vec<u8> {
    let mut c = vec![0u8; m.len() + 16];
    let r = unsafe { ffi::crypto_secretbox_easy(c.as_mut_ptr(), p(m), m.len() as u64, n.as_ptr(), k.as_ptr()) };
    assert_eq!(r, 0);
    c
}

pub fn secretbox_open_easy(c: &[u8], n: &[u8; 24], k: &[u8; 32]) -> Option<Vec<u8>> {
    if c.len() < 16 {
        return None;
    }
    let mut m = vec![0u8; c.len() - 16 + 1];
    let r = unsafe { ffi::crypto_secretbox_open_easy(m.as_mut_ptr(), c.as_ptr(), c.len() as u64, n.as_ptr(), k.as_ptr()) };
    m.truncate(c.len() - 16);
    if r == 0 {
        Some(m)
    } else {
        None
    }
}

pub fn secretbox_detached(m: &[u8], n: &[u8; 24], k: &[u8; 32]) -> (Vec<u8>, [u8; 16]) {
    let mut c = vec![0u8; m.len() + 1];
    let mut mac = [0u8; 16];
    let r = unsafe {
        ffi::crypto_secretbox_detached(c.as_mut_ptr(), mac.as_mut_ptr(), p(m), m.len() as u64, n.as_ptr(), k.as_ptr())
    };
    assert_eq!(r, 0);
    c.truncate(m.len());
    (c, mac)
}

pub fn secretbox_open_detached(c: &[u8], mac: &[u8; 16], n: &[u8; 24], k: &[u8; 32]) -> Option<Vec<u8>> {
    let mut m = vec![0u8; c.len() + 1];
    let r = unsafe {
        ffi::crypto_secretbox_open_detached(m.as_mut_ptr(), p(c), mac.as_ptr(), c.len() as u64, n.as_ptr(), k.as_ptr())
    };
    m.truncate(c.len());
    if r == 0 {
        Some(m)
    } else {
        None
    }
}

/// XSalsa20 keystream (the first 32 bytes are the Poly1305 key of a secretbox)
pub fn stream_xsalsa20(n: usize, nonce: &[u8; 24], k: &[u8; 32]) -> Vec<u8> {
    let mut out = vec![0u8; n.max(1)];
    unsafe { ffi::crypto_stream_xsalsa20(out.as_mut_ptr(), n as u64, nonce.as_ptr(), k.as_ptr()) };
    out.truncate(n);
    out
}

// ------------------------------------------------------------------- box

pub fn box_seed_keypair(seed: &[u8; 32]) -> ([u8; 32], [u8; 32]) {
    let mut pk = [0u8; 32];
    let mut sk = [0u8; 32];
    let r = unsafe { ffi::crypto_box_seed_keypair(pk.as_mut_ptr(), sk.as_mut_ptr(), seed.as_ptr()) };
    assert_eq!(r, 0);
    (pk, sk)
}

pub fn box_keypair() -> ([u8; 32], [u8; 32]) {
    let mut pk = [0u8; 32];
    let mut sk = [0u8; 32];
    unsafe { ffi::crypto_box_keypair(pk.as_mut_ptr(), sk.as_mut_ptr()) };
    (pk, sk)
}

pub fn box_easy(m: &[u8], n: &[u8; 24], pk: &[u8; 32], sk: &[u8; 32]) -> Option<Vec<u8>> {
    let mut c = vec![0u8; m.len() + 16];
    let r = unsafe { ffi::crypto_box_easy(c.as_mut_ptr(), p(m), m.len() as u64, n.as_ptr(), pk.as_ptr(), sk.as_ptr()) };
    if r == 0 {
        Some(c)
    } else {
        None
    }
}

pub fn box_open_easy(c: &[u8], n: &[u8; 24], pk: &[u8; 32], sk: &[u8; 32]) -> Option<Vec<u8>> {
    if c.len() < 16 {
        return None;
    }
    let mut m = vec![0u8; c.len() - 16 + 1];
    let r = unsafe { ffi::crypto_box_open_easy(m.as_mut_ptr(), c.as_ptr(), c.len() as u64, n.as_ptr(), pk.as_ptr(), sk.as_ptr()) };
    m.truncate(c.len() - 16);
    if r == 0 {
        Some(m)
    } else {
        None
    }
}

pub fn box_beforenm(pk: &[u8; 32], sk: &[u8; 32]) -> Option<[u8; 32]> {
    let mut k = [0u8; 32];
    let r = unsafe { ffi::crypto_box_beforenm(k.as_mut_ptr(), pk.as_ptr(), sk.as_ptr()) };
    if r == 0 {
        Some(k)
    } else {
        None
    }
}

pub fn box_seal(m: &[u8], pk: &[u8; 32]) -> Vec<u8> {
    let mut c = vec![0u8; m.len() + 48];
    let r = unsafe { ffi::crypto_box_seal(c.as_mut_ptr(), p(m), m.len() as u64, pk.as_ptr()) };
    assert_eq!(r, 0);
    c
}

pub fn box_seal_open(c: &[u8], pk: &[u8; 32], sk: &[u8; 32]) -> Option<Vec<u8>> {
    if c.len() < 48 {
        return None;
    }
    let mut m = vec![0u8; c.len() - 48 + 1];
    let r = unsafe { ffi::crypto_box_seal_open(m.as_mut_ptr(), c.as_ptr(), c.len() as u64, pk.as_ptr(), sk.as_ptr()) };
    m.truncate(c.len() - 48);
    if r == 0 {
        Some(m)
    } else {
        None
    }
}

// ------------------------------------------------------------ scalarmult

/// (return code, output buffer as libsodium left it; pre-filled with 0xEE)
pub fn scalarmult(n: &[u8; 32], pt: &[u8; 32]) -> (i32, [u8; 32]) {
    let mut q = [0xEEu8; 32];
    let r = unsafe { ffi::crypto_scalarmult(q.as_mut_ptr(), n.as_ptr(), pt.as_ptr()) };
    (r, q)
}

pub fn scalarmult_base(n: &[u8; 32]) -> [u8; 32] {
    let mut q = [0u8; 32];
    let r = unsafe { ffi::crypto_scalarmult_base(q.as_mut_ptr(), n.as_ptr()) };
    assert_eq!(r, 0);
    q
}

// -------------------------------------------------------------------- kx

pub fn kx_seed_keypair(seed: &[u8; 32]) -> ([u8; 32], [u8; 32]) {
    let mut pk = [0u8; 32];
    let mut sk = [0u8; 32];
    let r = unsafe { ffi::crypto_kx_seed_keypair(pk.as_mut_ptr(), sk.as_mut_ptr(), seed.as_ptr()) };
    assert_eq!(r, 0);
    (pk, sk)
}

pub fn kx_client(cpk: &[u8; 32], csk: &[u8; 32], spk: &[u8; 32]) -> Option<([u8; 32], [u8; 32])> {
    let mut rx = [0u8; 32];
    let mut tx = [0u8; 32];
    let r = unsafe {
        ffi::crypto_kx_client_session_keys(rx.as_mut_ptr(), tx.as_mut_ptr(), cpk.as_ptr(), csk.as_ptr(), spk.as_ptr())
    };
    if r == 0 {
        Some((rx, tx))
    } else {
        None
    }
}

pub fn kx_server(spk: &[u8; 32], ssk: &[u8; 32], cpk: &[u8; 32]) -> Option<([u8; 32], [u8; 32])> {
    let mut rx = [0u8; 32];
    let mut tx = [0u8; 32];
    let r = unsafe {
        ffi::crypto_kx_server_session_keys(rx.as_mut_ptr(), tx.as_mut_ptr(), spk.as_ptr(), ssk.as_ptr(), cpk.as_ptr())
    };
    if r == 0 {
        Some((rx, tx))
    } else {
        None
    }
}

// ------------------------------------------------------------------- kdf

pub fn kdf_derive(len: usize, id: u64, ctx: &[u8; 8], key: &[u8; 32]) -> Option<Vec<u8>> {
    let mut out = vec![0u8; len.max(1)];
    let r = unsafe {
        ffi::crypto_kdf_derive_from_key(out.as_mut_ptr(), len, id, ctx.as_ptr() as *const libc::c_char, key.as_ptr())
    };
    out.truncate(len);
    if r == 0 {
        Some(out)
    } else {
        None
    }
}

// ------------------------------------------------------------------ hash

pub fn generichash(outlen: usize, input: &[u8], key: Option<&[u8]>) -> Option<Vec<u8>> {
    let mut out = vec![0u8; outlen.max(1)];
    let (kp, kl) = match key {
        Some(k) => (k.as_ptr(), k.len()),
        None => (null(), 0),
    };
    let r = unsafe { ffi::crypto_generichash(out.as_mut_ptr(), outlen, p(input), input.len() as u64, kp, kl) };
    out.truncate(outlen);
    if r == 0 {
        Some(out)
    } else {
        None
    }
}

pub fn sha512(input: &[u8]) -> [u8; 64] {
    let mut out = [0u8; 64];
    unsafe { ffi::crypto_hash_sha512(out.as_mut_ptr(), p(input), input.len() as u64) };
    out
}

pub fn auth(input: &[u8], key: &[u8; 32]) -> [u8; 32] {
    let mut out = [0u8; 32];
    unsafe { ffi::crypto_auth(out.as_mut_ptr(), p(input), input.len() as u64, key.as_ptr()) };
    out
}

pub fn auth_verify(mac: &[u8; 32], input: &[u8], key: &[u8; 32]) -> bool {
    unsafe { ffi::crypto_auth_verify(mac.as_ptr(), p(input), input.len() as u64, key.as_ptr()) == 0 }
}

pub fn onetimeauth(input: &[u8], key: &[u8; 32]) -> [u8; 16] {
    let mut out = [0u8; 16];
    unsafe { ffi::crypto_onetimeauth(out.as_mut_ptr(), p(input), input.len() as u64, key.as_ptr()) };
    out
}

pub fn onetimeauth_verify(mac: &[u8; 16], input: &[u8], key: &[u8; 32]) -> bool {
    unsafe { ffi::crypto_onetimeauth_verify(mac.as_ptr(), p(input), input.len() as u64, key.as_ptr()) == 0 }
}

pub fn shorthash(input: &[u8], key: &[u8; 16]) -> [u8; 8] {
    let mut out = [0u8; 8];
    unsafe { ffi::crypto_shorthash(out.as_mut_ptr(), p(input), input.len() as u64, key.as_ptr()) };
    out
}

pub fn hsalsa20(input: &[u8; 16], key: &[u8; 32], c: Option<&[u8; 16]>) -> [u8; 32] {
    let mut out = [0u8; 32];
    unsafe {
        ffi::crypto_core_hsalsa20(out.as_mut_ptr(), input.as_ptr(), key.as_ptr(), c.map(|c| c.as_ptr()).unwrap_or(null()))
    };
    out
}

pub fn hchacha20(input: &[u8; 16], key: &[u8; 32], c: Option<&[u8; 16]>) -> [u8; 32] {
    let mut out = [0u8; 32];
    unsafe {
        ffi::crypto_core_hchacha20(out.as_mut_ptr(), input.as_ptr(), key.as_ptr(), c.map(|c| c.as_ptr()).unwrap_or(null()))
    };
    out
}

pub fn increment(b: &mut [u8]) {
    unsafe { ffi::sodium_increment(b.as_mut_ptr(), b.len()) }
}

// ------------------------------------------------------------------ sign

pub fn sign_seed_keypair(seed: &[u8; 32]) -> ([u8; 32], [u8; 64]) {
    let mut pk = [0u8; 32];
    let mut sk = [0u8; 64];
    unsafe { ffi::crypto_sign_seed_keypair(pk.as_mut_ptr(), sk.as_mut_ptr(), seed.as_ptr()) };
    (pk, sk)
}

pub fn sign_detached(m: &[u8], sk: &[u8; 64]) -> [u8; 64] {
    let mut sig = [0u8; 64];
    let mut l = 0u64;
    unsafe { ffi::crypto_sign_detached(sig.as_mut_ptr(), &mut l, p(m), m.len() as u64, sk.as_ptr()) };
    sig
}

pub fn sign(m: &[u8], sk: &[u8; 64]) -> Vec<u8> {
    let mut sm = vec![0u8; m.len() + 64];
    let mut l = 0u64;
    unsafe { ffi::crypto_sign(sm.as_mut_ptr(), &mut l, p(m), m.len() as u64, sk.as_ptr()) };
    sm
}

pub fn sign_verify_detached(sig: &[u8; 64], m: &[u8], pk: &[u8; 32]) -> bool {
    unsafe { ffi::crypto_sign_verify_detached(sig.as_ptr(), p(m), m.len() as u64, pk.as_ptr()) == 0 }
}

pub fn sign_open(sm: &[u8], pk: &[u8; 32]) -> Option<Vec<u8>> {
    if sm.len() < 64 {
        return None;
    }
    let mut m = vec![0u8; sm.len() - 64 + 1];
    let mut l = 0u64;
    let r = unsafe { ffi::crypto_sign_open(m.as_mut_ptr(), &mut l, sm.as_ptr(), sm.len() as u64, pk.as_ptr()) };
    m.truncate(sm.len() - 64);
    if r == 0 {
        Some(m)
    } else {
        None
    }
}

pub fn sign_ph_create(m: &[u8], sk: &[u8; 64]) -> [u8; 64] {
    unsafe {
        let mut st: ffi::crypto_sign_state = std::mem::zeroed();
        ffi::crypto_sign_init(&mut st);
        ffi::crypto_sign_update(&mut st, p(m), m.len() as u64);
        let mut sig = [0u8; 64];
        let mut l = 0u64;
        ffi::crypto_sign_final_create(&mut st, sig.as_mut_ptr(), &mut l, sk.as_ptr());
        sig
    }
}

pub fn sign_ph_verify(sig: &[u8; 64], m: &[u8], pk: &[u8; 32]) -> bool {
    unsafe {
        let mut st: ffi::crypto_sign_state = std::mem::zeroed();
        ffi::crypto_sign_init(&mut st);
        ffi::crypto_sign_update(&mut st, p(m), m.len() as u64);
        ffi::crypto_sign_final_verify(&mut st, sig.as_ptr(), pk.as_ptr()) == 0
    }
}

pub fn ed_pk_to_curve(pk: &[u8; 32]) -> Option<[u8; 32]> {
    let mut o = [0u8; 32];
    let r = unsafe { ffi::crypto_sign_ed25519_pk_to_curve25519(o.as_mut_ptr(), pk.as_ptr()) };
    if r == 0 {
        Some(o)
    } else {
        None
    }
}

pub fn ed_sk_to_curve(sk: &[u8; 64]) -> [u8; 32] {
    let mut o = [0u8; 32];
    unsafe { ffi::crypto_sign_ed25519_sk_to_curve25519(o.as_mut_ptr(), sk.as_ptr()) };
    o
}

pub fn ed_scalar_add(a: &[u8; 32], b: &[u8; 32]) -> [u8; 32] {
    let mut o = [0u8; 32];
    unsafe { ffi::crypto_core_ed25519_scalar_add(o.as_mut_ptr(), a.as_ptr(), b.as_ptr()) };
    o
}
pub fn ed_scalar_mul(a: &[u8; 32], b: &[u8; 32]) -> [u8; 32] {
    let mut o = [0u8; 32];
    unsafe { ffi::crypto_core_ed25519_scalar_mul(o.as_mut_ptr(), a.as_ptr(), b.as_ptr()) };
    o
}
pub fn ed_scalar_reduce(a: &[u8; 64]) -> [u8; 32] {
    let mut o = [0u8; 32];
    unsafe { ffi::crypto_core_ed25519_scalar_reduce(o.as_mut_ptr(), a.as_ptr()) };
    o
}
pub fn ed_scalarmult_base_noclamp(a: &[u8; 32]) -> Option<[u8; 32]> {
    let mut o = [0u8; 32];
    let r = unsafe { ffi::crypto_scalarmult_ed25519_base_noclamp(o.as_mut_ptr(), a.as_ptr()) };
    if r == 0 {
        Some(o)
    } else {
        None
    }
}

// ---------------------------------------------------------- secretstream

pub type StreamState = ffi::crypto_secretstream_xchacha20poly1305_state;

pub fn stream_state(k: [u8; 32], nonce: [u8; 12]) -> StreamState {
    StreamState { k, nonce, _pad: [0u8; 8] }
}

pub fn stream_init_pull(header: &[u8; 24], key: &[u8; 32]) -> StreamState {
    let mut st = stream_state([0; 32], [0; 12]);
    unsafe { ffi::crypto_secretstream_xchacha20poly1305_init_pull(&mut st, header.as_ptr(), key.as_ptr()) };
    st
}

pub fn stream_init_push(key: &[u8; 32]) -> (StreamState, [u8; 24]) {
    let mut st = stream_state([0; 32], [0; 12]);
    let mut h = [0u8; 24];
    unsafe { ffi::crypto_secretstream_xchacha20poly1305_init_push(&mut st, h.as_mut_ptr(), key.as_ptr()) };
    (st, h)
}

pub fn stream_push(st: &mut StreamState, m: &[u8], ad: Option<&[u8]>, tag: u8) -> Vec<u8> {
    let mut c = vec![0u8; m.len() + 17];
    let (ap, al) = match ad {
        Some(a) => (p(a), a.len()),
        None => (null(), 0),
    };
    let r = unsafe {
        ffi::crypto_secretstream_xchacha20poly1305_push(st, c.as_mut_ptr(), std::ptr::null_mut(), p(m), m.len() as u64, ap, al as u64, tag)
    };
    assert_eq!(r, 0);
    c
}

pub fn stream_pull(st: &mut StreamState, c: &[u8], ad: Option<&[u8]>) -> Option<(Vec<u8>, u8)> {
    if c.len() < 17 {
        return None;
    }
    let mut m = vec![0u8; c.len() - 17 + 1];
    let mut tag = 0u8;
    let (ap, al) = match ad {
        Some(a) => (p(a), a.len()),
        None => (null(), 0),
    };
    let r = unsafe {
        ffi::crypto_secretstream_xchacha20poly1305_pull(st, m.as_mut_ptr(), std::ptr::null_mut(), &mut tag, c.as_ptr(), c.len() as u64, ap, al as u64)
    };
    m.truncate(c.len() - 17);
    if r == 0 {
        Some((m, tag))
    } else {
        None
    }
}

pub fn stream_rekey(st: &mut StreamState) {
    unsafe { ffi::crypto_secretstream_xchacha20poly1305_rekey(st) }
}

// ---------------------------------------------------------------- pwhash

pub const ALG_ARGON2I13: i32 = 1;
pub const ALG_ARGON2ID13: i32 = 2;

pub fn pwhash(outlen: usize, pw: &[u8], salt: &[u8; 16], ops: u64, mem: usize, alg: i32) -> Option<Vec<u8>> {
    let mut out = vec![0u8; outlen.max(1)];
    let r = unsafe {
        ffi::crypto_pwhash(out.as_mut_ptr(), outlen as u64, p(pw) as *const libc::c_char, pw.len() as u64, salt.as_ptr(), ops, mem, alg)
    };
    out.truncate(outlen);
    if r == 0 {
        Some(out)
    } else {
        None
    }
}

extern "C" {
    fn argon2i_hash_raw(t: u32, m: u32, par: u32, pwd: *const libc::c_void, pwdlen: usize, salt: *const libc::c_void, saltlen: usize, hash: *mut libc::c_void, hashlen: usize) -> libc::c_int;
    fn argon2id_hash_raw(t: u32, m: u32, par: u32, pwd: *const libc::c_void, pwdlen: usize, salt: *const libc::c_void, saltlen: usize, hash: *mut libc::c_void, hashlen: usize) -> libc::c_int;
}

/// libsodium's internal Argon2 core (no restriction on t >= 3 for Argon2i, any salt length >= 8)
pub fn argon2_raw(id: bool, t: u32, m_kib: u32, pw: &[u8], salt: &[u8], outlen: usize) -> Option<Vec<u8>> {
    let mut out = vec![0u8; outlen.max(1)];
    let r = unsafe {
        if id {
            argon2id_hash_raw(t, m_kib, 1, p(pw) as *const _, pw.len(), p(salt) as *const _, salt.len(), out.as_mut_ptr() as *mut _, outlen)
        } else {
            argon2i_hash_raw(t, m_kib, 1, p(pw) as *const _, pw.len(), p(salt) as *const _, salt.len(), out.as_mut_ptr() as *mut _, outlen)
        }
    };
    out.truncate(outlen);
    if r == 0 {
        Some(out)
    } else {
        None
    }
}

pub fn pwhash_str(pw: &[u8], ops: u64, mem: usize) -> Option<String> {
    let mut out = [0u8; 128];
    let r = unsafe { ffi::crypto_pwhash_str(out.as_mut_ptr() as *mut libc::c_char, p(pw) as *const libc::c_char, pw.len() as u64, ops, mem) };
    if r != 0 {
        return None;
    }
    let n = out.iter().position(|b| *b == 0).unwrap();
    Some(String::from_utf8_lossy(&out[..n]).into_owned())
}

pub fn pwhash_argon2i_str(pw: &[u8], ops: u64, mem: usize) -> Option<String> {
    let mut out = [0u8; 128];
    let r = unsafe { ffi::crypto_pwhash_argon2i_str(out.as_mut_ptr() as *mut libc::c_char, p(pw) as *const libc::c_char, pw.len() as u64, ops, mem) };
    if r != 0 {
        return None;
    }
    let n = out.iter().position(|b| *b == 0).unwrap();
    Some(String::from_utf8_lossy(&out[..n]).into_owned())
}

/// libsodium's verdict on an encoded string (NUL-terminated copy of any length; libsodium's
/// decoder sizes its buffers from strlen). The public `crypto_pwhash_str_verify`
/// dispatches on the `$argon2id$` / `$argon2i$` prefix.
pub fn pwhash_str_verify(s: &str, pw: &[u8]) -> Option<bool> {
    let c = std::ffi::CString::new(s).ok()?;
    let r = unsafe { ffi::crypto_pwhash_str_verify(c.as_ptr(), p(pw) as *const libc::c_char, pw.len() as u64) };
    Some(r == 0)
}

pub fn pwhash_str_needs_rehash(s: &str, ops: u64, mem: usize) -> Option<i32> {
    let c = std::ffi::CString::new(s).ok()?;
    Some(unsafe { ffi::crypto_pwhash_str_needs_rehash(c.as_ptr(), ops, mem) })
}
