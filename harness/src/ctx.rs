//! Shared monitor context: event log, coverage, violation records, case markers,
//! panic capture, fatal-signal reporting and the counting allocator.

use std::alloc::{GlobalAlloc, Layout, System};
use std::cell::RefCell;
use std::collections::{BTreeMap, HashSet};
use std::fs::File;
use std::io::{BufWriter, Write};
use std::panic::{catch_unwind, AssertUnwindSafe};
use std::sync::atomic::{AtomicI32, AtomicUsize, Ordering};

use serde_json::{json, Value};

use crate::prng::Rng;

// ---------------------------------------------------------------- allocator

pub struct CountingAlloc;
static MAX_REQ: AtomicUsize = AtomicUsize::new(0);
static TOTAL_REQ: AtomicUsize = AtomicUsize::new(0);
/// requests above this are refused (returns null -> alloc error -> abort, which the
/// fatal-signal handler attributes to the current case marker)
const REFUSE_ABOVE: usize = 1 << 36;

unsafe impl GlobalAlloc for CountingAlloc {
    unsafe fn alloc(&self, l: Layout) -> *mut u8 {
        MAX_REQ.fetch_max(l.size(), Ordering::Relaxed);
        TOTAL_REQ.fetch_add(1, Ordering::Relaxed);
        if l.size() > REFUSE_ABOVE {
            return std::ptr::null_mut();
        }
        System.alloc(l)
    }
    unsafe fn dealloc(&self, p: *mut u8, l: Layout) {
        System.dealloc(p, l)
    }
    unsafe fn alloc_zeroed(&self, l: Layout) -> *mut u8 {
        MAX_REQ.fetch_max(l.size(), Ordering::Relaxed);
        TOTAL_REQ.fetch_add(1, Ordering::Relaxed);
        if l.size() > REFUSE_ABOVE {
            return std::ptr::null_mut();
        }
        System.alloc_zeroed(l)
    }
    unsafe fn realloc(&self, p: *mut u8, l: Layout, n: usize) -> *mut u8 {
        MAX_REQ.fetch_max(n, Ordering::Relaxed);
        TOTAL_REQ.fetch_add(1, Ordering::Relaxed);
        if n > REFUSE_ABOVE {
            return std::ptr::null_mut();
        }
        System.realloc(p, l, n)
    }
}

pub fn alloc_reset() {
    MAX_REQ.store(0, Ordering::Relaxed);
}
pub fn alloc_max() -> usize {
    MAX_REQ.load(Ordering::Relaxed)
}

// ------------------------------------------------------------------ markers

const MARKER_CAP: usize = 1024;
static mut MARKER: [u8; MARKER_CAP] = [0; MARKER_CAP];
static MARKER_LEN: AtomicUsize = AtomicUsize::new(0);
static FATAL_FD: AtomicI32 = AtomicI32::new(2);

/// Records what the harness is about to ask dryoc to do; a fatal signal handler
/// prints it so that a crashing shard still names its culprit.
pub fn set_marker(m: &str) {
    let b = m.as_bytes();
    let n = b.len().min(MARKER_CAP);
    unsafe {
        let dst = std::ptr::addr_of_mut!(MARKER) as *mut u8;
        std::ptr::copy_nonoverlapping(b.as_ptr(), dst, n);
    }
    MARKER_LEN.store(n, Ordering::SeqCst);
}

pub fn clear_marker() {
    MARKER_LEN.store(0, Ordering::SeqCst);
}

extern "C" fn fatal_handler(sig: libc::c_int) {
    unsafe {
        let fd = FATAL_FD.load(Ordering::SeqCst);
        let head = b"\n{\"k\":\"fatal\",\"signal\":";
        libc::write(fd, head.as_ptr() as *const _, head.len());
        let mut digits = [0u8; 4];
        let mut n = sig as u32;
        let mut i = 4;
        loop {
            i -= 1;
            digits[i] = b'0' + (n % 10) as u8;
            n /= 10;
            if n == 0 || i == 0 {
                break;
            }
        }
        libc::write(fd, digits[i..].as_ptr() as *const _, 4 - i);
        let mid = b",\"marker\":\"";
        libc::write(fd, mid.as_ptr() as *const _, mid.len());
        let len = MARKER_LEN.load(Ordering::SeqCst);
        let src = std::ptr::addr_of!(MARKER) as *const u8;
        // markers are restricted to [A-Za-z0-9 _=:,.|-] by construction (see `marker_safe`)
        libc::write(fd, src as *const _, len);
        let tail = b"\"}\n";
        libc::write(fd, tail.as_ptr() as *const _, tail.len());
        libc::_exit(100 + sig);
    }
}

pub fn marker_safe(s: &str) -> String {
    s.chars()
        .map(|c| if c.is_ascii_alphanumeric() || " _=:,.|-+/[]()<>".contains(c) { c } else { '?' })
        .collect()
}

pub fn install_fatal_handlers(fd: i32) {
    FATAL_FD.store(fd, Ordering::SeqCst);
    unsafe {
        // alternate stack so that a stack overflow is reported too
        let ss_size = 1 << 16;
        let stack = libc::malloc(ss_size);
        let ss = libc::stack_t { ss_sp: stack, ss_flags: 0, ss_size };
        libc::sigaltstack(&ss, std::ptr::null_mut());
        for sig in [libc::SIGSEGV, libc::SIGBUS, libc::SIGABRT, libc::SIGILL, libc::SIGFPE, libc::SIGALRM] {
            let mut sa: libc::sigaction = std::mem::zeroed();
            sa.sa_sigaction = fatal_handler as *const () as usize;
            sa.sa_flags = libc::SA_ONSTACK;
            libc::sigemptyset(&mut sa.sa_mask);
            libc::sigaction(sig, &sa, std::ptr::null_mut());
        }
    }
}

// ------------------------------------------------------------ panic capture

thread_local! {
    static LAST_PANIC: RefCell<Option<String>> = const { RefCell::new(None) };
}

pub fn install_panic_hook() {
    std::panic::set_hook(Box::new(|info| {
        let msg = if let Some(s) = info.payload().downcast_ref::<&str>() {
            s.to_string()
        } else if let Some(s) = info.payload().downcast_ref::<String>() {
            s.clone()
        } else {
            "<non-string panic>".to_string()
        };
        let loc = info
            .location()
            .map(|l| format!("{}:{}", l.file(), l.line()))
            .unwrap_or_default();
        LAST_PANIC.with(|p| *p.borrow_mut() = Some(format!("{} @ {}", msg, loc)));
    }));
}

#[derive(Debug, Clone)]
pub struct Panicked {
    pub msg: String,
    /// true when the panic location is inside the repository under test (or its deps),
    /// false when it is in the harness itself
    pub in_target: bool,
}

/// Runs `f` (which must contain nothing but the call into dryoc) and converts an
/// unwind into `Err`. The marker names the case for fatal-signal attribution.
pub fn guard<T>(marker: &str, f: impl FnOnce() -> T) -> Result<T, Panicked> {
    set_marker(marker);
    let r = catch_unwind(AssertUnwindSafe(f));
    clear_marker();
    match r {
        Ok(v) => Ok(v),
        Err(_) => {
            let msg = LAST_PANIC.with(|p| p.borrow_mut().take()).unwrap_or_else(|| "<unknown>".into());
            let in_target = !msg.contains("harness/src/") && !msg.contains("/verif/");
            Err(Panicked { msg, in_target })
        }
    }
}

// -------------------------------------------------------------------- tiers

#[derive(Clone, Copy, PartialEq, Eq, Debug)]
pub enum Tier {
    Quick,
    Thorough,
    /// reduced corpus for interpreters (Miri) and valgrind
    Tiny,
}

impl Tier {
    pub fn pick<T>(self, tiny: T, quick: T, thorough: T) -> T {
        match self {
            Tier::Tiny => tiny,
            Tier::Quick => quick,
            Tier::Thorough => thorough,
        }
    }
}

// ---------------------------------------------------------------------- ctx

pub struct Ctx {
    pub monitor: String,
    pub tier: Tier,
    pub seed: u64,
    pub shard: usize,
    pub nshards: usize,
    pub rng: Rng,
    pub opts: BTreeMap<String, String>,
    out: Option<BufWriter<File>>,
    /// no log file: records go to stdout (used under Miri, where file I/O needs isolation off)
    to_stdout: bool,
    pub evals: u64,
    cov: BTreeMap<String, BTreeMap<String, u64>>,
    keys: HashSet<u64>,
    keys_dropped: u64,
    samples: Vec<Value>,
    viols: BTreeMap<String, (u64, Value)>,
    io_left: usize,
    /// outcome of the most recent online comparison (attached to sampled I/O records)
    pub last_ok: bool,
    pub notes: BTreeMap<String, Value>,
}

const KEYS_CAP: usize = 1_500_000;

pub fn fnv(s: &[u8]) -> u64 {
    let mut h: u64 = 0xcbf29ce484222325;
    for b in s {
        h ^= *b as u64;
        h = h.wrapping_mul(0x100000001b3);
    }
    h
}

pub fn hx(b: &[u8]) -> String {
    let mut s = String::with_capacity(b.len() * 2);
    for x in b {
        s.push_str(&format!("{:02x}", x));
    }
    s
}

pub fn unhex(s: &str) -> Vec<u8> {
    (0..s.len() / 2).map(|i| u8::from_str_radix(&s[2 * i..2 * i + 2], 16).unwrap()).collect()
}

impl Ctx {
    pub fn new(
        monitor: &str,
        tier: Tier,
        seed: u64,
        shard: usize,
        nshards: usize,
        log: Option<&str>,
        opts: BTreeMap<String, String>,
    ) -> Self {
        let out = log.map(|p| BufWriter::new(File::create(p).expect("cannot create log")));
        Ctx {
            monitor: monitor.to_string(),
            tier,
            seed,
            shard,
            nshards,
            rng: Rng::new(seed, (shard as u64) << 32 | fnv(monitor.as_bytes()) & 0xffff_ffff),
            opts,
            to_stdout: out.is_none(),
            out,
            evals: 0,
            cov: BTreeMap::new(),
            keys: HashSet::new(),
            keys_dropped: 0,
            samples: Vec::new(),
            viols: BTreeMap::new(),
            io_left: 4000,
            last_ok: true,
            notes: BTreeMap::new(),
        }
    }

    pub fn opt(&self, k: &str) -> Option<&str> {
        self.opts.get(k).map(|s| s.as_str())
    }

    /// deterministic partition of an enumeration over the shards
    pub fn mine(&self, idx: u64) -> bool {
        // hashed so that the partition does not correlate with loop structure
        let mut z = idx.wrapping_add(0x9e3779b97f4a7c15);
        z = (z ^ (z >> 30)).wrapping_mul(0xbf58476d1ce4e5b9);
        z = (z ^ (z >> 27)).wrapping_mul(0x94d049bb133111eb);
        z ^= z >> 31;
        (z % self.nshards as u64) as usize == self.shard
    }

    pub fn raw_fd(&self) -> Option<i32> {
        use std::os::unix::io::AsRawFd;
        self.out.as_ref().map(|o| o.get_ref().as_raw_fd())
    }

    fn write(&mut self, v: &Value) {
        if let Some(o) = self.out.as_mut() {
            let _ = writeln!(o, "{}", v);
        } else if self.to_stdout {
            println!("{}", v);
        }
    }

    pub fn flush(&mut self) {
        if let Some(o) = self.out.as_mut() {
            let _ = o.flush();
        }
    }

    /// one oracle application
    pub fn eval(&mut self) {
        self.evals += 1;
    }
    pub fn evaln(&mut self, n: u64) {
        self.evals += n;
    }

    /// coverage key (dimension, key) with a hit count
    pub fn cover(&mut self, dim: &str, key: &str) {
        *self.cov.entry(dim.to_string()).or_default().entry(key.to_string()).or_insert(0) += 1;
    }

    /// a distinct, non-trivial case (identified by a key string)
    pub fn key(&mut self, k: &str) {
        self.key_h(fnv(k.as_bytes()));
    }
    pub fn key_h(&mut self, h: u64) {
        if self.keys.len() < KEYS_CAP {
            self.keys.insert(h);
        } else {
            self.keys_dropped += 1;
        }
    }

    pub fn sample(&mut self, v: Value) {
        if self.samples.len() < 6 {
            self.samples.push(v);
        }
    }

    /// sampled I/O record for the offline (pure-Python) reference; budgeted per shard
    pub fn io(&mut self, op: &str, v: Value) {
        if self.io_left == 0 {
            return;
        }
        self.io_left -= 1;
        let mut v = v;
        if let Some(o) = v.as_object_mut() {
            o.entry("agrees_with_libsodium").or_insert(json!(self.last_ok));
        }
        let rec = json!({"k":"io","op":op,"d":v});
        self.write(&rec);
    }
    pub fn io_budget(&mut self, n: usize) {
        self.io_left = n;
    }
    pub fn io_wanted(&self) -> bool {
        self.io_left > 0
    }

    pub fn violation(&mut self, sig: &str, case: Value) {
        let e = self.viols.entry(sig.to_string()).or_insert((0, Value::Null));
        e.0 += 1;
        if e.0 == 1 {
            e.1 = case.clone();
            let rec = json!({"k":"viol","sig":sig,"case":case,"shard":self.shard,"seed":self.seed,
                "tier": format!("{:?}", self.tier).to_lowercase(), "monitor": self.monitor});
            self.write(&rec);
            self.flush();
        }
    }

    pub fn note(&mut self, k: &str, v: Value) {
        self.notes.insert(k.to_string(), v);
    }

    pub fn n_violations(&self) -> usize {
        self.viols.len()
    }

    pub fn finish(mut self) -> i32 {
        // keys side file
        if let Some(o) = self.out.as_ref() {
            let _ = o;
        }
        let mut keys: Vec<u64> = self.keys.iter().copied().collect();
        keys.sort_unstable();
        let cov: Value = json!(self.cov);
        let viols: Value = self
            .viols
            .iter()
            .map(|(k, (n, c))| json!({"sig":k,"count":n,"case":c}))
            .collect();
        let sum = json!({"k":"sum","monitor":self.monitor,"shard":self.shard,"nshards":self.nshards,
            "seed":self.seed,"tier":format!("{:?}",self.tier).to_lowercase(),
            "evals":self.evals,"nkeys":keys.len(),"keys_dropped":self.keys_dropped,
            "cov":cov,"samples":self.samples,"viols":viols,"notes":self.notes});
        // keys are written as a hex blob record before the summary
        let mut blob = String::with_capacity(keys.len() * 16);
        for k in &keys {
            blob.push_str(&format!("{:016x}", k));
        }
        let krec = json!({"k":"keys","hex":blob});
        self.write(&krec);
        self.write(&sum);
        self.flush();
        if self.viols.is_empty() {
            0
        } else {
            1
        }
    }
}
