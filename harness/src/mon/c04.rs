//! C04 — opening, verifying and parsing functions are total on untrusted bytes:
//! every call returns Ok or Err; no panic, abort, arithmetic overflow or absurd allocation.
//! Authentic inputs are produced with dryoc itself so that the same workload runs under Miri.

use dryoc::auth::Auth;
use dryoc::classic::crypto_auth::*;
use dryoc::classic::crypto_box::*;
use dryoc::classic::crypto_onetimeauth::*;
use dryoc::classic::crypto_pwhash::*;
use dryoc::classic::crypto_secretbox::*;
use dryoc::classic::crypto_secretstream_xchacha20poly1305 as ss;
use dryoc::classic::crypto_sign::*;
use dryoc::dryocbox::DryocBox;
use dryoc::dryocsecretbox::DryocSecretBox;
use dryoc::dryocstream::{DryocStream, Pull};
use dryoc::keypair::KeyPair;
use dryoc::onetimeauth::OnetimeAuth;
use dryoc::pwhash::PwHash;
use dryoc::sign::{IncrementalSigner, SignedMessage};
use dryoc::types::*;
use serde_json::json;

use super::*;
use crate::ctx::{alloc_max, alloc_reset, guard, hx, Ctx, Tier};
use crate::prng::Rng;

pub struct K {
    key: [u8; 32],
    nonce: [u8; 24],
    apk: [u8; 32],
    ask: [u8; 32],
    bpk: [u8; 32],
    bsk: [u8; 32],
    precalc: [u8; 32],
    spk: [u8; 32],
    ssk: [u8; 64],
    skey: [u8; 32],
    sheader: [u8; 24],
    sstate: ss::State,
}

type Call = fn(&[u8], &K);
type Valid = fn(&[u8], &K) -> Vec<u8>;

struct Ep {
    name: &'static str,
    overhead: usize,
    call: Call,
    /// authentic input carrying the given message
    valid: Valid,
}

// ---------------------------------------------------------------- authentic input builders

fn v_secretbox(m: &[u8], k: &K) -> Vec<u8> {
    let mut c = vec![0u8; m.len() + 16];
    crypto_secretbox_easy(&mut c, m, &k.nonce, &k.key).unwrap();
    c
}
fn v_box(m: &[u8], k: &K) -> Vec<u8> {
    let mut c = vec![0u8; m.len() + 16];
    crypto_box_easy(&mut c, m, &k.nonce, &k.bpk, &k.ask).unwrap();
    c
}
fn v_box_body(m: &[u8], k: &K) -> Vec<u8> {
    v_box(m, k)[16..].to_vec()
}
fn v_secretbox_body(m: &[u8], k: &K) -> Vec<u8> {
    v_secretbox(m, k)[16..].to_vec()
}
fn v_seal(m: &[u8], k: &K) -> Vec<u8> {
    let mut c = vec![0u8; m.len() + 48];
    crypto_box_seal(&mut c, m, &k.bpk).unwrap();
    c
}
fn v_stream(m: &[u8], k: &K) -> Vec<u8> {
    let mut st = k.sstate.clone();
    let mut c = vec![0u8; m.len() + 17];
    ss::crypto_secretstream_xchacha20poly1305_push(&mut st, &mut c, m, None, 0).unwrap();
    c
}
fn v_signed(m: &[u8], k: &K) -> Vec<u8> {
    let mut sm = vec![0u8; m.len() + 64];
    crypto_sign(&mut sm, m, &k.ssk).unwrap();
    sm
}
fn v_plain(m: &[u8], _k: &K) -> Vec<u8> {
    m.to_vec()
}

// ----------------------------------------------------------------------------- entry points

fn e_sb_open_easy(b: &[u8], k: &K) {
    let mut m = vec![0u8; b.len().saturating_sub(16)];
    let _ = crypto_secretbox_open_easy(&mut m, b, &k.nonce, &k.key);
}
fn e_sb_open_easy_inplace(b: &[u8], k: &K) {
    let mut d = b.to_vec();
    let _ = crypto_secretbox_open_easy_inplace(&mut d, &k.nonce, &k.key);
}
fn e_sb_open_detached(b: &[u8], k: &K) {
    let mut m = vec![0u8; b.len()];
    let mac = [0x11u8; 16];
    let _ = crypto_secretbox_open_detached(&mut m, &mac, b, &k.nonce, &k.key);
}
fn e_sb_obj(b: &[u8], k: &K) {
    if let Ok(bx) = DryocSecretBox::<StackByteArray<16>, Vec<u8>>::from_bytes(b) {
        let _ = bx.decrypt_to_vec(&k.nonce, &k.key);
        let _ = bx.to_vec();
    }
    if let Ok(bx) = DryocSecretBox::<Vec<u8>, Vec<u8>>::from_bytes(b) {
        let _ = bx.decrypt::<Vec<u8>, _, _>(&k.nonce, &k.key);
    }
}
fn e_bx_open_easy(b: &[u8], k: &K) {
    let mut m = vec![0u8; b.len().saturating_sub(16)];
    let _ = crypto_box_open_easy(&mut m, b, &k.nonce, &k.apk, &k.bsk);
}
fn e_bx_open_easy_inplace(b: &[u8], k: &K) {
    let mut d = b.to_vec();
    let _ = crypto_box_open_easy_inplace(&mut d, &k.nonce, &k.apk, &k.bsk);
}
fn e_bx_open_detached(b: &[u8], k: &K) {
    let mut m = vec![0u8; b.len()];
    let mac = [0x22u8; 16];
    let _ = crypto_box_open_detached(&mut m, &mac, b, &k.nonce, &k.apk, &k.bsk);
    let mut d = b.to_vec();
    let _ = crypto_box_open_detached_inplace(&mut d, &mac, &k.nonce, &k.apk, &k.bsk);
}
fn e_bx_open_afternm(b: &[u8], k: &K) {
    let mut m = vec![0u8; b.len()];
    let mac = [0x33u8; 16];
    let _ = crypto_box_open_detached_afternm(&mut m, &mac, b, &k.nonce, &k.precalc);
    let mut d = b.to_vec();
    let _ = crypto_box_open_detached_afternm_inplace(&mut d, &mac, &k.nonce, &k.precalc);
}
fn e_seal_open(b: &[u8], k: &K) {
    let mut m = vec![0u8; b.len().saturating_sub(48)];
    let _ = crypto_box_seal_open(&mut m, b, &k.bpk, &k.bsk);
}
fn e_bx_obj(b: &[u8], k: &K) {
    if let Ok(bx) = dryoc::dryocbox::VecBox::from_bytes(b) {
        let _ = bx.decrypt_to_vec(&StackByteArray::from(k.nonce), &StackByteArray::from(k.apk), &StackByteArray::from(k.bsk));
        let _ = bx.precalc_decrypt_to_vec(&StackByteArray::from(k.nonce), &StackByteArray::from(k.precalc));
        let kp: KeyPair<StackByteArray<32>, StackByteArray<32>> = KeyPair::from_slices(&k.bpk, &k.bsk).unwrap();
        let _ = bx.unseal_to_vec(&kp);
        let _ = bx.to_vec();
    }
    if let Ok(bx) = DryocBox::<[u8; 32], Vec<u8>, Vec<u8>>::from_bytes(b) {
        let _ = bx.decrypt::<_, _, _, Vec<u8>>(&k.nonce, &k.apk, &k.bsk);
    }
}
fn e_seal_obj(b: &[u8], k: &K) {
    if let Ok(bx) = dryoc::dryocbox::VecBox::from_sealed_bytes(b) {
        let kp: KeyPair<StackByteArray<32>, StackByteArray<32>> = KeyPair::from_slices(&k.bpk, &k.bsk).unwrap();
        let _ = bx.unseal_to_vec(&kp);
        let _ = bx.to_vec();
    }
}
fn e_stream_pull(b: &[u8], k: &K) {
    let mut st = k.sstate.clone();
    let mut m = vec![0u8; b.len().saturating_sub(17)];
    let mut tag = 0u8;
    let _ = ss::crypto_secretstream_xchacha20poly1305_pull(&mut st, &mut m, &mut tag, b, None);
    let mut st = k.sstate.clone();
    let _ = ss::crypto_secretstream_xchacha20poly1305_pull(&mut st, &mut m, &mut tag, b, Some(b"ad"));
}
fn e_stream_obj(b: &[u8], k: &K) {
    let mut st: DryocStream<Pull> = DryocStream::init_pull(&k.skey, &k.sheader);
    let v = b.to_vec();
    let _ = st.pull_to_vec(&v, None);
    let _ = st.pull::<Vec<u8>, Vec<u8>>(&v, Some(&b"ad".to_vec()));
}
fn e_sign_open(b: &[u8], k: &K) {
    let mut m = vec![0u8; b.len().saturating_sub(64)];
    let _ = crypto_sign_open(&mut m, b, &k.spk);
}
fn e_sign_verify_detached(b: &[u8], k: &K) {
    // b is used as message with a signature cut from it (or a fixed one), and as signature material
    let mut sig = [0x44u8; 64];
    let n = b.len().min(64);
    sig[..n].copy_from_slice(&b[..n]);
    let _ = crypto_sign_verify_detached(&sig, b, &k.spk);
    let mut st = crypto_sign_init();
    crypto_sign_update(&mut st, b);
    let _ = crypto_sign_final_verify(st, &sig, &k.spk);
    // attacker-chosen public key bytes as well
    let mut pk = [0u8; 32];
    let n = b.len().min(32);
    pk[..n].copy_from_slice(&b[b.len() - n..]);
    let _ = crypto_sign_verify_detached(&sig, b, &pk);
}
fn e_sign_obj(b: &[u8], k: &K) {
    if let Ok(sm) = SignedMessage::<StackByteArray<64>, Vec<u8>>::from_bytes(b) {
        let _ = sm.verify(&k.spk);
        let _ = sm.to_vec();
    }
    let mut s = IncrementalSigner::new();
    s.update(&b.to_vec());
    let mut sig = [0u8; 64];
    let n = b.len().min(64);
    sig[..n].copy_from_slice(&b[..n]);
    let _ = s.verify(&sig, &k.spk);
}
fn e_mac_verify(b: &[u8], k: &K) {
    let mut mac = [0u8; 32];
    let n = b.len().min(32);
    mac[..n].copy_from_slice(&b[..n]);
    let _ = crypto_auth_verify(&mac, b, &k.key);
    let _ = Auth::compute_and_verify(&mac, k.key, &b.to_vec());
    let mut a = Auth::new(k.key);
    a.update(&b.to_vec());
    let _ = a.verify(&mac);
    let mac16: [u8; 16] = mac[..16].try_into().unwrap();
    let _ = crypto_onetimeauth_verify(&mac16, b, &k.key);
    let _ = OnetimeAuth::compute_and_verify(&mac16, k.key, &b.to_vec());
    let mut o = OnetimeAuth::new(k.key);
    o.update(&b.to_vec());
    let _ = o.verify(&mac16);
}

/// incremental verification fed in pieces: the partition is taken from the input itself (piece lengths 0..=79 from
/// successive bytes, so that it is reproducible and a fuzzer controls it), with a trailing empty update
fn e_incremental_verify(b: &[u8], k: &K) {
    let mut cuts: Vec<usize> = Vec::new();
    let mut pos = 0usize;
    let mut i = 0usize;
    while pos < b.len() {
        let step = (b[i % b.len()] as usize % 80).min(b.len() - pos);
        cuts.push(step);
        pos += step;
        i += 1;
        if i > 4 * b.len() + 8 {
            cuts.push(b.len() - pos);
            pos = b.len();
        }
    }
    cuts.push(0);
    let mut mac = [0u8; 32];
    let n = b.len().min(32);
    mac[..n].copy_from_slice(&b[..n]);
    let mac16: [u8; 16] = mac[..16].try_into().unwrap();
    let mut sig = [0x44u8; 64];
    let n = b.len().min(64);
    sig[..n].copy_from_slice(&b[..n]);

    let mut o = OnetimeAuth::new(k.key);
    let mut a = Auth::new(k.key);
    let mut s = IncrementalSigner::new();
    let mut co = crypto_onetimeauth_init(&k.key);
    let mut ca = crypto_auth_init(&k.key);
    let mut cs = crypto_sign_init();
    let mut off = 0usize;
    for c in &cuts {
        let piece = &b[off..off + c];
        off += c;
        o.update(&piece.to_vec());
        a.update(&piece.to_vec());
        s.update(&piece.to_vec());
        crypto_onetimeauth_update(&mut co, piece);
        crypto_auth_update(&mut ca, piece);
        crypto_sign_update(&mut cs, piece);
    }
    let _ = o.verify(&mac16);
    let _ = a.verify(&mac);
    let _ = s.verify(&sig, &k.spk);
    let mut out16 = [0u8; 16];
    crypto_onetimeauth_final(co, &mut out16);
    let mut out32 = [0u8; 32];
    crypto_auth_final(ca, &mut out32);
    let _ = crypto_sign_final_verify(cs, &sig, &k.spk);
}

#[cfg(feature = "nightly")]
mod ni {
    use super::*;
    use dryoc::protected::*;
    pub fn e_sb_obj_heap(b: &[u8], k: &K) {
        if let Ok(bx) = DryocSecretBox::<HeapByteArray<16>, HeapBytes>::from_bytes(b) {
            let _ = bx.decrypt::<HeapBytes, _, _>(&k.nonce, &k.key);
            let _ = bx.to_bytes::<HeapBytes>();
        }
        if let Ok(bx) = DryocSecretBox::<StackByteArray<16>, HeapBytes>::from_bytes(b) {
            let _ = bx.decrypt::<LockedBytes, _, _>(&k.nonce, &k.key);
        }
    }
    pub fn e_bx_obj_heap(b: &[u8], k: &K) {
        if let Ok(bx) = DryocBox::<HeapByteArray<32>, HeapByteArray<16>, HeapBytes>::from_bytes(b) {
            let _ = bx.decrypt::<_, _, _, HeapBytes>(&k.nonce, &k.apk, &k.bsk);
            let _ = bx.precalc_decrypt::<_, _, LockedBytes>(&k.nonce, &StackByteArray::from(k.precalc));
        }
        if let Ok(bx) = DryocBox::<HeapByteArray<32>, HeapByteArray<16>, HeapBytes>::from_sealed_bytes(b) {
            let kp: KeyPair<StackByteArray<32>, StackByteArray<32>> = KeyPair::from_slices(&k.bpk, &k.bsk).unwrap();
            let _ = bx.unseal::<_, _, HeapBytes>(&kp);
        }
    }
    pub fn e_sign_obj_heap(b: &[u8], k: &K) {
        if let Ok(sm) = SignedMessage::<HeapByteArray<64>, HeapBytes>::from_bytes(b) {
            let _ = sm.verify(&k.spk);
            let _ = sm.to_bytes::<HeapBytes>();
        }
    }
    pub fn e_stream_obj_heap(b: &[u8], k: &K) {
        let mut st: DryocStream<Pull> = DryocStream::init_pull(&k.skey, &k.sheader);
        let mut h = HeapBytes::default();
        h.resize(b.len(), 0);
        h.as_mut_slice().copy_from_slice(b);
        let _ = st.pull::<HeapBytes, HeapBytes>(&h, None);
        let _ = st.pull::<HeapBytes, LockedBytes>(&h, None);
    }
}

fn eps() -> Vec<Ep> {
    #[allow(unused_mut)]
    let mut v = eps_stable();
    #[cfg(feature = "nightly")]
    {
        v.push(Ep { name: "DryocSecretBox<Heap..>::from_bytes+decrypt(heap/locked)", overhead: 16, call: ni::e_sb_obj_heap, valid: v_secretbox });
        v.push(Ep { name: "DryocBox<Heap..>::from_bytes/from_sealed_bytes+decrypt(heap/locked)", overhead: 16, call: ni::e_bx_obj_heap, valid: v_box });
        v.push(Ep { name: "SignedMessage<Heap..>::from_bytes+verify", overhead: 64, call: ni::e_sign_obj_heap, valid: v_signed });
        v.push(Ep { name: "DryocStream::pull<HeapBytes,HeapBytes/LockedBytes>", overhead: 17, call: ni::e_stream_obj_heap, valid: v_stream });
    }
    v
}

fn eps_stable() -> Vec<Ep> {
    vec![
        Ep { name: "crypto_secretbox_open_easy", overhead: 16, call: e_sb_open_easy, valid: v_secretbox },
        Ep { name: "crypto_secretbox_open_easy_inplace", overhead: 16, call: e_sb_open_easy_inplace, valid: v_secretbox },
        Ep { name: "crypto_secretbox_open_detached", overhead: 16, call: e_sb_open_detached, valid: v_secretbox_body },
        Ep { name: "DryocSecretBox::from_bytes+decrypt", overhead: 16, call: e_sb_obj, valid: v_secretbox },
        Ep { name: "crypto_box_open_easy", overhead: 16, call: e_bx_open_easy, valid: v_box },
        Ep { name: "crypto_box_open_easy_inplace", overhead: 16, call: e_bx_open_easy_inplace, valid: v_box },
        Ep { name: "crypto_box_open_detached(+inplace)", overhead: 16, call: e_bx_open_detached, valid: v_box_body },
        Ep { name: "crypto_box_open_detached_afternm(+inplace)", overhead: 16, call: e_bx_open_afternm, valid: v_box_body },
        Ep { name: "crypto_box_seal_open", overhead: 48, call: e_seal_open, valid: v_seal },
        Ep { name: "DryocBox::from_bytes+decrypt/precalc_decrypt/unseal", overhead: 16, call: e_bx_obj, valid: v_box },
        Ep { name: "DryocBox::from_sealed_bytes+unseal", overhead: 48, call: e_seal_obj, valid: v_seal },
        Ep { name: "crypto_secretstream_xchacha20poly1305_pull", overhead: 17, call: e_stream_pull, valid: v_stream },
        Ep { name: "DryocStream::pull/pull_to_vec", overhead: 17, call: e_stream_obj, valid: v_stream },
        Ep { name: "crypto_sign_open", overhead: 64, call: e_sign_open, valid: v_signed },
        Ep { name: "crypto_sign_verify_detached/final_verify", overhead: 64, call: e_sign_verify_detached, valid: v_signed },
        Ep { name: "SignedMessage::from_bytes+verify/IncrementalSigner::verify", overhead: 64, call: e_sign_obj, valid: v_signed },
        Ep { name: "crypto_auth_verify/crypto_onetimeauth_verify/Auth/OnetimeAuth", overhead: 32, call: e_mac_verify, valid: v_plain },
        Ep { name: "incremental MAC / signature verification fed in pieces", overhead: 32, call: e_incremental_verify, valid: v_plain },
    ]
}

/// one monitored call: panic / fatal signal / absurd allocation are the refutation events
fn total(cx: &mut Ctx, name: &str, input: &[u8], class: &str, k: &K, f: Call, alloc_bound: usize) {
    cx.eval();
    alloc_reset();
    let marker = format!("{} len={} class={}", name, input.len(), class);
    let r = guard(&marker, || f(input, k));
    let peak = alloc_max();
    let case = || json!({"entry":name,"len":input.len(),"class":class,"input":hx(&input[..input.len().min(120)])});
    if let Err(p) = r {
        let kind = if p.msg.contains("overflow") && (p.msg.contains("subtract") || p.msg.contains("add") || p.msg.contains("multiply")) { "arithmetic_overflow" } else if p.msg.contains("capacity overflow") { "capacity_overflow" } else { "panic" };
        let mut c = case();
        c.as_object_mut().unwrap().insert("panic".into(), json!(p.msg));
        if p.in_target {
            cx.violation(&format!("C04|{}|{}", name, kind), c);
        } else {
            cx.violation(&format!("HARNESS|C04|{}|panic", name), c);
        }
    }
    if peak > alloc_bound {
        let mut c = case();
        c.as_object_mut().unwrap().insert("largest_single_allocation".into(), json!(peak));
        cx.violation(&format!("C04|{}|absurd_allocation", name), c);
    }
}

fn mk_keys(rng: &mut Rng) -> K {
    let (apk, ask) = crypto_box_seed_keypair(&rng.bytes(32));
    let (bpk, bsk) = crypto_box_seed_keypair(&rng.bytes(32));
    let (spk, ssk) = crypto_sign_seed_keypair(&rng.arr());
    let precalc = crypto_box_beforenm(&apk, &bsk);
    let skey: [u8; 32] = rng.arr();
    let mut sstate = ss::State::new();
    let mut sheader = [0u8; 24];
    ss::crypto_secretstream_xchacha20poly1305_init_push(&mut sstate, &mut sheader, &skey);
    let mut pull = ss::State::new();
    ss::crypto_secretstream_xchacha20poly1305_init_pull(&mut pull, &sheader, &skey);
    K { key: rng.arr(), nonce: rng.arr(), apk, ask, bpk, bsk, precalc, spk, ssk, skey, sheader, sstate: pull }
}

// ------------------------------------------------------------------------- password strings

fn numbers_bounded(s: &str) -> bool {
    // every digit run after "m=" / "t=" / "p=" / "v=" must be small, otherwise hashing is not attempted
    let b = s.as_bytes();
    let mut i = 0;
    let mut saw_m = false;
    while i + 1 < b.len() {
        if (b[i] == b'm' || b[i] == b't') && b[i + 1] == b'=' {
            let is_m = b[i] == b'm';
            let mut j = i + 2;
            let mut v: u64 = 0;
            let mut nd = 0;
            while j < b.len() && b[j].is_ascii_digit() {
                v = v.saturating_mul(10).saturating_add((b[j] - b'0') as u64);
                nd += 1;
                j += 1;
            }
            if nd > 0 {
                if is_m {
                    saw_m = true;
                    if v > 1024 {
                        return false;
                    }
                } else if v > 3 {
                    return false;
                }
            }
            i = j;
        } else {
            i += 1;
        }
    }
    let _ = saw_m;
    true
}

/// are the cost parameters the string *will be parsed to* small enough to hash? Decided with the crate's own parser
/// (a string it refuses is never hashed) and the canonical re-encoding of what it accepted, so that lenient number
/// syntax the scanner above does not know ("m=+00477317851" is accepted by u32::from_str) cannot slip through as "bounded".
fn costs_bounded(s: &str) -> bool {
    if !numbers_bounded(s) {
        return false;
    }
    match guard("costs_bounded", || PwHash::<Vec<u8>, Vec<u8>>::from_string(s).map(|p| p.to_string())) {
        Ok(Ok(canon)) => numbers_bounded(&canon),
        Ok(Err(_)) => true,
        Err(_) => false,
    }
}

fn pw_case(cx: &mut Ctx, s: &str, family: &str, hash_ok: bool) {
    let bounded = costs_bounded(s);
    let bound = 4 << 20;
    let case = || json!({"string":s.chars().take(200).collect::<String>(),"family":family,"bounded_costs":bounded});
    let mut one = |cx: &mut Ctx, name: &str, f: &dyn Fn()| {
        cx.eval();
        alloc_reset();
        let marker = format!("{} family={}", name, family);
        let r = guard(&marker, f);
        let peak = alloc_max();
        if let Err(p) = r {
            let mut c = case();
            c.as_object_mut().unwrap().insert("panic".into(), json!(p.msg));
            cx.violation(&format!("C04|{}|panic", name), c);
        }
        if peak > bound {
            let mut c = case();
            c.as_object_mut().unwrap().insert("largest_single_allocation".into(), json!(peak));
            cx.violation(&format!("C04|{}|absurd_allocation", name), c);
        }
    };
    one(cx, "crypto_pwhash_str_needs_rehash", &|| {
        let _ = crypto_pwhash_str_needs_rehash(s, 2, 65536);
    });
    one(cx, "PwHash::from_string+to_string", &|| {
        if let Ok(p) = PwHash::<Vec<u8>, Vec<u8>>::from_string(s) {
            let _ = p.to_string();
        }
        let _ = PwHash::from_string_with_defaults(s);
    });
    if bounded && hash_ok {
        one(cx, "crypto_pwhash_str_verify", &|| {
            let _ = crypto_pwhash_str_verify(s, b"password");
        });
        one(cx, "PwHash::from_string+verify", &|| {
            if let Ok(p) = PwHash::<Vec<u8>, Vec<u8>>::from_string(s) {
                let _ = p.verify(&b"password".to_vec());
            }
        });
        cx.cover("pwhash_verify_reached", family);
    }
    cx.cover("pwhash_family", family);
}

/// canonical unpadded base64 (the monitor of C10 has its own; that module needs the libsodium feature)
fn b64enc_nopad(d: &[u8]) -> String {
    const A: &[u8] = b"ABCDEFGHIJKLMNOPQRSTUVWXYZabcdefghijklmnopqrstuvwxyz0123456789+/";
    let mut out = String::new();
    for ch in d.chunks(3) {
        let n = (ch[0] as u32) << 16 | (*ch.get(1).unwrap_or(&0) as u32) << 8 | *ch.get(2).unwrap_or(&0) as u32;
        out.push(A[(n >> 18) as usize & 63] as char);
        out.push(A[(n >> 12) as usize & 63] as char);
        if ch.len() > 1 {
            out.push(A[(n >> 6) as usize & 63] as char);
        }
        if ch.len() > 2 {
            out.push(A[n as usize & 63] as char);
        }
    }
    out
}

fn b64(rng: &mut Rng, n: usize) -> String {
    const A: &[u8] = b"ABCDEFGHIJKLMNOPQRSTUVWXYZabcdefghijklmnopqrstuvwxyz0123456789+/";
    (0..n).map(|_| A[rng.below(64)] as char).collect()
}

/// well-formed strings in which exactly one numeric field takes a boundary value (powers of two and neighbours up to
/// 2^64, decimal edge forms); nothing is hashed, so the cost fields may be as large as the format allows
fn pw_number_edges(cx: &mut Ctx, idx: &mut u64) {
    let mut nums: Vec<String> = ["0", "1", "7", "8", "9", "19", "20", "255", "256", "1023", "1024", "65535", "65536", "99999999999999999999", "18446744073709551615", "18446744073709551616", "4294967295", "4294967296", "4194303", "4194304", "4194305", "2097152", "00000000000000000000000000000000000008"].iter().map(|x| x.to_string()).collect();
    for kbit in 2..=64u32 {
        let v: u128 = 1u128 << kbit;
        for d in [-1i128, 0, 1] {
            nums.push(format!("{}", (v as i128 + d) as u128));
        }
    }
    let kmax = if cx.tier == Tier::Tiny { 24 } else { nums.len() };
    for (fi, field) in ["v", "m", "t", "p"].iter().enumerate() {
        for (ni_, num) in nums.iter().take(kmax).enumerate() {
            for alg in ["argon2id", "argon2i"] {
                *idx += 1;
                if !cx.mine(*idx) {
                    continue;
                }
                let mut rng = cx.rng.fork(*idx);
                let (mut v, mut m, mut t, mut p) = ("19".to_string(), "64".to_string(), "2".to_string(), "1".to_string());
                match fi {
                    0 => v = num.clone(),
                    1 => m = num.clone(),
                    2 => t = num.clone(),
                    _ => p = num.clone(),
                }
                // canonical base64 of 16 / 32 random bytes, so that the number is the only unusual part
                let s = format!("${}$v={}$m={},t={},p={}${}${}", alg, v, m, t, p, b64enc_nopad(&rng.bytes(16)), b64enc_nopad(&rng.bytes(32)));
                cx.key(&format!("pw_number_edges {} {} {}", field, ni_, alg));
                // hashing is attempted whenever the costs the string parses to are small (an edge value in the version or
                // lane field leaves m = 64, t = 2: the verifier must refuse or hash cheaply, not compute with the edge value)
                pw_case(cx, &s, "number_edges", cx.tier != Tier::Tiny);
                cx.cover("pw_number_edge_field", field);
            }
        }
    }
}

/// well-formed strings in which one field is replaced by a long run of multi-byte characters, shifted by 0..3 ASCII bytes:
/// code that cuts, indexes or echoes the untrusted text at a byte position (error messages, length caps) meets a position
/// inside a character for most shifts
fn pw_long_multibyte_fields(cx: &mut Ctx, idx: &mut u64) {
    let fields = ["alg", "v", "m", "t", "p", "salt", "hash", "whole"];
    let chars = ['\u{e9}', '\u{20ac}', '\u{1f600}'];
    let lens: &[usize] = if cx.tier == Tier::Tiny { &[70] } else { &[20, 70, 130, 300, 1100, 70_000] };
    for (fi, field) in fields.iter().enumerate() {
        for (ci, ch) in chars.iter().enumerate() {
            for shift in 0..4usize {
                for &n in lens {
                    *idx += 1;
                    if !cx.mine(*idx) {
                        continue;
                    }
                    let run: String = "x".repeat(shift) + &ch.to_string().repeat(n);
                    let (mut alg, mut v, mut m, mut t, mut p, mut salt, mut hash) = ("argon2id".to_string(), "19".to_string(), "64".to_string(), "2".to_string(), "1".to_string(), "c29tZXNhbHRzb21lc2FsdA".to_string(), "AAAAAAAAAAAAAAAAAAAAAAAAAAAAAAAAAAAAAAAAAAA".to_string());
                    match fi {
                        0 => alg = format!("argon2{}", run),
                        1 => v = run.clone(),
                        2 => m = run.clone(),
                        3 => t = run.clone(),
                        4 => p = run.clone(),
                        5 => salt = run.clone(),
                        6 => hash = run.clone(),
                        _ => {}
                    }
                    let s = if fi == 7 { run.clone() } else { format!("${}$v={}$m={},t={},p={}${}${}", alg, v, m, t, p, salt, hash) };
                    cx.key(&format!("pw_long_multibyte {} {} {} {}", field, ci, shift, n));
                    pw_case(cx, &s, "long_multibyte_field", false);
                    cx.cover("pw_long_multibyte_field", field);
                }
            }
        }
    }
}

fn pw_strings(cx: &mut Ctx, idx: &mut u64) {
    pw_number_edges(cx, idx);
    pw_long_multibyte_fields(cx, idx);
    let n = cx.tier.pick(40usize, 6000, 200_000);
    let hash_ok = cx.tier != Tier::Tiny;
    let algs = ["argon2i", "argon2id", "argon2d", "argon2x", "argon2", "", "ARGON2ID", "argon2idd"];
    let nums = ["0", "1", "2", "3", "8", "16", "19", "64", "1024", "1025", "65536", "4294967295", "4294967296", "18446744073709551616", "-1", "+3", "0x10", "1e3", "", " 2", "٣", "3.0", "00000000000000000002"];
    for i in 0..n {
        *idx += 1;
        if !cx.mine(*idx) {
            continue;
        }
        let mut rng = cx.rng.fork(*idx);
        cx.key_h(*idx);
        let fam = i % 7;
        match fam {
            0 => {
                // grammar with per-field choices
                let alg = *rng.pick(&algs);
                let v = if rng.chance(3, 4) { "19" } else { *rng.pick(&nums) };
                let m = if rng.chance(1, 2) { *rng.pick(&["8", "16", "64", "1024"]) } else { *rng.pick(&nums) };
                let t = if rng.chance(1, 2) { *rng.pick(&["1", "2", "3"]) } else { *rng.pick(&nums) };
                let p = if rng.chance(3, 4) { "1" } else { *rng.pick(&nums) };
                let sl = if rng.chance(1, 2) { rng.range(0, 30) } else { *rng.pick(&[0usize, 1, 2, 3, 10, 11, 22, 43, 86]) };
                let hl = if rng.chance(1, 2) { rng.range(0, 30) } else { *rng.pick(&[0usize, 1, 2, 21, 22, 43, 44, 86, 171]) };
                let s = format!("${}$v={}$m={},t={},p={}${}${}", alg, v, m, t, p, b64(&mut rng, sl), b64(&mut rng, hl));
                pw_case(cx, &s, "grammar", hash_ok);
            }
            1 => {
                // structural mutations of a well-formed string
                let base = format!("$argon2id$v=19$m={},t={},p=1${}${}", rng.pick(&["8", "64", "1024"]), rng.pick(&["1", "2", "3"]), b64(&mut rng, 22), b64(&mut rng, 43));
                let mut parts: Vec<String> = base.split('$').map(|x| x.to_string()).collect();
                match rng.below(8) {
                    0 => {
                        let j = rng.below(parts.len());
                        parts.remove(j);
                    }
                    1 => {
                        let j = rng.below(parts.len());
                        let d = parts[j].clone();
                        parts.insert(j, d);
                    }
                    2 => {
                        let a = rng.below(parts.len());
                        let b = rng.below(parts.len());
                        parts.swap(a, b);
                    }
                    3 => {
                        let j = rng.below(parts.len());
                        parts[j].clear();
                    }
                    4 => parts.push(String::new()),
                    5 => {
                        let j = rng.below(parts.len());
                        parts[j] = parts[j].replace(',', "$");
                    }
                    6 => {
                        let j = rng.below(parts.len());
                        parts[j].push_str("=");
                    }
                    _ => {
                        let j = rng.below(parts.len());
                        parts[j] = format!("{}{}", parts[j], "é漢\u{0}");
                    }
                }
                pw_case(cx, &parts.join("$"), "structural_mutation", hash_ok);
            }
            2 => {
                // parameter list games
                let plist = *rng.pick(&["m=8,t=1,p=1", "t=1,m=8,p=1", "p=1,t=1,m=8", "m=8,t=1", "m=8,,t=1,p=1", "m=8,t=1,p=1,x=2", "m=,t=,p=", "m=8,t=1,p=1,m=9", "m=8 ,t=1,p=1", "m=8,t=1,p=2", "m=8,t=1,p=0", "m=7,t=1,p=1", "m=0,t=0,p=1", "m=8,t=0,p=1", "m==8,t=1,p=1"]);
                let s = format!("$argon2id$v=19${}${}${}", plist, b64(&mut rng, 22), b64(&mut rng, 43));
                pw_case(cx, &s, "parameter_list", hash_ok);
            }
            3 => {
                // bad base64 / padding / short salts
                let salt = *rng.pick(&["", "A", "AA", "AAA", "AAAA", "AAAAAAAAAAA", "AAAAAAAAAAAAAAAAAAAAAA==", "AAAAAAAAAAAAAAAAAAAAA*", "AAAAAAAAAAAAAAAAAAAAAA", "////", "+++++++++++", "AAAAAAAAAAA=", "AAAA AAAA AAA"]);
                let hl = *rng.pick(&[0usize, 21, 22, 43]);
                let s = format!("$argon2i$v=19$m=8,t=1,p=1${}${}", salt, b64(&mut rng, hl));
                pw_case(cx, &s, "base64", hash_ok);
            }
            4 => {
                // random printable / arbitrary unicode of length 0..=300
                let len = rng.range(0, 300);
                let bytes = rng.bytes(len);
                let s = String::from_utf8_lossy(&bytes).into_owned();
                pw_case(cx, &s, "random_bytes(lossy utf8)", hash_ok);
            }
            5 => {
                // many separators / long runs
                let k = rng.range(0, 300);
                let c = *rng.pick(&["$", ",", "=", "$$", "$v=", "$m=1,t=1,p=1", "$argon2id"]);
                pw_case(cx, &c.repeat(k), "separator_runs", hash_ok);
            }
            _ => {
                // valid strings produced by dryoc itself at minimum cost, then verified / one byte mutated
                if hash_ok {
                    let ph: PwHash<Vec<u8>, Vec<u8>> = PwHash::hash_with_salt(&b"password".to_vec(), rng.bytes(16), dryoc::pwhash::Config::interactive().with_memlimit(8192).with_opslimit(1)).unwrap();
                    let mut s = ph.to_string();
                    pw_case(cx, &s.clone(), "valid", hash_ok);
                    let pos = rng.below(s.len());
                    let ch = *rng.pick(&['$', ',', '=', 'A', '9', 'm', '\u{e9}']);
                    if s.is_char_boundary(pos) && s.is_char_boundary(pos + 1) {
                        s.replace_range(pos..pos + 1, &ch.to_string());
                    }
                    pw_case(cx, &s, "valid_one_char_mutated", hash_ok);
                }
            }
        }
    }
    // exhaustive single-character edits (insert / delete / replace at every position) of well-formed strings
    let edit_chars: [char; 14] = ['$', ',', '=', 'm', 't', 'p', 'v', 'x', ' ', '0', '9', 'A', '-', '\u{e9}'];
    let bases = [
        format!("$argon2id$v=19$m=8,t=1,p=1${}${}", "c29tZXNhbHRzb21lc2FsdA", "AAAAAAAAAAAAAAAAAAAAAAAAAAAAAAAAAAAAAAAAAAA"),
        format!("$argon2i$v=19$m=16,t=2,p=1${}${}", "c29tZXNhbHQ", "AAAAAAAAAAAAAAAAAAAAAA"),
    ];
    for (bi, base) in bases.iter().enumerate() {
        let chars: Vec<char> = base.chars().collect();
        for pos in 0..=chars.len() {
            *idx += 1;
            if !cx.mine(*idx) {
                continue;
            }
            cx.key(&format!("single_edit {} {}", bi, pos));
            for ch in edit_chars {
                // insert
                let mut c = chars.clone();
                c.insert(pos, ch);
                pw_case(cx, &c.iter().collect::<String>(), "single_edit_insert", hash_ok);
                if pos < chars.len() {
                    // replace
                    let mut c = chars.clone();
                    c[pos] = ch;
                    pw_case(cx, &c.iter().collect::<String>(), "single_edit_replace", hash_ok);
                }
            }
            if pos < chars.len() {
                let mut c = chars.clone();
                c.remove(pos);
                pw_case(cx, &c.iter().collect::<String>(), "single_edit_delete", hash_ok);
            }
        }
    }
    if cx.shard == 0 {
        cx.sample(json!({"family":"pwhash_grammar","example":"$argon2id$v=19$m=1025,t=3,p=1$AAAAAAAAAAAAAAAAAAAAAA$<43 chars> (verify skipped: m above the bounded-cost cap, parse paths still run)"}));
    }
}

/// signatures whose scalar half sits on the edges of the group order (L itself, L +- 1, multiples of L below 2^256, 0,
/// powers of two, 2^256 - 1), behind several kinds of R: a canonicity test that is off by one meets exactly these
fn signature_scalar_edges(cx: &mut Ctx, list: &[Ep], k: &K, idx: &mut u64) {
    const L: [u8; 32] = [0xed, 0xd3, 0xf5, 0x5c, 0x1a, 0x63, 0x12, 0x58, 0xd6, 0x9c, 0xf7, 0xa2, 0xde, 0xf9, 0xde, 0x14, 0, 0, 0, 0, 0, 0, 0, 0, 0, 0, 0, 0, 0, 0, 0, 0x10];
    fn add(a: &[u8; 32], b: &[u8; 32]) -> Option<[u8; 32]> {
        let mut o = [0u8; 32];
        let mut c = 0u16;
        for i in 0..32 {
            let v = a[i] as u16 + b[i] as u16 + c;
            o[i] = v as u8;
            c = v >> 8;
        }
        if c == 0 { Some(o) } else { None }
    }
    fn small(v: u8) -> [u8; 32] {
        let mut o = [0u8; 32];
        o[0] = v;
        o
    }
    let mut scalars: Vec<(String, [u8; 32])> = vec![("0".into(), [0u8; 32]), ("1".into(), small(1)), ("2^256-1".into(), [0xff; 32])];
    let mut kl = [0u8; 32];
    for kk in 1..=15u32 {
        match add(&kl, &L) {
            Some(v) => kl = v,
            None => break,
        }
        scalars.push((format!("{}L", kk), kl));
        if let Some(p1) = add(&kl, &small(1)) {
            scalars.push((format!("{}L+1", kk), p1));
        }
        let mut m1 = kl;
        for b in m1.iter_mut() {
            let (v, borrow) = b.overflowing_sub(1);
            *b = v;
            if !borrow {
                break;
            }
        }
        scalars.push((format!("{}L-1", kk), m1));
    }
    for bit in [252usize, 253, 254, 255] {
        let mut o = [0u8; 32];
        o[bit / 8] = 1 << (bit % 8);
        scalars.push((format!("2^{}", bit), o));
    }
    let eps_: Vec<&Ep> = list.iter().filter(|e| e.name.to_lowercase().contains("sign")).collect();
    let mut ident = [0u8; 32];
    ident[0] = 1;
    for (sn, sc) in &scalars {
        for (rn, r) in [("public_key_as_R", k.spk), ("identity", ident), ("zeros", [0u8; 32]), ("random", [0x5au8; 32])] {
            *idx += 1;
            if !cx.mine(*idx) {
                continue;
            }
            let mut rng = cx.rng.fork(*idx);
            let mut r = r;
            if rn == "random" {
                r = rng.arr();
            }
            for tail in [0usize, 1, 40] {
                let mut input = r.to_vec();
                input.extend_from_slice(sc);
                input.extend_from_slice(&rng.bytes(tail));
                for ep in &eps_ {
                    total(cx, ep.name, &input, "signature_scalar_edge", k, ep.call, 64 * input.len() + (1 << 20));
                }
            }
            cx.key(&format!("sig scalar {} {}", sn, rn));
            cx.cover("signature_scalar_edge", sn);
        }
    }
}

/// byte strings built *for the keys of this run* so that the Poly1305 accumulator reaches an edge value while the entry
/// point authenticates them (the value p + v that the final subtraction must handle, limb-edge values for the carry
/// chains): for a fixed key these strings exist among "every byte string", random generation finds them with
/// probability 2^-128. The tag in front is arbitrary: the edge is reached while computing the authenticator.
fn poly_edge_inputs(cx: &mut Ctx, list: &[Ep], k: &K, idx: &mut u64) {
    let nsel = cx.tier.pick(13usize, 26, 130);
    // (key half r, which entry points, does the input start with a 16-byte tag the MAC does not cover?)
    let mut groups: Vec<(Vec<u8>, &str, Vec<&Ep>, bool)> = Vec::new();
    let mac_eps: Vec<&Ep> = list.iter().filter(|e| e.name.contains("onetimeauth") || e.name.contains("incremental MAC")).collect();
    groups.push((k.key[..16].to_vec(), "onetimeauth(key of the run)", mac_eps, false));
    #[cfg(feature = "sodium")]
    {
        let ks_sb = crate::sodium::stream_xsalsa20(32, &k.nonce, &k.key);
        let ks_bx = crate::sodium::stream_xsalsa20(32, &k.nonce, &k.precalc);
        let sb_tagged: Vec<&Ep> = list.iter().filter(|e| (e.name.contains("secretbox") || e.name.contains("SecretBox")) && !e.name.contains("detached")).collect();
        let sb_body: Vec<&Ep> = list.iter().filter(|e| e.name.contains("secretbox") && e.name.contains("detached")).collect();
        let bx_tagged: Vec<&Ep> = list.iter().filter(|e| (e.name.contains("crypto_box_open_easy") || e.name.starts_with("DryocBox::from_bytes") || e.name.starts_with("DryocBox<Heap")) && !e.name.contains("seal_open")).collect();
        let bx_body: Vec<&Ep> = list.iter().filter(|e| e.name.contains("crypto_box_open_detached")).collect();
        groups.push((ks_sb[..16].to_vec(), "secretbox(key, nonce of the run)", sb_tagged, true));
        groups.push((ks_sb[..16].to_vec(), "secretbox detached(key, nonce of the run)", sb_body, false));
        groups.push((ks_bx[..16].to_vec(), "box(keys, nonce of the run)", bx_tagged, true));
        groups.push((ks_bx[..16].to_vec(), "box detached(keys, nonce of the run)", bx_body, false));
    }
    for (r, gname, eps_, tagged) in groups {
        for sel in 0..nsel {
            *idx += 1;
            if !cx.mine(*idx) {
                continue;
            }
            let mut rng = cx.rng.fork(*idx);
            let len = 16 * (1 + sel % 5);
            let Some((body, target)) = super::polyedge::craft_ciphertext(&r, len, sel, &mut rng) else { continue };
            let mut input = if tagged { rng.bytes(16) } else { Vec::new() };
            input.extend_from_slice(&body);
            cx.key(&format!("poly_edge {} {}", gname, sel));
            for ep in &eps_ {
                total(cx, ep.name, &input, "poly1305_edge_for_run_keys", k, ep.call, 64 * input.len() + (1 << 20));
                cx.cover("poly1305_edge_inputs", &format!("{}|{}", gname, target));
            }
        }
    }
}

pub fn run(cx: &mut Ctx) {
    let only_ni = cx.opt("nightly_forms_only").is_some();
    let list: Vec<Ep> = eps().into_iter().filter(|e| !only_ni || e.name.contains("Heap")).collect();
    let mut idx = 0u64;
    let mut krng = Rng::new(cx.seed, 0xC04);
    let k = mk_keys(&mut krng);
    let classes = ["zeros", "ff", "random", "valid_prefix", "valid_mutated", "valid"];
    let reps = cx.tier.pick(1usize, 2, 12);

    // (a) every length 0..=2*overhead+64 x content classes
    for ep in &list {
        let nmax = cx.tier.pick(ep.overhead + 3, 2 * ep.overhead + 64, 2 * ep.overhead + 200);
        for len in 0..=nmax {
            for class in classes {
                for rep in 0..reps {
                    idx += 1;
                    if !cx.mine(idx) {
                        continue;
                    }
                    if rep > 0 && (class == "zeros" || class == "ff") {
                        continue;
                    }
                    let mut rng = cx.rng.fork(idx);
                    let input: Vec<u8> = match class {
                        "zeros" => vec![0u8; len],
                        "ff" => vec![0xff; len],
                        "random" => rng.bytes(len),
                        "valid" => {
                            if len < ep.overhead && ep.overhead != 32 {
                                continue;
                            }
                            let ml = if ep.overhead == 32 { len } else { len - ep.overhead };
                            (ep.valid)(&rng.bytes(ml), &k)
                        }
                        "valid_prefix" => {
                            // an authentic input for a longer message, truncated to `len`
                            let extra = rng.range(1, 40);
                            let full = (ep.valid)(&rng.bytes(len + extra), &k);
                            full[..len.min(full.len())].to_vec()
                        }
                        _ => {
                            let ml = len.saturating_sub(ep.overhead);
                            let mut v = (ep.valid)(&rng.bytes(ml), &k);
                            v.truncate(len);
                            if !v.is_empty() {
                                let bit = rng.below(v.len() * 8);
                                v[bit / 8] ^= 1 << (bit % 8);
                            }
                            v
                        }
                    };
                    cx.key(&format!("{} {} {} {}", ep.name, len, class, rep));
                    cx.cover("entry_point", ep.name);
                    cx.cover("content_class", class);
                    cx.cover(&format!("len_reached[{}]", ep.name), &format!("{}", input.len()));
                    if input.len() < ep.overhead {
                        cx.cover("shorter_than_overhead", ep.name);
                    }
                    total(cx, ep.name, &input, class, &k, ep.call, 64 * input.len() + (1 << 20));
                }
            }
        }
    }
    if cx.shard == 0 {
        cx.sample(json!({"family":"length_sweep","entry":"crypto_secretstream_xchacha20poly1305_pull","lengths":"0..=98","classes":classes}));
    }

    poly_edge_inputs(cx, &list, &k, &mut idx);
    signature_scalar_edges(cx, &list, &k, &mut idx);
    if only_ni {
        return;
    }
    // (b) authentic stream messages carrying every tag byte, through both pull APIs
    for tag in 0..=255u8 {
        for mlen in [0usize, 1, 16, 65] {
            idx += 1;
            if !cx.mine(idx) {
                continue;
            }
            let mut rng = cx.rng.fork(idx);
            let msg = rng.bytes(mlen);
            let mut st = k.sstate.clone();
            let mut c = vec![0u8; mlen + 17];
            ss::crypto_secretstream_xchacha20poly1305_push(&mut st, &mut c, &msg, None, tag).unwrap();
            cx.key(&format!("tag {} {}", tag, mlen));
            cx.cover("stream_tag_byte", &format!("{}", tag));
            total(cx, "crypto_secretstream_xchacha20poly1305_pull", &c, "authentic_any_tag", &k, e_stream_pull, 64 * c.len() + (1 << 20));
            total(cx, "DryocStream::pull/pull_to_vec", &c, "authentic_any_tag", &k, e_stream_obj, 64 * c.len() + (1 << 20));
        }
    }

    // (b') authentic and forged stream messages presented to pull states at every counter class
    //      (fresh, mid-range, 0xfffffffe, 0xffffffff via the verif_hooks constructor): the step over the
    //      32-bit counter wrap must not panic either
    for (ci, c0) in [1u32, 0x0100_0000, 0xffff_fffe, 0xffff_ffff].into_iter().enumerate() {
        for tag in [0u8, 1, 2, 3, 0x82] {
            for mlen in [0usize, 5, 64] {
                idx += 1;
                if !cx.mine(idx) {
                    continue;
                }
                let mut rng = cx.rng.fork(idx);
                let (kk, mut nn) = k.sstate.verif_parts();
                nn[..4].copy_from_slice(&c0.to_le_bytes());
                let msg = rng.bytes(mlen);
                cx.key(&format!("counter {} {} {}", c0, tag, mlen));
                cx.cover("stream_counter_class", ["fresh", "midrange", "0xfffffffe", "0xffffffff"][ci]);
                cx.eval();
                let marker = format!("stream push+pull at counter {:#x} tag {} len {}", c0, tag, mlen);
                let r = guard(&marker, || {
                    // two messages so that 0xfffffffe also crosses the wrap
                    let mut push = ss::State::verif_from_parts(kk, nn);
                    let mut pull = ss::State::verif_from_parts(kk, nn);
                    let mut opull: DryocStream<Pull> = DryocStream::verif_from_state(ss::State::verif_from_parts(kk, nn));
                    for step in 0..2 {
                        let mut c = vec![0u8; mlen + 17];
                        let _ = ss::crypto_secretstream_xchacha20poly1305_push(&mut push, &mut c, &msg, None, tag);
                        let mut m = vec![0u8; mlen];
                        let mut t = 0u8;
                        // a forged copy first (must be Err, not a panic), then the authentic one
                        let mut bad = c.clone();
                        bad[step % (mlen + 17)] ^= 0x40;
                        let _ = ss::crypto_secretstream_xchacha20poly1305_pull(&mut pull, &mut m, &mut t, &bad, None);
                        let _ = ss::crypto_secretstream_xchacha20poly1305_pull(&mut pull, &mut m, &mut t, &c, None);
                        let _ = opull.pull_to_vec(&bad, None);
                        let _ = opull.pull_to_vec(&c, None);
                    }
                });
                if let Err(p) = r {
                    let kind = if p.msg.contains("overflow") { "arithmetic_overflow" } else { "panic" };
                    cx.violation(&format!("C04|secretstream(counter_class)|{}", kind), json!({"counter":format!("{:#x}", c0),"tag":tag,"msglen":mlen,"panic":p.msg}));
                }
            }
        }
    }

    // (c) password-hash strings
    pw_strings(cx, &mut idx);
}

// ---------------------------------------------------------------------------- libFuzzer entry

/// One fuzz input: byte 0 selects the entry-point group (or the password-string family), the rest is the
/// attacker-controlled input. Panics (the fuzzer's crash signal) on an absurd allocation; a panic inside
/// dryoc propagates as is.
pub fn fuzz_one(data: &[u8]) {
    use std::sync::OnceLock;
    static KEYS: OnceLock<K> = OnceLock::new();
    static EPS: OnceLock<Vec<Ep>> = OnceLock::new();
    let k = KEYS.get_or_init(|| mk_keys(&mut Rng::new(1, 0xC04)));
    let list = EPS.get_or_init(eps);
    if data.is_empty() {
        return;
    }
    let sel = data[0] as usize;
    let input = &data[1..];
    alloc_reset();
    if sel < 200 {
        let ep = &list[sel % list.len()];
        (ep.call)(input, k);
        let peak = alloc_max();
        assert!(peak <= 64 * input.len() + (1 << 20), "absurd allocation of {} bytes in {} for a {}-byte input", peak, ep.name, input.len());
    } else {
        let s = String::from_utf8_lossy(input);
        let bounded = costs_bounded(&s);
        let _ = crypto_pwhash_str_needs_rehash(&s, 2, 65536);
        if let Ok(p) = PwHash::<Vec<u8>, Vec<u8>>::from_string(&s) {
            let _ = p.to_string();
            if bounded {
                let _ = p.verify(&b"password".to_vec());
            }
        }
        if bounded {
            let _ = crypto_pwhash_str_verify(&s, b"password");
        }
        let peak = alloc_max();
        assert!(peak <= (4 << 20), "absurd allocation of {} bytes while handling a password-hash string", peak);
    }
}
