//! Engine shared by C14 / C15 / C19: the statically typed protected-memory API wrapped so that operation
//! sequences are data, an executable model of the type-state graph, the allocator observer (verif_hooks),
//! an in-binary `mlock` interposer for fault injection, and the per-step comparison of the model with the
//! kernel's view of the process.
#![cfg(feature = "nightly")]

use std::collections::HashMap;
use std::sync::atomic::{AtomicI64, AtomicUsize, Ordering};

use dryoc::protected::traits::{Locked as TLocked, NoAccess as TNoAccess};
use dryoc::protected::*;
use serde_json::{json, Value};

use super::osview::{self, ChildEnd, Probe};
use crate::ctx::{guard, hx, Ctx, Panicked};

// ------------------------------------------------------------------ mlock interposer (fault injection)

static MLOCK_CALLS: AtomicUsize = AtomicUsize::new(0);
/// -1: never fail; k >= 0: the k-th (0-based) and all later lock requests are refused with ENOMEM
static MLOCK_FAIL_FROM: AtomicI64 = AtomicI64::new(-1);
static MLOCK_REFUSED: AtomicUsize = AtomicUsize::new(0);

/// Defined in the executable, so it takes precedence over libc's `mlock` for dryoc's calls.
/// Without injection it forwards to the real system call.
#[no_mangle]
pub unsafe extern "C" fn mlock(addr: *const libc::c_void, len: libc::size_t) -> libc::c_int {
    let n = MLOCK_CALLS.fetch_add(1, Ordering::SeqCst) as i64;
    let from = MLOCK_FAIL_FROM.load(Ordering::SeqCst);
    if from >= 0 && n >= from {
        MLOCK_REFUSED.fetch_add(1, Ordering::SeqCst);
        *libc::__errno_location() = MLOCK_ERRNO.load(Ordering::SeqCst);
        return -1;
    }
    libc::syscall(libc::SYS_mlock, addr, len) as libc::c_int
}

/// `munlock` is forwarded to the real system call as well, so that a sanitizer runtime that turns
/// mlock/munlock into no-ops (AddressSanitizer does) cannot desynchronise the two.
#[no_mangle]
pub unsafe extern "C" fn munlock(addr: *const libc::c_void, len: libc::size_t) -> libc::c_int {
    libc::syscall(libc::SYS_munlock, addr, len) as libc::c_int
}

static MLOCK_ERRNO: std::sync::atomic::AtomicI32 = std::sync::atomic::AtomicI32::new(libc::ENOMEM);
static MLOCK_ARMED: AtomicUsize = AtomicUsize::new(0);

/// `fail_from >= 0` arms the injection: the errno of the refusal cycles through the values mlock(2) documents
/// (ENOMEM, EAGAIN, EPERM), and a generous watchdog alarm is set: an operation that answers a refusal by never
/// returning (retrying a non-transient error) ends in SIGALRM, which the fatal-signal reporter attributes to it
pub fn mlock_reset(fail_from: i64) {
    MLOCK_CALLS.store(0, Ordering::SeqCst);
    MLOCK_REFUSED.store(0, Ordering::SeqCst);
    if fail_from >= 0 {
        let n = MLOCK_ARMED.fetch_add(1, Ordering::SeqCst);
        MLOCK_ERRNO.store([libc::ENOMEM, libc::EAGAIN, libc::EPERM][n % 3], Ordering::SeqCst);
        unsafe { libc::alarm(60) };
    } else {
        unsafe { libc::alarm(0) };
    }
    MLOCK_FAIL_FROM.store(fail_from, Ordering::SeqCst);
}
pub fn mlock_errno_name() -> &'static str {
    match MLOCK_ERRNO.load(Ordering::SeqCst) {
        libc::ENOMEM => "ENOMEM",
        libc::EAGAIN => "EAGAIN",
        libc::EPERM => "EPERM",
        _ => "other",
    }
}
pub fn mlock_calls() -> usize {
    MLOCK_CALLS.load(Ordering::SeqCst)
}
pub fn mlock_refused() -> usize {
    MLOCK_REFUSED.load(Ordering::SeqCst)
}

// --------------------------------------------------------------------------- allocator observer

#[derive(Clone, Copy, Debug)]
pub enum AEv {
    Alloc { addr: usize, size: usize },
    /// `beyond`: bytes of a watched secret pattern still present in the block *past* the released size
    /// (same data pages, outside what the allocator was told it is freeing)
    Release { addr: usize, size: usize, nonzero: usize, beyond: usize },
}

const RING: usize = 1 << 14;

/// regions the harness filled with a known zero-free pattern: (data address, length written, pattern seed)
const NWATCH: usize = 64;
static mut WATCH: [(usize, usize, u8); NWATCH] = [(0, 0, 0); NWATCH];
static NWATCHED: AtomicUsize = AtomicUsize::new(0);

pub fn watch(addr: usize, len: usize, seed: u8) {
    let i = NWATCHED.load(Ordering::SeqCst);
    if i < NWATCH && addr != 0 {
        unsafe {
            (&mut (*std::ptr::addr_of_mut!(WATCH)))[i] = (addr, len, seed);
        }
        NWATCHED.store(i + 1, Ordering::SeqCst);
    }
}

pub fn watch_clear() {
    NWATCHED.store(0, Ordering::SeqCst);
}

#[inline]
fn pattern_byte(seed: u8, i: usize) -> u8 {
    1 + ((i as u32 * 7 + seed as u32 * 13) % 255) as u8
}
static mut EVENTS: [AEv; RING] = [AEv::Alloc { addr: 0, size: 0 }; RING];
static NEV: AtomicUsize = AtomicUsize::new(0);
static OVERFLOW: AtomicUsize = AtomicUsize::new(0);

fn observer(ev: &verif::Event) {
    // must not allocate through the allocator it observes: append to a pre-allocated ring
    let i = NEV.load(Ordering::SeqCst);
    if i >= RING {
        OVERFLOW.fetch_add(1, Ordering::SeqCst);
        return;
    }
    let e = match *ev {
        verif::Event::Alloc { addr, size } => AEv::Alloc { addr, size },
        verif::Event::Release { addr, size, nonzero } => {
            // the block is still mapped and writable here (the hook runs immediately before free()):
            // look past the released size for bytes of a pattern the harness wrote at this address
            let mut beyond = 0usize;
            let n = NWATCHED.load(Ordering::SeqCst);
            for w in unsafe { (&(*std::ptr::addr_of!(WATCH)))[..n].iter() } {
                if w.0 == addr && w.1 > size {
                    // stay inside the data pages the allocator reserved for `size` bytes
                    let pg = osview::page();
                    let limit = (size + (pg - size % pg)).min(w.1);
                    for i in size..limit {
                        if unsafe { std::ptr::read_volatile((addr + i) as *const u8) } == pattern_byte(w.2, i) {
                            beyond += 1;
                        }
                    }
                }
            }
            AEv::Release { addr, size, nonzero, beyond }
        }
    };
    unsafe {
        (&mut (*std::ptr::addr_of_mut!(EVENTS)))[i] = e;
    }
    NEV.store(i + 1, Ordering::SeqCst);
}

pub fn observer_install() {
    verif::set_observer(Some(observer));
}

pub fn drain_events() -> Vec<AEv> {
    let n = NEV.load(Ordering::SeqCst);
    let v: Vec<AEv> = unsafe { (&(*std::ptr::addr_of!(EVENTS)))[..n].to_vec() };
    NEV.store(0, Ordering::SeqCst);
    v
}

pub fn observer_overflowed() -> bool {
    OVERFLOW.load(Ordering::SeqCst) > 0
}

// ------------------------------------------------------------------------------- states and ops

#[derive(Clone, Copy, PartialEq, Eq, Debug, Hash)]
pub enum St {
    RwL,
    RoL,
    NaL,
    RwU,
    RoU,
    NaU,
}

impl St {
    pub fn locked(self) -> bool {
        matches!(self, St::RwL | St::RoL | St::NaL)
    }
    pub fn perms(self) -> &'static str {
        match self {
            St::RwL | St::RwU => "rw-",
            St::RoL | St::RoU => "r--",
            St::NaL | St::NaU => "---",
        }
    }
    pub fn readable(self) -> bool {
        !matches!(self, St::NaL | St::NaU)
    }
    pub fn writable(self) -> bool {
        matches!(self, St::RwL | St::RwU)
    }
    pub fn name(self) -> &'static str {
        match self {
            St::RwL => "Locked+ReadWrite",
            St::RoL => "Locked+ReadOnly",
            St::NaL => "Locked+NoAccess",
            St::RwU => "Unlocked+ReadWrite",
            St::RoU => "Unlocked+ReadOnly",
            St::NaU => "Unlocked+NoAccess",
        }
    }
}

#[derive(Clone, Copy, PartialEq, Eq, Debug, Hash)]
pub enum Op {
    Mlock,
    Munlock,
    ReadOnly,
    ReadWrite,
    NoAccess,
    Clone,
    /// new length
    Resize(usize),
    Write,
    Drop,
}

impl Op {
    pub fn name(self) -> String {
        match self {
            Op::Mlock => "mlock".into(),
            Op::Munlock => "munlock".into(),
            Op::ReadOnly => "mprotect_readonly".into(),
            Op::ReadWrite => "mprotect_readwrite".into(),
            Op::NoAccess => "mprotect_noaccess".into(),
            Op::Clone => "clone".into(),
            Op::Resize(n) => format!("resize({})", n),
            Op::Write => "write".into(),
            Op::Drop => "drop".into(),
        }
    }
    /// does the operation's signature return a Result (C19: must then report an error, never panic)?
    pub fn returns_result(self) -> bool {
        matches!(self, Op::Mlock | Op::Munlock | Op::ReadOnly | Op::ReadWrite | Op::NoAccess)
    }
}

pub enum Applied {
    Moved(Box<dyn DynRegion>),
    /// the operation returned Err; the handle was consumed
    Failed(String),
    /// the type system does not offer this operation in this state
    NotOffered(Box<dyn DynRegion>),
}

pub trait DynRegion {
    fn st(&self) -> St;
    fn kind(&self) -> &'static str;
    fn transition(self: Box<Self>, op: Op) -> Applied;
    fn slice(&self) -> Option<&[u8]>;
    fn slice_mut(&mut self) -> Option<&mut [u8]>;
    /// None: clone not offered in this state / for this container
    fn try_clone(&self) -> Option<Box<dyn DynRegion>>;
    /// false: resize not offered
    fn resize(&mut self, n: usize, v: u8) -> bool;
    fn resizable(&self) -> bool;
}

macro_rules! wrap {
    ($r:expr, $variant:path) => {
        match $r {
            Ok(p) => Applied::Moved(Box::new($variant(p))),
            Err(e) => Applied::Failed(e.to_string()),
        }
    };
}

macro_rules! region_type {
    ($modname:ident, $A:ty, $label:expr, clone_locked: $cl:tt, resizable: $rs:tt) => {
        pub mod $modname {
            use super::*;
            pub enum R {
                RwL(Locked<$A>),
                RoL(LockedRO<$A>),
                NaL(Protected<$A, TNoAccess, TLocked>),
                RwU(Unlocked<$A>),
                RoU(UnlockedRO<$A>),
                NaU(NoAccess<$A>),
            }
            impl DynRegion for R {
                fn st(&self) -> St {
                    match self {
                        R::RwL(_) => St::RwL,
                        R::RoL(_) => St::RoL,
                        R::NaL(_) => St::NaL,
                        R::RwU(_) => St::RwU,
                        R::RoU(_) => St::RoU,
                        R::NaU(_) => St::NaU,
                    }
                }
                fn kind(&self) -> &'static str {
                    $label
                }
                fn transition(self: Box<Self>, op: Op) -> Applied {
                    match (*self, op) {
                        (R::RwU(p), Op::Mlock) => wrap!(p.mlock(), R::RwL),
                        (R::RoU(p), Op::Mlock) => wrap!(p.mlock(), R::RoL),
                        (R::NaU(p), Op::Mlock) => wrap!(p.mlock(), R::NaL),
                        (R::RwL(p), Op::Munlock) => wrap!(p.munlock(), R::RwU),
                        (R::RoL(p), Op::Munlock) => wrap!(p.munlock(), R::RoU),
                        (R::NaL(p), Op::Munlock) => wrap!(p.munlock(), R::NaU),
                        (R::RwU(p), Op::Munlock) => wrap!(p.munlock(), R::RwU),
                        (R::RoU(p), Op::Munlock) => wrap!(p.munlock(), R::RoU),
                        (R::NaU(p), Op::Munlock) => wrap!(p.munlock(), R::NaU),
                        (R::RwL(p), Op::ReadOnly) => wrap!(p.mprotect_readonly(), R::RoL),
                        (R::RoL(p), Op::ReadOnly) => wrap!(p.mprotect_readonly(), R::RoL),
                        (R::NaL(p), Op::ReadOnly) => wrap!(p.mprotect_readonly(), R::RoL),
                        (R::RwU(p), Op::ReadOnly) => wrap!(p.mprotect_readonly(), R::RoU),
                        (R::RoU(p), Op::ReadOnly) => wrap!(p.mprotect_readonly(), R::RoU),
                        (R::NaU(p), Op::ReadOnly) => wrap!(p.mprotect_readonly(), R::RoU),
                        (R::RwL(p), Op::ReadWrite) => wrap!(p.mprotect_readwrite(), R::RwL),
                        (R::RoL(p), Op::ReadWrite) => wrap!(p.mprotect_readwrite(), R::RwL),
                        (R::NaL(p), Op::ReadWrite) => wrap!(p.mprotect_readwrite(), R::RwL),
                        (R::RwU(p), Op::ReadWrite) => wrap!(p.mprotect_readwrite(), R::RwU),
                        (R::RoU(p), Op::ReadWrite) => wrap!(p.mprotect_readwrite(), R::RwU),
                        (R::NaU(p), Op::ReadWrite) => wrap!(p.mprotect_readwrite(), R::RwU),
                        (R::RwU(p), Op::NoAccess) => wrap!(p.mprotect_noaccess(), R::NaU),
                        (R::RoU(p), Op::NoAccess) => wrap!(p.mprotect_noaccess(), R::NaU),
                        (R::NaU(p), Op::NoAccess) => wrap!(p.mprotect_noaccess(), R::NaU),
                        (s, _) => Applied::NotOffered(Box::new(s)),
                    }
                }
                fn slice(&self) -> Option<&[u8]> {
                    match self {
                        R::RwL(p) => Some(p.as_slice()),
                        R::RoL(p) => Some(p.as_slice()),
                        R::RwU(p) => Some(p.as_slice()),
                        R::RoU(p) => Some(p.as_slice()),
                        _ => None,
                    }
                }
                fn slice_mut(&mut self) -> Option<&mut [u8]> {
                    match self {
                        R::RwL(p) => Some(p.as_mut_slice()),
                        R::RwU(p) => Some(p.as_mut_slice()),
                        _ => None,
                    }
                }
                fn try_clone(&self) -> Option<Box<dyn DynRegion>> {
                    match self {
                        R::RwU(p) => Some(Box::new(R::RwU(p.clone()))),
                        R::RoU(p) => Some(Box::new(R::RoU(p.clone()))),
                        R::RwL(_p) => region_type!(@clone_locked $cl, _p, R::RwL),
                        R::RoL(_p) => region_type!(@clone_locked $cl, _p, R::RoL),
                        _ => None,
                    }
                }
                fn resize(&mut self, _n: usize, _v: u8) -> bool {
                    region_type!(@resize $rs, self, _n, _v)
                }
                fn resizable(&self) -> bool {
                    $rs
                }
            }
        }
    };
    (@clone_locked true, $p:ident, $variant:path) => {
        Some(Box::new($variant($p.clone())))
    };
    (@clone_locked false, $p:ident, $variant:path) => {
        None
    };
    (@resize true, $s:ident, $n:ident, $v:ident) => {
        match $s {
            R::RwL(p) => {
                p.resize($n, $v);
                true
            }
            R::RwU(p) => {
                p.resize($n, $v);
                true
            }
            _ => false,
        }
    };
    (@resize false, $s:ident, $n:ident, $v:ident) => {
        false
    };
}

region_type!(hb, HeapBytes, "HeapBytes", clone_locked: true, resizable: true);
region_type!(a1, HeapByteArray<1>, "HeapByteArray<1>", clone_locked: false, resizable: false);
region_type!(a16, HeapByteArray<16>, "HeapByteArray<16>", clone_locked: false, resizable: false);
region_type!(a32, HeapByteArray<32>, "HeapByteArray<32>", clone_locked: false, resizable: false);
region_type!(a64, HeapByteArray<64>, "HeapByteArray<64>", clone_locked: false, resizable: false);
region_type!(a4095, HeapByteArray<4095>, "HeapByteArray<4095>", clone_locked: false, resizable: false);
region_type!(a4096, HeapByteArray<4096>, "HeapByteArray<4096>", clone_locked: false, resizable: false);
region_type!(a4097, HeapByteArray<4097>, "HeapByteArray<4097>", clone_locked: false, resizable: false);
region_type!(a8192, HeapByteArray<8192>, "HeapByteArray<8192>", clone_locked: false, resizable: false);
region_type!(a8193, HeapByteArray<8193>, "HeapByteArray<8193>", clone_locked: false, resizable: false);

pub const ARRAY_LENS: [usize; 9] = [1, 16, 32, 64, 4095, 4096, 4097, 8192, 8193];
pub const BYTES_LENS: [usize; 10] = [0, 1, 16, 32, 64, 4095, 4096, 4097, 8192, 8193];

/// constructors; each returns Result (the constructor's own Result) — a panic propagates to the caller's guard
pub const HB_CTORS: [&str; 6] = ["from_slice_into_locked", "from_slice_into_readonly_locked", "new_locked+resize", "plain.mlock", "Locked::default+resize", "Locked::new_bytes+resize"];
pub const ARR_CTORS: [&str; 10] = ["from_slice_into_locked", "from_slice_into_readonly_locked", "new_locked+copy", "plain.mlock", "gen_locked+copy", "StackByteArray::mlock", "StackByteArray::mprotect_readonly", "Locked::new_byte_array+copy", "Locked::gen+copy", "Locked::default+copy"];

pub fn ctor_returns_result(name: &str) -> bool {
    // every listed constructor's *first* (locking) step returns Result; "new_locked+resize" performs a
    // locked resize afterwards whose signature cannot report an error
    !matches!(name, "new_locked+resize" | "Locked::default+resize" | "Locked::new_bytes+resize" | "Locked::new_byte_array+copy" | "Locked::gen+copy" | "Locked::default+copy")
}

pub fn construct_hb(ctor: &str, src: &[u8]) -> Result<Box<dyn DynRegion>, String> {
    use hb::R;
    match ctor {
        "from_slice_into_locked" => HeapBytes::from_slice_into_locked(src).map(|p| Box::new(R::RwL(p)) as Box<dyn DynRegion>).map_err(|e| e.to_string()),
        "from_slice_into_readonly_locked" => HeapBytes::from_slice_into_readonly_locked(src).map(|p| Box::new(R::RoL(p)) as Box<dyn DynRegion>).map_err(|e| e.to_string()),
        "new_locked+resize" => {
            let mut p = HeapBytes::new_locked().map_err(|e| e.to_string())?;
            p.resize(src.len(), 0);
            p.as_mut_slice().copy_from_slice(src);
            Ok(Box::new(R::RwL(p)))
        }
        "Locked::default+resize" => {
            let mut p = Locked::<HeapBytes>::default();
            p.resize(src.len(), 0);
            p.as_mut_slice().copy_from_slice(src);
            Ok(Box::new(R::RwL(p)))
        }
        "Locked::new_bytes+resize" => {
            let mut p = <Locked<HeapBytes> as NewBytes>::new_bytes();
            p.resize(src.len(), 0);
            p.as_mut_slice().copy_from_slice(src);
            Ok(Box::new(R::RwL(p)))
        }
        _ => {
            let mut h = HeapBytes::default();
            h.resize(src.len(), 0);
            h.as_mut_slice().copy_from_slice(src);
            h.mlock().map(|p| Box::new(R::RwL(p)) as Box<dyn DynRegion>).map_err(|e| e.to_string())
        }
    }
}

macro_rules! construct_arr {
    ($modname:ident, $n:literal, $ctor:expr, $src:expr) => {{
        use $modname::R;
        let src: &[u8] = $src;
        let r: Result<Box<dyn DynRegion>, String> = match $ctor {
            "from_slice_into_locked" => HeapByteArray::<$n>::from_slice_into_locked(src).map(|p| Box::new(R::RwL(p)) as Box<dyn DynRegion>).map_err(|e| e.to_string()),
            "from_slice_into_readonly_locked" => HeapByteArray::<$n>::from_slice_into_readonly_locked(src).map(|p| Box::new(R::RoL(p)) as Box<dyn DynRegion>).map_err(|e| e.to_string()),
            "new_locked+copy" => HeapByteArray::<$n>::new_locked()
                .map(|mut p| {
                    p.as_mut_slice().copy_from_slice(src);
                    Box::new(R::RwL(p)) as Box<dyn DynRegion>
                })
                .map_err(|e| e.to_string()),
            "gen_locked+copy" => HeapByteArray::<$n>::gen_locked()
                .map(|mut p| {
                    p.as_mut_slice().copy_from_slice(src);
                    Box::new(R::RwL(p)) as Box<dyn DynRegion>
                })
                .map_err(|e| e.to_string()),
            "plain.mlock" => {
                let h = HeapByteArray::<$n>::try_from(src).map_err(|e| e.to_string())?;
                h.mlock().map(|p| Box::new(R::RwL(p)) as Box<dyn DynRegion>).map_err(|e| e.to_string())
            }
            "StackByteArray::mlock" => {
                let s = StackByteArray::<$n>::try_from(src).map_err(|e| e.to_string())?;
                s.mlock().map(|p| Box::new(R::RwL(p)) as Box<dyn DynRegion>).map_err(|e| e.to_string())
            }
            "Locked::new_byte_array+copy" => {
                let mut p = <Locked<HeapByteArray<$n>> as NewByteArray<$n>>::new_byte_array();
                p.as_mut_slice().copy_from_slice(src);
                Ok(Box::new(R::RwL(p)) as Box<dyn DynRegion>)
            }
            "Locked::default+copy" => {
                let mut p = <Locked<HeapByteArray<$n>> as Default>::default();
                p.as_mut_slice().copy_from_slice(src);
                Ok(Box::new(R::RwL(p)) as Box<dyn DynRegion>)
            }
            "Locked::gen+copy" => {
                let mut p = <Locked<HeapByteArray<$n>> as NewByteArray<$n>>::gen();
                p.as_mut_slice().copy_from_slice(src);
                Ok(Box::new(R::RwL(p)) as Box<dyn DynRegion>)
            }
            _ => {
                let s = StackByteArray::<$n>::try_from(src).map_err(|e| e.to_string())?;
                s.mprotect_readonly().map(|p| Box::new(R::RoU(p)) as Box<dyn DynRegion>).map_err(|e| e.to_string())
            }
        };
        r
    }};
}

pub fn construct_arr(len: usize, ctor: &str, src: &[u8]) -> Result<Box<dyn DynRegion>, String> {
    match len {
        1 => construct_arr!(a1, 1, ctor, src),
        16 => construct_arr!(a16, 16, ctor, src),
        32 => construct_arr!(a32, 32, ctor, src),
        64 => construct_arr!(a64, 64, ctor, src),
        4095 => construct_arr!(a4095, 4095, ctor, src),
        4096 => construct_arr!(a4096, 4096, ctor, src),
        4097 => construct_arr!(a4097, 4097, ctor, src),
        8192 => construct_arr!(a8192, 8192, ctor, src),
        8193 => construct_arr!(a8193, 8193, ctor, src),
        _ => Err("unsupported array length".into()),
    }
}

// ----------------------------------------------------------------------------------- the model

pub struct Live {
    pub id: usize,
    pub r: Box<dyn DynRegion>,
    /// data address (0 when the region is empty)
    pub addr: usize,
    pub shadow: Vec<u8>,
}

pub struct Engine {
    pub page: usize,
    pub probe: Probe,
    pub base_vmlck_kb: usize,
    pub live: Vec<Live>,
    pub next_id: usize,
    /// addr -> size for allocations handed out and not yet released
    pub allocs: HashMap<usize, usize>,
    pub ever: Vec<(usize, usize)>,
    pub releases_nonzero: Vec<(usize, usize, usize)>,
    /// (addr, size, watched pattern bytes found past the released size)
    pub releases_beyond: Vec<(usize, usize, usize)>,
    pub releases_seen: usize,
    pub trace: Vec<String>,
    pub use_fork: bool,
    pub use_efault: bool,
    pub fork_every: usize,
    pub steps: usize,
    pub fill: u8,
    pub prefix: &'static str,
    /// rights of ordinary heap memory in this process
    pub plain: String,
}

pub fn pattern(seed: u8, len: usize) -> Vec<u8> {
    // zero-free "secret" pattern
    (0..len).map(|i| pattern_byte(seed, i)).collect()
}

impl Engine {
    pub fn new(prefix: &'static str, use_fork: bool, use_efault: bool) -> Self {
        observer_install();
        drain_events();
        Engine {
            page: osview::page(),
            probe: Probe::new(),
            base_vmlck_kb: osview::vmlck_kb(),
            live: Vec::new(),
            next_id: 0,
            allocs: HashMap::new(),
            ever: Vec::new(),
            releases_nonzero: Vec::new(),
            releases_beyond: Vec::new(),
            releases_seen: 0,
            trace: Vec::new(),
            use_fork,
            use_efault,
            fork_every: 7,
            steps: 0,
            fill: 1,
            prefix,
            plain: osview::plain_heap_perms(),
        }
    }

    pub fn reset_sequence(&mut self) {
        self.trace.clear();
        self.ever.clear();
        self.releases_nonzero.clear();
        self.releases_beyond.clear();
        watch_clear();
        self.releases_seen = 0;
        self.fill = 1;
    }

    pub fn pump_events(&mut self) {
        for e in drain_events() {
            match e {
                AEv::Alloc { addr, size } => {
                    self.allocs.insert(addr, size);
                    self.ever.push((addr, size));
                }
                AEv::Release { addr, size, nonzero, beyond } => {
                    self.allocs.remove(&addr);
                    self.releases_seen += 1;
                    if nonzero > 0 {
                        self.releases_nonzero.push((addr, size, nonzero));
                    }
                    // 8 or more matching bytes: chance agreement with stale heap garbage is negligible
                    if beyond >= 8 {
                        self.releases_beyond.push((addr, size, beyond));
                    }
                }
            }
        }
    }

    pub fn case(&self, extra: Value) -> Value {
        json!({"trace": self.trace, "detail": extra})
    }

    pub fn adopt(&mut self, r: Box<dyn DynRegion>, shadow: Vec<u8>, prev_addr: usize) -> usize {
        let addr = match r.slice() {
            Some(s) if !s.is_empty() => s.as_ptr() as usize,
            Some(_) => 0,
            None => prev_addr,
        };
        let id = self.next_id;
        self.next_id += 1;
        self.live.push(Live { id, r, addr, shadow });
        self.live.len() - 1
    }

    fn pages_of(&self, addr: usize, len: usize) -> std::ops::Range<usize> {
        let first = addr / self.page;
        let last = (addr + len + self.page - 1) / self.page;
        first..last
    }

    pub fn expected_locked_kb(&self) -> usize {
        self.live.iter().filter(|l| l.r.st().locked() && !l.shadow.is_empty() && l.addr != 0).map(|l| self.pages_of(l.addr, l.shadow.len()).len() * self.page / 1024).sum()
    }

    /// compares the model with the kernel's view for every live region
    pub fn observe(&mut self, cx: &mut Ctx, after: &str) {
        self.steps += 1;
        let pfx = self.prefix;
        let maps = osview::maps();
        let do_fork = self.use_fork && self.steps % self.fork_every == 0;
        let do_smaps = self.steps % 5 == 0;
        let smaps = if do_smaps { osview::smaps() } else { Vec::new() };
        let mut viols: Vec<(String, Value)> = Vec::new();
        for l in &self.live {
            let st = l.r.st();
            let len = l.shadow.len();
            let kind = l.r.kind();
            cx.cover("state_visited", &format!("{}|{}", if kind == "HeapBytes" { "HeapBytes" } else { "HeapByteArray" }, st.name()));
            if len == 0 || l.addr == 0 {
                continue;
            }
            let lenclass = len_class(len, self.page);
            cx.cover("state_x_len_class", &format!("{}|{}", st.name(), lenclass));
            // (6) contents
            // reading what the type says is readable: a fault here is attributed by the fatal-signal reporter
            crate::ctx::set_marker("observe contents of a region whose type permits reading");
            let readable_view = l.r.slice();
            if let Some(s) = readable_view {
                let _probe = if s.is_empty() { 0 } else { unsafe { std::ptr::read_volatile(s.as_ptr()) } };
            }
            if let Some(s) = readable_view {
                cx.eval();
                if s.as_ptr() as usize != l.addr {
                    viols.push((format!("{}|{}|allocation_moved_by_transition", pfx, kind), json!({"state":st.name(),"len":len})));
                } else if s != &l.shadow[..] {
                    viols.push((format!("{}|{}|contents_changed_by_transition", pfx, kind), json!({"state":st.name(),"len":len,"after":after,"got":hx(&s[..s.len().min(32)]),"want":hx(&l.shadow[..len.min(32)])})));
                }
            }
            crate::ctx::clear_marker();
            // (1) page rights of every page holding data
            for pg in self.pages_of(l.addr, len) {
                cx.eval();
                let a = pg * self.page;
                match osview::find(&maps, a) {
                    Some(v) => {
                        let got = osview::perms_str(&v.perms);
                        if got != st.perms() {
                            viols.push((format!("{}|{}|data_page_rights_mismatch|want={}", pfx, kind, st.perms()), json!({"state":st.name(),"len":len,"page_index":pg - l.addr / self.page,"maps":got,"after":after})));
                        }
                    }
                    None => viols.push((format!("{}|{}|data_page_unmapped", pfx, kind), json!({"state":st.name(),"len":len}))),
                }
            }
            // (5) guard pages
            cx.eval();
            let before = l.addr - self.page;
            match osview::find(&maps, before) {
                Some(v) if osview::perms_str(&v.perms) == "---" => {}
                other => viols.push((format!("{}|{}|no_guard_page_before_data", pfx, kind), json!({"state":st.name(),"len":len,"maps":other.map(|v| osview::perms_str(&v.perms))}))),
            }
            let cap = self.allocs.get(&l.addr).copied().unwrap_or(len);
            let lim = (l.addr + cap + self.page - 1) / self.page * self.page + self.page;
            let mut a = (l.addr + len + self.page - 1) / self.page * self.page;
            let mut found = false;
            while a <= lim {
                if let Some(v) = osview::find(&maps, a) {
                    if osview::perms_str(&v.perms) == "---" {
                        found = true;
                        break;
                    }
                }
                a += self.page;
            }
            cx.eval();
            if !found {
                viols.push((format!("{}|{}|no_guard_page_after_data", pfx, kind), json!({"state":st.name(),"len":len,"capacity":cap})));
            }
            // (2) per-byte truth without dying
            if self.use_efault {
                let mut offs = vec![0usize, len - 1];
                let mut b = self.page;
                while b < len {
                    offs.push(b - 1);
                    offs.push(b);
                    b += self.page;
                }
                for o in offs {
                    let p = (l.addr + o) as *mut u8;
                    cx.eval();
                    let rd = self.probe.readable(p);
                    let wr = self.probe.writable(p, l.shadow[o]);
                    if rd != st.readable() || wr != st.writable() {
                        viols.push((format!("{}|{}|byte_access_rights_mismatch|want={}", pfx, kind, st.perms()), json!({"state":st.name(),"len":len,"offset":o,"kernel_reads":rd,"kernel_writes":wr,"after":after})));
                        break;
                    }
                }
            }
            // (3) ground truth: a forked child performs the access
            if do_fork {
                let o = if len > self.page { len - 1 } else { 0 };
                let p = (l.addr + o) as *mut u8;
                let w = osview::fork_access(p, true);
                let r = osview::fork_access(p, false);
                cx.eval();
                let w_ok = if st.writable() { w == ChildEnd::Exited(0) } else { matches!(w, ChildEnd::Signaled(s) if s == libc::SIGSEGV || s == libc::SIGBUS) };
                let r_ok = if st.readable() { r == ChildEnd::Exited(0) } else { matches!(r, ChildEnd::Signaled(s) if s == libc::SIGSEGV || s == libc::SIGBUS) };
                if !w_ok || !r_ok {
                    viols.push((format!("{}|{}|forked_access_outcome_mismatch|want={}", pfx, kind, st.perms()), json!({"state":st.name(),"len":len,"offset":o,"write":format!("{:?}", w),"read":format!("{:?}", r)})));
                }
                cx.cover("fork_probe", st.name());
            }
            // (4) locked flag of the VMAs holding data pages
            if do_smaps {
                for pg in self.pages_of(l.addr, len) {
                    cx.eval();
                    if let Some(v) = osview::find(&smaps, pg * self.page) {
                        if v.locked != st.locked() {
                            viols.push((format!("{}|{}|vm_locked_flag_mismatch|want_locked={}", pfx, kind, st.locked()), json!({"state":st.name(),"len":len,"page_index":pg - l.addr / self.page})));
                            break;
                        }
                    }
                }
            }
        }
        // (4) locked page total
        cx.eval();
        let got = osview::vmlck_kb();
        let want = self.base_vmlck_kb + self.expected_locked_kb();
        if got != want {
            viols.push((format!("{}|VmLck_differs_from_model|{}", pfx, if got > want { "more_locked_than_model" } else { "less_locked_than_model" }), json!({"VmLck_kB":got,"model_kB":want,"after":after})));
        }
        for (sig, v) in viols {
            let c = self.case(v);
            cx.violation(&sig, c);
        }
    }

    /// after the last handle is gone
    pub fn quiescence(&mut self, cx: &mut Ctx) {
        self.pump_events();
        let pfx = self.prefix;
        cx.eval();
        let got = osview::vmlck_kb();
        if got != self.base_vmlck_kb {
            let c = self.case(json!({"VmLck_kB":got,"baseline_kB":self.base_vmlck_kb}));
            cx.violation(&format!("{}|residual_locked_pages_after_last_drop", pfx), c);
            // re-baseline so that one leak is reported once, not on every later sequence
            self.base_vmlck_kb = got;
        }
        let sm = osview::smaps();
        let ever = self.ever.clone();
        for (addr, size) in ever {
            if size == 0 {
                continue;
            }
            for pg in self.pages_of(addr - self.page, size + 2 * self.page) {
                cx.eval();
                if let Some(v) = osview::find(&sm, pg * self.page) {
                    let p = osview::perms_str(&v.perms);
                    if p != "rw-" && p != self.plain {
                        let c = self.case(json!({"perms":p,"size":size}));
                        cx.violation(&format!("{}|pages_with_altered_rights_after_last_drop", pfx), c);
                        // restore so that the heap stays usable and the finding is reported once
                        unsafe {
                            libc::mprotect((pg * self.page) as *mut _, self.page, libc::PROT_READ | libc::PROT_WRITE);
                        }
                    }
                    if v.locked {
                        let c = self.case(json!({"size":size}));
                        cx.violation(&format!("{}|vm_locked_flag_left_after_last_drop", pfx), c);
                        unsafe {
                            libc::munlock((pg * self.page) as *const _, self.page);
                        }
                        self.base_vmlck_kb = osview::vmlck_kb();
                    }
                }
            }
        }
        if !self.allocs.is_empty() {
            cx.cover("unreleased_allocations_at_quiescence", "some");
            self.allocs.clear();
        }
    }

    pub fn drop_all(&mut self) {
        while let Some(l) = self.live.pop() {
            drop(l);
        }
        self.pump_events();
    }
}

pub fn len_class(len: usize, page: usize) -> String {
    if len == 0 {
        "0".into()
    } else if len < page {
        format!("sub-page({})", if len == 1 { "1".to_string() } else if len == page - 1 { "page-1".into() } else { "small".into() })
    } else if len % page == 0 {
        format!("{}*page", len / page)
    } else if len % page == 1 {
        format!("{}*page+1", len / page)
    } else {
        format!("{}*page+k", len / page)
    }
}

pub enum StepOutcome {
    Ok,
    /// operation not offered by the type system in this state
    NotOffered,
    /// operation returned Err; region consumed
    Failed(String),
    Panicked(Panicked),
}

impl Engine {
    /// applies `op` to live region `idx`, updating the model
    pub fn step(&mut self, cx: &mut Ctx, idx: usize, op: Op) -> StepOutcome {
        let st0 = self.live[idx].r.st();
        let kind = self.live[idx].r.kind();
        self.trace.push(format!("#{} {} [{} len={}] {}", self.live[idx].id, kind, st0.name(), self.live[idx].shadow.len(), op.name()));
        let marker = format!("{} {} {}", kind, st0.name(), op.name());
        match op {
            Op::Drop => {
                let l = self.live.remove(idx);
                let r = guard(&marker, move || drop(l));
                self.pump_events();
                match r {
                    Ok(()) => StepOutcome::Ok,
                    Err(p) => StepOutcome::Panicked(p),
                }
            }
            Op::Write => {
                self.fill = self.fill.wrapping_add(1);
                let fill = self.fill;
                let l = &mut self.live[idx];
                let n = l.shadow.len();
                match l.r.slice_mut() {
                    Some(s) => {
                        let pat = pattern(fill, n);
                        s.copy_from_slice(&pat);
                        l.shadow = pat;
                        StepOutcome::Ok
                    }
                    None => {
                        self.trace.pop();
                        StepOutcome::NotOffered
                    }
                }
            }
            Op::Clone => {
                let l = &self.live[idx];
                let shadow = l.shadow.clone();
                let r = guard(&marker, || l.r.try_clone());
                self.pump_events();
                match r {
                    Ok(Some(nr)) => {
                        // clone of a read-only region is read-only, of a read-write region read-write, same lock mode
                        cx.eval();
                        if nr.st() != st0 {
                            let c = self.case(json!({"source":st0.name(),"clone":nr.st().name()}));
                            cx.violation(&format!("{}|{}|clone_has_different_state", self.prefix, kind), c);
                        }
                        self.adopt(nr, shadow, 0);
                        StepOutcome::Ok
                    }
                    Ok(None) => {
                        self.trace.pop();
                        StepOutcome::NotOffered
                    }
                    Err(p) => StepOutcome::Panicked(p),
                }
            }
            Op::Resize(n) => {
                if !self.live[idx].r.resizable() || !st0.writable() {
                    self.trace.pop();
                    return StepOutcome::NotOffered;
                }
                let l = &mut self.live[idx];
                let r = guard(&marker, || l.r.resize(n, 0));
                self.pump_events();
                match r {
                    Ok(true) => {
                        let l = &mut self.live[idx];
                        l.shadow.resize(n, 0);
                        l.addr = match l.r.slice() {
                            Some(s) if !s.is_empty() => s.as_ptr() as usize,
                            _ => 0,
                        };
                        StepOutcome::Ok
                    }
                    Ok(false) => {
                        self.trace.pop();
                        StepOutcome::NotOffered
                    }
                    Err(p) => StepOutcome::Panicked(p),
                }
            }
            _ => {
                let l = self.live.remove(idx);
                let Live { id, r, addr, shadow } = l;
                let res = guard(&marker, move || r.transition(op));
                self.pump_events();
                match res {
                    Ok(Applied::Moved(nr)) => {
                        let a = match nr.slice() {
                            Some(s) if !s.is_empty() => s.as_ptr() as usize,
                            Some(_) => 0,
                            None => addr,
                        };
                        self.live.insert(idx, Live { id, r: nr, addr: a, shadow });
                        cx.cover("transition", &format!("{} --{}--> {}", st0.name(), op.name(), self.live[idx].r.st().name()));
                        StepOutcome::Ok
                    }
                    Ok(Applied::NotOffered(nr)) => {
                        self.live.insert(idx, Live { id, r: nr, addr, shadow });
                        self.trace.pop();
                        StepOutcome::NotOffered
                    }
                    Ok(Applied::Failed(e)) => {
                        cx.cover("transition_err", &format!("{} --{}--> Err", st0.name(), op.name()));
                        StepOutcome::Failed(e)
                    }
                    Err(p) => StepOutcome::Panicked(p),
                }
            }
        }
    }
}
