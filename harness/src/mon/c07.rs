//! C07 — hash, MAC and core primitives equal their specifications on every input.
//! Online oracle: libsodium. Sampled I/O is logged for the offline pure-Python oracle.

use dryoc::auth::Auth;
use dryoc::classic::crypto_auth::*;
use dryoc::classic::crypto_core::*;
use dryoc::classic::crypto_generichash::*;
use dryoc::classic::crypto_hash::*;
use dryoc::classic::crypto_onetimeauth::*;
use dryoc::classic::crypto_shorthash::*;
use dryoc::generichash::GenericHash;
use dryoc::onetimeauth::OnetimeAuth;
use dryoc::sha512::Sha512;
use dryoc::types::*;
use dryoc::utils::sodium_increment;
use serde_json::json;

use super::*;
use crate::ctx::{hx, Ctx};
use crate::sodium as na;

fn c_of(k: &[u8; 16]) -> (u32, u32, u32, u32) {
    let w = |i: usize| u32::from_le_bytes([k[i], k[i + 1], k[i + 2], k[i + 3]]);
    (w(0), w(4), w(8), w(12))
}

macro_rules! gh_grid {
    ($cx:expr, $input:expr, $key64:expr, $( ($k:literal, $o:literal) ),* ) => {{
        $(
        {
            let key: [u8; $k] = $key64[..$k].try_into().unwrap();
            let want_keyed = na::generichash($o, $input, Some(&key)).unwrap();
            let want_plain = na::generichash($o, $input, None).unwrap();
            let case = || json!({"op":"GenericHash","K":$k,"O":$o,"input":hx($input),"key":hx(&key)});
            // one-shot, keyed, stack output
            if let Some(r) = call($cx, "C07|GenericHash::hash", "GenericHash::hash", case,
                || GenericHash::<$k, $o>::hash::<_, [u8; $k], StackByteArray<$o>>($input, Some(&key))) {
                match r { Ok(h) => { expect_eq($cx, "C07|GenericHash::hash|mismatch_vs_libsodium", h.as_slice(), &want_keyed, case); }
                          Err(e) => { $cx.violation("C07|GenericHash::hash|unexpected_err", json!({"err":e.to_string(),"K":$k,"O":$o})); } }
            }
            // one-shot, unkeyed, Vec output
            if let Some(r) = call($cx, "C07|GenericHash::hash_to_vec", "GenericHash::hash_to_vec", case,
                || GenericHash::<$k, $o>::hash_to_vec::<_, [u8; $k]>(&$input.to_vec(), None)) {
                match r { Ok(h) => { expect_eq($cx, "C07|GenericHash::hash_to_vec|mismatch_vs_libsodium", &h, &want_plain, case); }
                          Err(e) => { $cx.violation("C07|GenericHash::hash_to_vec|unexpected_err", json!({"err":e.to_string(),"K":$k,"O":$o})); } }
            }
            // incremental object, single update, keyed
            if let Some(r) = call($cx, "C07|GenericHash::new+update+finalize", "GenericHash::finalize", case, || {
                let mut h = GenericHash::<$k, $o>::new(Some(&key))?;
                h.update($input);
                h.finalize::<[u8; $o]>()
            }) {
                match r { Ok(h) => { expect_eq($cx, "C07|GenericHash::finalize|mismatch_vs_libsodium", &h, &want_keyed, case); }
                          Err(e) => { $cx.violation("C07|GenericHash::finalize|unexpected_err", json!({"err":e.to_string(),"K":$k,"O":$o})); } }
            }
            // Vec key container longer than KEY_LENGTH (the whole slice is the key, as in libsodium with keylen = len):
            // one-shot, one-shot to Vec and incremental must all use every byte of it
            if $k < 64 {
                let klen = core::cmp::min(64, $k + 1 + ($input.len() % 16));
                let key_long: Vec<u8> = $key64[..klen].to_vec();
                let want_long = na::generichash($o, $input, Some(&key_long)).unwrap();
                let case_l = || json!({"op":"GenericHash(longer Vec key)","K":$k,"O":$o,"keylen":klen,"input":hx($input),"key":hx(&key_long)});
                if let Some(r) = call($cx, "C07|GenericHash::hash(longer Vec key)", "GenericHash::hash", case_l,
                    || GenericHash::<$k, $o>::hash::<_, Vec<u8>, StackByteArray<$o>>($input, Some(&key_long))) {
                    match r { Ok(h) => { expect_eq($cx, "C07|GenericHash::hash|longer_vec_key|mismatch_vs_libsodium", h.as_slice(), &want_long, case_l); }
                              Err(e) => { $cx.violation("C07|GenericHash::hash|longer_vec_key|unexpected_err", json!({"err":e.to_string(),"K":$k,"O":$o,"keylen":klen})); } }
                }
                if let Some(r) = call($cx, "C07|GenericHash::hash_to_vec(longer Vec key)", "GenericHash::hash_to_vec", case_l,
                    || GenericHash::<$k, $o>::hash_to_vec::<_, Vec<u8>>(&$input.to_vec(), Some(&key_long))) {
                    match r { Ok(h) => { expect_eq($cx, "C07|GenericHash::hash_to_vec|longer_vec_key|mismatch_vs_libsodium", &h, &want_long, case_l); }
                              Err(e) => { $cx.violation("C07|GenericHash::hash_to_vec|longer_vec_key|unexpected_err", json!({"err":e.to_string(),"K":$k,"O":$o,"keylen":klen})); } }
                }
                if let Some(r) = call($cx, "C07|GenericHash::new(longer Vec key)+update+finalize", "GenericHash::finalize", case_l, || {
                    let mut h = GenericHash::<$k, $o>::new(Some(&key_long))?;
                    h.update($input);
                    h.finalize::<[u8; $o]>()
                }) {
                    match r { Ok(h) => { expect_eq($cx, "C07|GenericHash::finalize|longer_vec_key|mismatch_vs_libsodium", &h, &want_long, case_l); }
                              Err(e) => { $cx.violation("C07|GenericHash::finalize|longer_vec_key|unexpected_err", json!({"err":e.to_string(),"K":$k,"O":$o,"keylen":klen})); } }
                }
                $cx.cover("generichash_object_longer_vec_key", &format!("K{}len{}", $k, klen));
            }
            $cx.cover("generichash_object_params", &format!("K{}O{}", $k, $o));
        }
        )*
    }};
}

pub fn run(cx: &mut Ctx) {
    let maxlen = cx.tier.pick(200usize, 1100, 1100);
    let reps = cx.tier.pick(1usize, 1, 40);
    let mut idx = 0u64;

    // ---------------------------------------------------------------- length sweep
    for len in 0..=maxlen {
        for class in CONTENTS {
            for rep in 0..reps {
                idx += 1;
                if !cx.mine(idx) {
                    continue;
                }
                if class != "random" && rep > 0 {
                    continue;
                }
                let mut rng = cx.rng.fork(idx);
                // the input is a sub-slice starting at a varying offset 0..7 of its allocation: code that reads whole
                // words must cope with any alignment of the caller's data
                let off = (len + rep + class.len()) % 8;
                let backing: Vec<u8> = {
                    let mut b = vec![0x5Au8; off];
                    b.extend_from_slice(&content(&mut rng, class, len));
                    b
                };
                let input: &[u8] = &backing[off..];
                cx.cover("input_alignment_mod8", &format!("{}", (input.as_ptr() as usize) % 8));
                let kclass = *rng.pick(&["random", "random", "zeros", "ff"]);
                let key64 = content(&mut rng, kclass, 64);
                let key32: [u8; 32] = key64[..32].try_into().unwrap();
                let key16: [u8; 16] = key64[..16].try_into().unwrap();
                cx.key(&format!("len={} class={} rep={} k={}", len, class, rep, kclass));
                cx.cover("len_mod128", &format!("{}", len % 128));
                cx.cover("len_mod16", &format!("{}", len % 16));
                cx.cover("len_mod8", &format!("{}", len % 8));
                cx.cover("content", class);
                if len == 77 {
                    cx.sample(json!({"family":"length_sweep","len":len,"class":class,"key_class":kclass}));
                }
                let base = json!({"len":len,"class":class,"input":hx(&input[..input.len().min(64)]),"key":hx(&key64)});

                // BLAKE2b one-shot: default 32/none, 32/32, 64/64, 16/16 and a random (out,key) pair
                let ol = rng.range(16, 64);
                let kl = rng.range(16, 64);
                for (o, k) in [(32usize, 0usize), (32, 32), (64, 64), (16, 16), (ol, kl), (ol, 0)] {
                    let key = if k == 0 { None } else { Some(&key64[..k]) };
                    let want = na::generichash(o, &input, key).unwrap();
                    let mut out = stale(o);
                    let c = || json!({"op":"crypto_generichash","outlen":o,"keylen":k,"case":base});
                    if let Some(r) = call(cx, "C07|crypto_generichash", "crypto_generichash", c, || crypto_generichash(&mut out, &input, key)) {
                        if r.is_err() {
                            cx.violation("C07|crypto_generichash|unexpected_err", c());
                        } else {
                            expect_eq(cx, "C07|crypto_generichash|mismatch_vs_libsodium", &out, &want, c);
                        }
                    }
                    if rng.chance(1, 40) || len % 128 <= 1 && class == "random" && rep == 0 && o == 32 {
                        cx.io("blake2b", json!({"in":hx(&input),"key":key.map(hx),"outlen":o,"out":hx(&out)}));
                    }
                }

                // SHA-512
                {
                    let want = na::sha512(&input);
                    let mut out = stale_arr::<64>();
                    let c = || json!({"op":"crypto_hash_sha512","case":base});
                    if call(cx, "C07|crypto_hash_sha512", "crypto_hash_sha512", c, || crypto_hash_sha512(&mut out, &input)).is_some() {
                        expect_eq(cx, "C07|crypto_hash_sha512|mismatch_vs_libsodium", &out, &want, c);
                    }
                    if let Some(v) = call(cx, "C07|Sha512::compute_to_vec", "Sha512::compute_to_vec", c, || Sha512::compute_to_vec(&input)) {
                        expect_eq(cx, "C07|Sha512::compute_to_vec|mismatch_vs_libsodium", &v, &want, c);
                    }
                    if rng.chance(1, 40) {
                        cx.io("sha512", json!({"in":hx(&input),"out":hx(&out)}));
                    }
                }

                // HMAC-SHA-512-256
                {
                    let want = na::auth(&input, &key32);
                    let mut out = stale_arr::<32>();
                    let c = || json!({"op":"crypto_auth","case":base});
                    if call(cx, "C07|crypto_auth", "crypto_auth", c, || crypto_auth(&mut out, &input, &key32)).is_some() {
                        expect_eq(cx, "C07|crypto_auth|mismatch_vs_libsodium", &out, &want, c);
                    }
                    if let Some(v) = call(cx, "C07|Auth::compute", "Auth::compute", c, || Auth::compute::<_, _, StackByteArray<32>>(key32, &input)) {
                        expect_eq(cx, "C07|Auth::compute|mismatch_vs_libsodium", v.as_slice(), &want, c);
                    }
                    if rng.chance(1, 40) {
                        cx.io("hmacsha512256", json!({"in":hx(&input),"key":hx(&key32),"out":hx(&out)}));
                    }
                    // verify: accepts the right one ...
                    if let Some(r) = call(cx, "C07|crypto_auth_verify", "crypto_auth_verify", c, || crypto_auth_verify(&want, &input, &key32)) {
                        expect(cx, "C07|crypto_auth_verify|rejects_correct_mac", r.is_ok(), c);
                    }
                    // ... rejects flips (all 256 bits on a subset of lengths, 8 random bits elsewhere)
                    let all = len % 37 == 0;
                    let nflip = if all { 256 } else { 8 };
                    for j in 0..nflip {
                        let bit = if all { j } else { rng.below(256) };
                        let mut bad = want;
                        bad[bit / 8] ^= 1 << (bit % 8);
                        if let Some(r) = call(cx, "C07|crypto_auth_verify", "crypto_auth_verify", c, || crypto_auth_verify(&bad, &input, &key32)) {
                            expect(cx, "C07|crypto_auth_verify|accepts_wrong_mac", r.is_err(), || json!({"bit":bit,"case":base}));
                        }
                    }
                    let bad: [u8; 32] = rng.arr();
                    if let Some(r) = call(cx, "C07|Auth::compute_and_verify", "Auth::compute_and_verify", c, || Auth::compute_and_verify(&bad, key32, &input)) {
                        expect(cx, "C07|Auth::compute_and_verify|accepts_wrong_mac", r.is_err(), c);
                    }
                    if let Some(r) = call(cx, "C07|Auth::compute_and_verify", "Auth::compute_and_verify", c, || Auth::compute_and_verify(&want, key32, &input)) {
                        expect(cx, "C07|Auth::compute_and_verify|rejects_correct_mac", r.is_ok(), c);
                    }
                    if let Some(r) = call(cx, "C07|Auth::verify", "Auth::verify", c, || {
                        let mut a = Auth::new(key32);
                        a.update(&input);
                        a.verify(&want)
                    }) {
                        expect(cx, "C07|Auth::verify|rejects_correct_mac", r.is_ok(), c);
                    }
                    let mut bad = want;
                    bad[rng.below(32)] ^= 1 << rng.below(8);
                    if let Some(r) = call(cx, "C07|Auth::verify", "Auth::verify", c, || {
                        let mut a = Auth::new(key32);
                        a.update(&input);
                        a.verify(&bad)
                    }) {
                        expect(cx, "C07|Auth::verify|accepts_wrong_mac", r.is_err(), c);
                    }
                }

                // Poly1305
                poly_case(cx, &mut rng, &input, &key32, "sweep", len % 41 == 0);

                // SipHash-2-4
                {
                    let want = na::shorthash(&input, &key16);
                    let mut out = stale_arr::<8>();
                    let c = || json!({"op":"crypto_shorthash","case":base});
                    if call(cx, "C07|crypto_shorthash", "crypto_shorthash", c, || crypto_shorthash(&mut out, &input, &key16)).is_some() {
                        expect_eq(cx, "C07|crypto_shorthash|mismatch_vs_libsodium", &out, &want, c);
                    }
                    if rng.chance(1, 40) {
                        cx.io("siphash24", json!({"in":hx(&input),"key":hx(&key16),"out":hx(&out)}));
                    }
                }

                // object-API BLAKE2b grid on a subset of lengths (const parameters)
                if len <= 2 || (len % 128 >= 126 || len % 128 <= 1) || len % 97 == 0 {
                    gh_grid!(cx, &input[..], key64,
                        (16, 16), (16, 64), (32, 32), (32, 64), (64, 16), (64, 64), (17, 33), (48, 20), (31, 63), (63, 31));
                }
            }
        }
    }

    // ------------------------------------------------- multi-KiB inputs (many blocks)
    let longs: &[usize] = match cx.tier {
        crate::ctx::Tier::Tiny => &[4096],
        crate::ctx::Tier::Quick => &[4095, 4096, 4097, 65535, 65536, 65537],
        crate::ctx::Tier::Thorough => &[4095, 4096, 4097, 65535, 65536, 65537, 1 << 20, (1 << 20) + 1, (4 << 20) + 127],
    };
    for &len in longs {
        for class in CONTENTS {
            idx += 1;
            if !cx.mine(idx) {
                continue;
            }
            let mut rng = cx.rng.fork(idx);
            let input = content(&mut rng, class, len);
            let key64 = rng.bytes(64);
            let key32: [u8; 32] = key64[..32].try_into().unwrap();
            cx.key(&format!("long {} {}", len, class));
            cx.cover("long_input_len", &format!("{}", len));
            let c = || json!({"family":"long_input","len":len,"class":class,"key":hx(&key64)});
            for (o, k) in [(32usize, 0usize), (64, 64)] {
                let key = if k == 0 { None } else { Some(&key64[..k]) };
                let mut out = stale(o);
                if let Some(Ok(())) = call(cx, "C07|crypto_generichash", "crypto_generichash", c, || crypto_generichash(&mut out, &input, key)) {
                    expect_eq(cx, "C07|crypto_generichash|mismatch_vs_libsodium", &out, &na::generichash(o, &input, key).unwrap(), c);
                    if len <= 65537 {
                        cx.io("blake2b", json!({"in":hx(&input),"key":key.map(hx),"outlen":o,"out":hx(&out)}));
                    }
                }
            }
            let mut d = stale_arr::<64>();
            if call(cx, "C07|crypto_hash_sha512", "crypto_hash_sha512", c, || crypto_hash_sha512(&mut d, &input)).is_some() {
                expect_eq(cx, "C07|crypto_hash_sha512|mismatch_vs_libsodium", &d, &na::sha512(&input), c);
            }
            let mut a = stale_arr::<32>();
            if call(cx, "C07|crypto_auth", "crypto_auth", c, || crypto_auth(&mut a, &input, &key32)).is_some() {
                expect_eq(cx, "C07|crypto_auth|mismatch_vs_libsodium", &a, &na::auth(&input, &key32), c);
            }
            let mut t = stale_arr::<16>();
            if call(cx, "C07|crypto_onetimeauth", "crypto_onetimeauth", c, || crypto_onetimeauth(&mut t, &input, &key32)).is_some() {
                expect_eq(cx, "C07|crypto_onetimeauth|mismatch_vs_libsodium", &t, &na::onetimeauth(&input, &key32), c);
                if len <= 65537 {
                    cx.io("poly1305", json!({"in":hx(&input),"key":hx(&key32),"out":hx(&t),"family":"long"}));
                }
            }
            let mut s8 = stale_arr::<8>();
            let k16: [u8; 16] = key64[..16].try_into().unwrap();
            if call(cx, "C07|crypto_shorthash", "crypto_shorthash", c, || crypto_shorthash(&mut s8, &input, &k16)).is_some() {
                expect_eq(cx, "C07|crypto_shorthash|mismatch_vs_libsodium", &s8, &na::shorthash(&input, &k16), c);
            }
        }
    }

    // ------------------------------------------------- every (digest, key) length pair
    for outlen in 16..=64usize {
        for keylen in std::iter::once(0usize).chain(16..=64) {
            idx += 1;
            if !cx.mine(idx) {
                continue;
            }
            let mut rng = cx.rng.fork(idx);
            let key64 = rng.bytes(64);
            cx.cover("digest_key_pairs", &format!("{}/{}", outlen, keylen));
            for len in [0usize, 1, 127, 128, 129, 256] {
                let input = rng.bytes(len);
                let key = if keylen == 0 { None } else { Some(&key64[..keylen]) };
                let want = na::generichash(outlen, &input, key).unwrap();
                let mut out = stale(outlen);
                let c = || json!({"op":"crypto_generichash","outlen":outlen,"keylen":keylen,"len":len,"input":hx(&input),"key":hx(&key64[..keylen])});
                cx.key(&format!("pair {} {} {}", outlen, keylen, len));
                if let Some(r) = call(cx, "C07|crypto_generichash", "crypto_generichash", c, || crypto_generichash(&mut out, &input, key)) {
                    if r.is_err() {
                        cx.violation("C07|crypto_generichash|unexpected_err", c());
                    } else {
                        expect_eq(cx, "C07|crypto_generichash|mismatch_vs_libsodium", &out, &want, c);
                    }
                }
                // init/update/final with the same parameters
                let mut out2 = stale(outlen);
                if let Some(r) = call(cx, "C07|crypto_generichash_init", "crypto_generichash_init", c, || {
                    let mut st = crypto_generichash_init(key, outlen)?;
                    crypto_generichash_update(&mut st, &input);
                    crypto_generichash_final(st, &mut out2)
                }) {
                    if r.is_err() {
                        cx.violation("C07|crypto_generichash_init|unexpected_err", c());
                    } else {
                        expect_eq(cx, "C07|crypto_generichash_final|mismatch_vs_libsodium", &out2, &want, c);
                    }
                }
                if len == 129 {
                    cx.io("blake2b", json!({"in":hx(&input),"key":key.map(hx),"outlen":outlen,"out":hx(&out)}));
                }
            }
        }
    }
    // out-of-range digest / key lengths are refused (libsodium refuses them as well)
    if cx.mine(0) {
        for outlen in [0usize, 1, 15, 65, 100] {
            let mut out = stale(outlen);
            let r = call(cx, "C07|crypto_generichash", "crypto_generichash", || json!({"outlen":outlen}), || crypto_generichash(&mut out, b"x", None));
            if let Some(r) = r {
                let na_ok = na::generichash(outlen, b"x", None).is_some();
                // libsodium accepts 1..=64 at the blake2b level but documents 16..=64; dryoc documents 16..=64
                if outlen == 0 || outlen > 64 {
                    expect(cx, "C07|crypto_generichash|accepts_invalid_outlen", r.is_err() && !na_ok, || json!({"outlen":outlen}));
                }
            }
        }
        for keylen in [1usize, 15, 65, 128] {
            let key = vec![7u8; keylen];
            let mut out = stale(32);
            if let Some(r) = call(cx, "C07|crypto_generichash", "crypto_generichash", || json!({"keylen":keylen}), || crypto_generichash(&mut out, b"x", Some(&key))) {
                if keylen > 64 {
                    expect(cx, "C07|crypto_generichash|accepts_invalid_keylen", r.is_err(), || json!({"keylen":keylen}));
                }
            }
        }
    }

    // ------------------------------------------------------- HSalsa20 / HChaCha20
    let ncore = cx.tier.pick(64usize, 4000, 1_000_000);
    for i in 0..ncore {
        idx += 1;
        if !cx.mine(idx) {
            continue;
        }
        let mut rng = cx.rng.fork(idx);
        let cls = ["random", "zeros", "ff"][i % 3.min(if i < 9 { 3 } else { 1 })];
        let input: [u8; 16] = content(&mut rng, cls, 16).try_into().unwrap();
        let key: [u8; 32] = content(&mut rng, if i % 5 == 0 { cls } else { "random" }, 32).try_into().unwrap();
        let cst: [u8; 16] = content(&mut rng, if i % 7 == 0 { "ff" } else { "random" }, 16).try_into().unwrap();
        cx.key(&format!("core {} {}", i, cls));
        for custom in [false, true] {
            let c = || json!({"op":"core","input":hx(&input),"key":hx(&key),"const": if custom {Some(hx(&cst))} else {None}});
            let want_s = na::hsalsa20(&input, &key, if custom { Some(&cst) } else { None });
            let want_c = na::hchacha20(&input, &key, if custom { Some(&cst) } else { None });
            let mut out = stale_arr::<32>();
            if call(cx, "C07|crypto_core_hsalsa20", "crypto_core_hsalsa20", c, || crypto_core_hsalsa20(&mut out, &input, &key, if custom { Some(c_of(&cst)) } else { None })).is_some() {
                expect_eq(cx, "C07|crypto_core_hsalsa20|mismatch_vs_libsodium", &out, &want_s, c);
            }
            if i % 50 == 0 {
                cx.io("hsalsa20", json!({"in":hx(&input),"key":hx(&key),"const": if custom {Some(hx(&cst))} else {None},"out":hx(&out)}));
            }
            let mut out = stale_arr::<32>();
            if call(cx, "C07|crypto_core_hchacha20", "crypto_core_hchacha20", c, || crypto_core_hchacha20(&mut out, &input, &key, if custom { Some(c_of(&cst)) } else { None })).is_some() {
                expect_eq(cx, "C07|crypto_core_hchacha20|mismatch_vs_libsodium", &out, &want_c, c);
            }
            if i % 50 == 0 {
                cx.io("hchacha20", json!({"in":hx(&input),"key":hx(&key),"const": if custom {Some(hx(&cst))} else {None},"out":hx(&out)}));
            }
            cx.cover("core_const", if custom { "custom" } else { "default" });
        }
    }

    // ------------------------------------------------------------- sodium_increment
    for len in 0..=64usize {
        idx += 1;
        if !cx.mine(idx) {
            continue;
        }
        let mut rng = cx.rng.fork(idx);
        // all-0xff prefixes of every length, plus random
        for pre in (0..=len).chain(std::iter::once(usize::MAX)) {
            let mut v = if pre == usize::MAX { rng.bytes(len) } else { let mut v = rng.bytes(len); for b in v.iter_mut().take(pre) { *b = 0xff; } v };
            let orig = v.clone();
            let mut want = v.clone();
            na::increment(&mut want);
            cx.key(&format!("inc {} {}", len, pre));
            let c = || json!({"op":"sodium_increment","in":hx(&orig)});
            if call(cx, "C07|sodium_increment", "sodium_increment", c, || sodium_increment(&mut v)).is_some() {
                expect_eq(cx, "C07|sodium_increment|mismatch_vs_libsodium", &v, &want, c);
            }
            if pre == len || pre == usize::MAX {
                cx.io("increment", json!({"in":hx(&orig),"out":hx(&v)}));
            }
        }
        // runs of 0xff that do not start at byte 0 (a carry must neither be invented nor lost across words)
        if len >= 2 {
            for start in 1..len {
                for (k, run) in [1usize, 7, 8, 9, 16].into_iter().enumerate() {
                    if start + run > len {
                        continue;
                    }
                    for low in [0x00u8, 0x01, 0xfe, 0xff] {
                        let mut v = vec![0u8; len];
                        for b in v.iter_mut().take(start) {
                            *b = low;
                        }
                        for b in v.iter_mut().skip(start).take(run) {
                            *b = 0xff;
                        }
                        let orig = v.clone();
                        let mut want = v.clone();
                        na::increment(&mut want);
                        let c = || json!({"op":"sodium_increment","in":hx(&orig)});
                        if call(cx, "C07|sodium_increment", "sodium_increment", c, || sodium_increment(&mut v)).is_some() {
                            expect_eq(cx, "C07|sodium_increment|mismatch_vs_libsodium", &v, &want, c);
                        }
                        if k == 2 && start % 8 == 0 && low == 0x01 {
                            cx.io("increment", json!({"in":hx(&orig),"out":hx(&v)}));
                        }
                    }
                }
            }
            cx.cover("increment_inner_ff_runs", &format!("{}", len));
        }
        cx.cover("increment_len", &format!("{}", len));
    }

    // --------------------------------------------- adversarial Poly1305 operands
    poly_adversarial(cx, &mut idx);
    structured_forgeries(cx, &mut idx);
}

fn poly_case(cx: &mut Ctx, rng: &mut crate::prng::Rng, input: &[u8], key: &[u8; 32], family: &str, all_flips: bool) {
    let want = na::onetimeauth(input, key);
    let mut out = stale_arr::<16>();
    let c = || json!({"op":"crypto_onetimeauth","family":family,"input":hx(input),"key":hx(key)});
    if call(cx, "C07|crypto_onetimeauth", "crypto_onetimeauth", c, || crypto_onetimeauth(&mut out, input, key)).is_some() {
        expect_eq(cx, "C07|crypto_onetimeauth|mismatch_vs_libsodium", &out, &want, c);
    }
    if let Some(v) = call(cx, "C07|OnetimeAuth::compute", "OnetimeAuth::compute", c, || OnetimeAuth::compute::<_, _, StackByteArray<16>>(*key, &input.to_vec())) {
        expect_eq(cx, "C07|OnetimeAuth::compute|mismatch_vs_libsodium", v.as_slice(), &want, c);
    }
    if family != "sweep" || rng.chance(1, 20) {
        cx.io("poly1305", json!({"in":hx(input),"key":hx(key),"out":hx(&out),"family":family}));
    }
    if let Some(r) = call(cx, "C07|crypto_onetimeauth_verify", "crypto_onetimeauth_verify", c, || crypto_onetimeauth_verify(&want, input, key)) {
        expect(cx, "C07|crypto_onetimeauth_verify|rejects_correct_mac", r.is_ok(), c);
    }
    let nflip = if all_flips { 128 } else { 6 };
    for j in 0..nflip {
        let bit = if all_flips { j } else { rng.below(128) };
        let mut bad = want;
        bad[bit / 8] ^= 1 << (bit % 8);
        if let Some(r) = call(cx, "C07|crypto_onetimeauth_verify", "crypto_onetimeauth_verify", c, || crypto_onetimeauth_verify(&bad, input, key)) {
            expect(cx, "C07|crypto_onetimeauth_verify|accepts_wrong_mac", r.is_err(), || json!({"bit":bit,"input":hx(input),"key":hx(key)}));
        }
    }
    let v = input.to_vec();
    if let Some(r) = call(cx, "C07|OnetimeAuth::verify", "OnetimeAuth::verify", c, || {
        let mut a = OnetimeAuth::new(*key);
        a.update(&v);
        a.verify(&want)
    }) {
        expect(cx, "C07|OnetimeAuth::verify|rejects_correct_mac", r.is_ok(), c);
    }
    let mut bad = want;
    bad[rng.below(16)] ^= 1 << rng.below(8);
    if let Some(r) = call(cx, "C07|OnetimeAuth::compute_and_verify", "OnetimeAuth::compute_and_verify", c, || OnetimeAuth::compute_and_verify(&bad, *key, &v)) {
        expect(cx, "C07|OnetimeAuth::compute_and_verify|accepts_wrong_mac", r.is_err(), c);
    }
}

/// "rejects every other value": besides single-bit flips, forged authenticators whose differences from the right one are
/// *structured*: the same mask at two positions (all pairs), at every 4th / 8th / 16th byte, in one half only, in every byte.
/// A comparison that folds words or lanes together (xor, and, or of halves) is wrong on some of these and right on all
/// single-bit flips.
fn structured_forgeries(cx: &mut Ctx, idx: &mut u64) {
    let nmsg = cx.tier.pick(1usize, 3, 12);
    for mi in 0..nmsg {
        *idx += 1;
        if !cx.mine(*idx) {
            continue;
        }
        let mut rng = cx.rng.fork(*idx);
        let key: [u8; 32] = rng.arr();
        let msg = rng.bytes([0usize, 1, 33, 200][mi % 4]);
        let mut t32 = [0u8; 32];
        crypto_auth(&mut t32, &msg, &key);
        let mut t16 = [0u8; 16];
        crypto_onetimeauth(&mut t16, &msg, &key);
        let masks = [0x01u8, 0x80, 0xff, 0x5a];
        // difference patterns as lists of byte positions
        let patterns = |n: usize| -> Vec<Vec<usize>> {
            let mut v: Vec<Vec<usize>> = Vec::new();
            for i in 0..n {
                for j in i + 1..n {
                    v.push(vec![i, j]);
                }
            }
            for step in [4usize, 8, 16] {
                for off in 0..step.min(n) {
                    let p: Vec<usize> = (off..n).step_by(step).collect();
                    if p.len() >= 2 {
                        v.push(p);
                    }
                }
            }
            v.push((0..n / 2).collect());
            v.push((n / 2..n).collect());
            v.push((0..n).collect());
            v
        };
        let msgv = msg.to_vec();
        for pat in patterns(32) {
            for mask in masks {
                let mut bad = t32;
                for &i in &pat {
                    bad[i] ^= mask;
                }
                cx.eval();
                let c = || json!({"family":"structured_forgery","positions":pat,"mask":mask,"msglen":msg.len()});
                if crypto_auth_verify(&bad, &msg, &key).is_ok() {
                    cx.violation("C07|crypto_auth_verify|accepts_wrong_mac|structured_difference", c());
                }
                if Auth::compute_and_verify(&bad, key, &msgv).is_ok() {
                    cx.violation("C07|Auth::compute_and_verify|accepts_wrong_mac|structured_difference", c());
                }
                let mut a = Auth::new(key);
                a.update(&msgv);
                if a.verify(&bad).is_ok() {
                    cx.violation("C07|Auth::verify|accepts_wrong_mac|structured_difference", c());
                }
            }
        }
        for pat in patterns(16) {
            for mask in masks {
                let mut bad = t16;
                for &i in &pat {
                    bad[i] ^= mask;
                }
                cx.eval();
                let c = || json!({"family":"structured_forgery","positions":pat,"mask":mask,"msglen":msg.len()});
                if crypto_onetimeauth_verify(&bad, &msg, &key).is_ok() {
                    cx.violation("C07|crypto_onetimeauth_verify|accepts_wrong_mac|structured_difference", c());
                }
                if OnetimeAuth::compute_and_verify(&bad, key, &msgv).is_ok() {
                    cx.violation("C07|OnetimeAuth::compute_and_verify|accepts_wrong_mac|structured_difference", c());
                }
                let mut a = OnetimeAuth::new(key);
                a.update(&msgv);
                if a.verify(&bad).is_ok() {
                    cx.violation("C07|OnetimeAuth::verify|accepts_wrong_mac|structured_difference", c());
                }
            }
        }
        cx.key(&format!("structured forgeries {}", mi));
        cx.cover("structured_forgeries", &format!("msglen={}", msg.len()));
    }
}

/// operands chosen for carry propagation in the 130-bit accumulator
fn poly_adversarial(cx: &mut Ctx, idx: &mut u64) {
    const RMAX: [u8; 16] = [0xff, 0xff, 0xff, 0x0f, 0xfc, 0xff, 0xff, 0x0f, 0xfc, 0xff, 0xff, 0x0f, 0xfc, 0xff, 0xff, 0x0f];
    let mut r_one = [0u8; 16];
    r_one[0] = 1;
    let mut r_two = [0u8; 16];
    r_two[0] = 2;
    let rs: Vec<(&str, [u8; 16])> = vec![("r=0", [0u8; 16]), ("r=1", r_one), ("r=2", r_two), ("r=max", RMAX), ("r=ff(unclamped)", [0xff; 16])];
    let ss: Vec<(&str, [u8; 16])> = vec![("s=0", [0u8; 16]), ("s=2^128-1", [0xff; 16])];

    // (a) with r = 1 the accumulator before the final reduction is sum(m_i + 2^128):
    //     three blocks with m1+m2+m3 = 2^128 - 6 + d land it on p-1+d, d = -8..=16 (p-9 .. 2^130+10)
    for d in -8i64..=16 {
        for (sn, s) in &ss {
            *idx += 1;
            if !cx.mine(*idx) {
                continue;
            }
            let m1: u128 = 1u128 << 127;
            let m2: u128 = (1u128 << 127).wrapping_add((d - 6) as i128 as u128);
            let mut msg = Vec::new();
            msg.extend_from_slice(&m1.to_le_bytes());
            msg.extend_from_slice(&m2.to_le_bytes());
            msg.extend_from_slice(&0u128.to_le_bytes());
            let mut key = [0u8; 32];
            key[..16].copy_from_slice(&r_one);
            key[16..].copy_from_slice(s);
            let mut rng = cx.rng.fork(*idx);
            cx.key(&format!("poly acc p-1{:+} {}", d, sn));
            cx.cover("poly_accumulator_target", &format!("p-1{:+}", d));
            if d == 0 {
                cx.sample(json!({"family":"poly1305_accumulator","target":"p-1","key":hx(&key),"msg":hx(&msg)}));
            }
            poly_case(cx, &mut rng, &msg, &key, "acc_near_p", true);
            // same total split differently: (2^128-1) + (d-dependent) + partial final block
            let m1: u128 = u128::MAX;
            let m2: u128 = (d + 11) as u128; // two-block operand family: m1 + m2 = 2^128 + d + 10
            let mut msg2 = Vec::new();
            msg2.extend_from_slice(&m1.to_le_bytes());
            msg2.extend_from_slice(&m2.to_le_bytes());
            poly_case(cx, &mut rng, &msg2, &key, "acc_two_blocks", false);
        }
    }
    // (b) all-0xff blocks, 1..=64 blocks, every r/s special, and final partial blocks 1..=15 of 0xff
    for nblocks in 0..=64usize {
        for (rn, r) in &rs {
            for (sn, s) in &ss {
                *idx += 1;
                if !cx.mine(*idx) {
                    continue;
                }
                let mut key = [0u8; 32];
                key[..16].copy_from_slice(r);
                key[16..].copy_from_slice(s);
                let mut rng = cx.rng.fork(*idx);
                let tail = if nblocks % 4 == 0 { vec![0usize, 1, 2, 3, 4, 5, 6, 7, 8, 9, 10, 11, 12, 13, 14, 15] } else { vec![0, rng.range(1, 15)] };
                for t in tail {
                    let msg = vec![0xffu8; nblocks * 16 + t];
                    cx.key(&format!("poly ff {} {} {} {}", nblocks, t, rn, sn));
                    cx.cover("poly_ff_blocks", &format!("{}", nblocks));
                    cx.cover("poly_ff_tail", &format!("{}", t));
                    cx.cover("poly_r", rn);
                    cx.cover("poly_s", sn);
                    poly_case(cx, &mut rng, &msg, &key, "all_ff", false);
                }
            }
        }
    }
    // (c) random keys with r clamped max and random messages (several blocks)
    let n = cx.tier.pick(20usize, 2000, 1_000_000);
    for i in 0..n {
        *idx += 1;
        if !cx.mine(*idx) {
            continue;
        }
        let mut rng = cx.rng.fork(*idx);
        let mut key: [u8; 32] = rng.arr();
        if i % 2 == 0 {
            key[..16].copy_from_slice(&RMAX);
        }
        if i % 3 == 0 {
            key[16..].copy_from_slice(&[0xff; 16]);
        }
        let len = rng.range(0, 200);
        let mut msg = rng.bytes(len);
        if i % 4 == 0 {
            for b in msg.iter_mut() {
                if rng.chance(3, 4) {
                    *b = 0xff;
                }
            }
        }
        cx.key(&format!("poly rnd {}", i));
        poly_case(cx, &mut rng, &msg, &key, "random_special_key", false);
    }
}
