//! C08 — incremental hash / MAC / signing equals the one-shot result for any chunking.
//! Exhaustive 2-way and 3-way splits of every length up to a bound, plus random k-way partitions.

use dryoc::auth::Auth;
use dryoc::classic::crypto_auth::*;
use dryoc::classic::crypto_generichash::*;
use dryoc::classic::crypto_hash::*;
use dryoc::classic::crypto_onetimeauth::*;
use dryoc::classic::crypto_sign::*;
use dryoc::generichash::GenericHash;
use dryoc::onetimeauth::OnetimeAuth;
use dryoc::sha512::Sha512;
use dryoc::sign::IncrementalSigner;
use dryoc::types::*;
use serde_json::json;

use super::*;
use crate::ctx::{hx, Ctx};
#[cfg(feature = "sodium")]
use crate::sodium as na;

pub struct Keys {
    k32: [u8; 32],
    k64: [u8; 64],
    sk: [u8; 64],
    pk: [u8; 32],
}

type Chunked = fn(&[&[u8]], &Keys) -> Vec<u8>;
type OneShot = fn(&[u8], &Keys) -> Vec<u8>;

pub struct Iface {
    name: &'static str,
    block: usize,
    costly: bool,
    chunked: Chunked,
    oneshot: OneShot,
    reference: Option<OneShot>,
}

fn gh_classic_keyed(p: &[&[u8]], k: &Keys) -> Vec<u8> {
    let mut st = crypto_generichash_init(Some(&k.k32), 32).unwrap();
    for c in p {
        crypto_generichash_update(&mut st, c);
    }
    let mut out = stale(32);
    crypto_generichash_final(st, &mut out).unwrap();
    out
}
fn gh_classic_keyed_1(m: &[u8], k: &Keys) -> Vec<u8> {
    let mut out = stale(32);
    crypto_generichash(&mut out, m, Some(&k.k32)).unwrap();
    out
}
fn gh_classic_plain(p: &[&[u8]], _k: &Keys) -> Vec<u8> {
    let mut st = crypto_generichash_init(None, 64).unwrap();
    for c in p {
        crypto_generichash_update(&mut st, c);
    }
    let mut out = stale(64);
    crypto_generichash_final(st, &mut out).unwrap();
    out
}
fn gh_classic_plain_1(m: &[u8], _k: &Keys) -> Vec<u8> {
    let mut out = stale(64);
    crypto_generichash(&mut out, m, None).unwrap();
    out
}
fn gh_object(p: &[&[u8]], k: &Keys) -> Vec<u8> {
    let mut h = GenericHash::<64, 48>::new(Some(&k.k64)).unwrap();
    for c in p {
        h.update(*c);
    }
    h.finalize_to_vec().unwrap()
}
fn gh_object_1(m: &[u8], k: &Keys) -> Vec<u8> {
    GenericHash::<64, 48>::hash_to_vec(&m.to_vec(), Some(&k.k64)).unwrap()
}
fn auth_classic(p: &[&[u8]], k: &Keys) -> Vec<u8> {
    let mut st = crypto_auth_init(&k.k32);
    for c in p {
        crypto_auth_update(&mut st, c);
    }
    let mut out = stale_arr::<32>();
    crypto_auth_final(st, &mut out);
    out.to_vec()
}
fn auth_1(m: &[u8], k: &Keys) -> Vec<u8> {
    let mut out = stale_arr::<32>();
    crypto_auth(&mut out, m, &k.k32);
    out.to_vec()
}
fn auth_object(p: &[&[u8]], k: &Keys) -> Vec<u8> {
    let mut a = Auth::new(k.k32);
    for c in p {
        a.update(c);
    }
    a.finalize_to_vec()
}
fn ota_classic(p: &[&[u8]], k: &Keys) -> Vec<u8> {
    let mut st = crypto_onetimeauth_init(&k.k32);
    for c in p {
        crypto_onetimeauth_update(&mut st, c);
    }
    let mut out = stale_arr::<16>();
    crypto_onetimeauth_final(st, &mut out);
    out.to_vec()
}
fn ota_1(m: &[u8], k: &Keys) -> Vec<u8> {
    let mut out = stale_arr::<16>();
    crypto_onetimeauth(&mut out, m, &k.k32);
    out.to_vec()
}
fn ota_object(p: &[&[u8]], k: &Keys) -> Vec<u8> {
    let mut a = OnetimeAuth::new(k.k32);
    for c in p {
        a.update(c);
    }
    a.finalize_to_vec()
}
fn sha_classic(p: &[&[u8]], _k: &Keys) -> Vec<u8> {
    let mut st = crypto_hash_sha512_init();
    for c in p {
        crypto_hash_sha512_update(&mut st, c);
    }
    let mut out = stale_arr::<64>();
    crypto_hash_sha512_final(st, &mut out);
    out.to_vec()
}
fn sha_1(m: &[u8], _k: &Keys) -> Vec<u8> {
    let mut out = stale_arr::<64>();
    crypto_hash_sha512(&mut out, m);
    out.to_vec()
}
fn sha_object(p: &[&[u8]], _k: &Keys) -> Vec<u8> {
    let mut h = Sha512::new();
    for c in p {
        h.update(*c);
    }
    h.finalize_to_vec()
}
/// signature bytes followed by one byte: 1 if the chunked verification stream accepted it
fn sign_classic(p: &[&[u8]], k: &Keys) -> Vec<u8> {
    let mut st = crypto_sign_init();
    for c in p {
        crypto_sign_update(&mut st, c);
    }
    let mut sig = stale_arr::<64>();
    crypto_sign_final_create(st, &mut sig, &k.sk).unwrap();
    let mut st = crypto_sign_init();
    for c in p {
        crypto_sign_update(&mut st, c);
    }
    let ok = crypto_sign_final_verify(st, &sig, &k.pk).is_ok();
    let mut v = sig.to_vec();
    v.push(ok as u8);
    v
}
fn sign_1(m: &[u8], k: &Keys) -> Vec<u8> {
    sign_classic(&[m], k)
}
fn sign_object(p: &[&[u8]], k: &Keys) -> Vec<u8> {
    let mut s = IncrementalSigner::new();
    for c in p {
        s.update(c);
    }
    let sig: [u8; 64] = s.finalize(&k.sk).unwrap();
    let mut s = IncrementalSigner::new();
    for c in p {
        s.update(c);
    }
    let ok = s.verify(&sig, &k.pk).is_ok();
    let mut v = sig.to_vec();
    v.push(ok as u8);
    v
}

#[cfg(feature = "sodium")]
mod refs {
    use super::*;
    pub fn gh_keyed(m: &[u8], k: &Keys) -> Vec<u8> {
        na::generichash(32, m, Some(&k.k32)).unwrap()
    }
    pub fn gh_plain(m: &[u8], _k: &Keys) -> Vec<u8> {
        na::generichash(64, m, None).unwrap()
    }
    pub fn gh_obj(m: &[u8], k: &Keys) -> Vec<u8> {
        na::generichash(48, m, Some(&k.k64)).unwrap()
    }
    pub fn auth(m: &[u8], k: &Keys) -> Vec<u8> {
        na::auth(m, &k.k32).to_vec()
    }
    pub fn ota(m: &[u8], k: &Keys) -> Vec<u8> {
        na::onetimeauth(m, &k.k32).to_vec()
    }
    pub fn sha(m: &[u8], _k: &Keys) -> Vec<u8> {
        na::sha512(m).to_vec()
    }
    pub fn sign(m: &[u8], k: &Keys) -> Vec<u8> {
        let mut v = na::sign_ph_create(m, &k.sk).to_vec();
        v.push(1);
        v
    }
}

macro_rules! r {
    ($f:path) => {{
        #[cfg(feature = "sodium")]
        {
            Some($f as OneShot)
        }
        #[cfg(not(feature = "sodium"))]
        {
            None
        }
    }};
}

fn ifaces() -> Vec<Iface> {
    vec![
        Iface { name: "crypto_generichash(keyed32)", block: 128, costly: false, chunked: gh_classic_keyed, oneshot: gh_classic_keyed_1, reference: r!(refs::gh_keyed) },
        Iface { name: "crypto_generichash(plain64)", block: 128, costly: false, chunked: gh_classic_plain, oneshot: gh_classic_plain_1, reference: r!(refs::gh_plain) },
        Iface { name: "GenericHash<64,48>", block: 128, costly: false, chunked: gh_object, oneshot: gh_object_1, reference: r!(refs::gh_obj) },
        Iface { name: "crypto_auth", block: 128, costly: false, chunked: auth_classic, oneshot: auth_1, reference: r!(refs::auth) },
        Iface { name: "Auth", block: 128, costly: false, chunked: auth_object, oneshot: auth_1, reference: r!(refs::auth) },
        Iface { name: "crypto_onetimeauth", block: 16, costly: false, chunked: ota_classic, oneshot: ota_1, reference: r!(refs::ota) },
        Iface { name: "OnetimeAuth", block: 16, costly: false, chunked: ota_object, oneshot: ota_1, reference: r!(refs::ota) },
        Iface { name: "crypto_hash_sha512", block: 128, costly: false, chunked: sha_classic, oneshot: sha_1, reference: r!(refs::sha) },
        Iface { name: "Sha512", block: 128, costly: false, chunked: sha_object, oneshot: sha_1, reference: r!(refs::sha) },
        Iface { name: "crypto_sign(ph)", block: 128, costly: true, chunked: sign_classic, oneshot: sign_1, reference: r!(refs::sign) },
        Iface { name: "IncrementalSigner", block: 128, costly: true, chunked: sign_object, oneshot: sign_1, reference: r!(refs::sign) },
    ]
}

fn piece_class(fill: usize, piece: usize, block: usize) -> &'static str {
    let room = block - fill;
    if piece == 0 {
        "empty"
    } else if piece < room {
        "<room"
    } else if piece == room {
        "=room"
    } else if (piece - room) % block == 0 {
        ">room,ends_on_block"
    } else {
        ">room"
    }
}

fn record_cov(cx: &mut Ctx, ifc: &Iface, parts: &[&[u8]]) {
    let mut off = 0usize;
    for p in parts {
        let fill = off % ifc.block;
        let key = format!("{}:{}", fill, piece_class(fill, p.len(), ifc.block));
        cx.cover(&format!("fill_x_piece[{}]", ifc.block), &key);
        off += p.len();
    }
}

fn check_partition(cx: &mut Ctx, ifc: &Iface, keys: &Keys, msg: &[u8], parts: &[&[u8]], want: &[u8], cov: bool) {
    if cov {
        record_cov(cx, ifc, parts);
    }
    let lens: Vec<usize> = parts.iter().map(|p| p.len()).collect();
    let case = || json!({"iface":ifc.name,"len":msg.len(),"pieces":lens,"msg":hx(&msg[..msg.len().min(64)]),"k32":hx(&keys.k32)});
    let sig = format!("C08|{}", ifc.name);
    if let Some(got) = call(cx, &sig, ifc.name, case, || (ifc.chunked)(parts, keys)) {
        expect_eq(cx, &format!("{}|chunked_differs_from_oneshot", sig), &got, want, case);
    }
}

/// Poly1305 with operands chosen for carry propagation (r = 1, 2, max, unclamped 0xff; all-0xff and crafted limb-edge
/// messages), fed in every 2-way split and in 3-way splits around the block boundaries: the accumulator is saved and
/// reloaded between update calls, which is where a lazily reduced limb can lose a bit
fn poly_adversarial_chunked(cx: &mut Ctx, keys: &Keys, idx: &mut u64) {
    const RMAX: [u8; 16] = [0xff, 0xff, 0xff, 0x0f, 0xfc, 0xff, 0xff, 0x0f, 0xfc, 0xff, 0xff, 0x0f, 0xfc, 0xff, 0xff, 0x0f];
    let mut r1 = [0u8; 16];
    r1[0] = 1;
    let mut r2 = [0u8; 16];
    r2[0] = 2;
    let rs: [(&str, [u8; 16]); 4] = [("r=1", r1), ("r=2", r2), ("r=max", RMAX), ("r=ff", [0xff; 16])];
    let ifs: Vec<Iface> = ifaces().into_iter().filter(|i| i.name == "crypto_onetimeauth" || i.name == "OnetimeAuth").collect();
    let maxlen = cx.tier.pick(40usize, 100, 300);
    for (rn, r) in rs {
        for s_ff in [false, true] {
            let mut k32 = [0u8; 32];
            k32[..16].copy_from_slice(&r);
            if s_ff {
                k32[16..].copy_from_slice(&[0xff; 16]);
            }
            let k = Keys { k32, k64: keys.k64, sk: keys.sk, pk: keys.pk };
            for n in 1..=maxlen {
                *idx += 1;
                if !cx.mine(*idx) {
                    continue;
                }
                let mut rng = cx.rng.fork(*idx);
                // all-0xff, and (whole blocks only) a message crafted to put the accumulator on a limb edge mid-way
                let mut msgs: Vec<(Vec<u8>, &str)> = vec![(vec![0xffu8; n], "all_ff")];
                if n >= 32 && n % 16 == 0 && rn != "r=ff" {
                    if let Some((mut ct, _)) = super::polyedge::craft_ciphertext(&r, n - 16, 5 + n / 16, &mut rng) {
                        ct.extend_from_slice(&rng.bytes(16));
                        msgs.push((ct, "limb_edge_before_last_block"));
                    }
                }
                for (msg, fam) in msgs {
                    for ifc in &ifs {
                        let case = || json!({"iface":ifc.name,"len":n,"r":rn,"family":fam});
                        let Some(one) = call(cx, &format!("C08|{}", ifc.name), ifc.name, case, || (ifc.oneshot)(&msg, &k)) else { continue };
                        if let Some(rf) = ifc.reference {
                            let w = rf(&msg, &k);
                            expect_eq(cx, &format!("C08|{}|oneshot_differs_from_libsodium", ifc.name), &one, &w, case);
                        }
                        for a in 0..=n {
                            check_partition(cx, ifc, &k, &msg, &[&msg[..a], &msg[a..]], &one, false);
                        }
                        for a in (0..=n).step_by(16) {
                            for b in [a, a + 1, a + 15, a + 16, a + 17, a + 32] {
                                if b <= n {
                                    check_partition(cx, ifc, &k, &msg, &[&msg[..a], &msg[a..b], &msg[b..b], &msg[b..]], &one, false);
                                }
                            }
                        }
                    }
                    cx.cover("poly_adversarial_chunked", &format!("{}|{}", rn, fam));
                }
                cx.key(&format!("poly adv chunked {} {} {}", rn, s_ff, n));
            }
        }
    }
}

/// the incremental interface must agree with the one-shot function across *parameters* too, not only across
/// partitions: key lengths and digest lengths (accepted and refused ones alike), and, for the verifying forms,
/// authenticators handed over in every container the API accepts (array, exact Vec, a Vec longer than the MAC)
fn param_agreement(cx: &mut Ctx, keys: &Keys, idx: &mut u64) {
    let klens: [Option<usize>; 13] = [None, Some(0), Some(1), Some(15), Some(16), Some(17), Some(31), Some(32), Some(33), Some(63), Some(64), Some(65), Some(128)];
    let olens = [0usize, 1, 15, 16, 17, 32, 33, 63, 64, 65];
    let mlens = [0usize, 1, 127, 128, 129, 300];
    for kl in klens {
        for ol in olens {
            *idx += 1;
            if !cx.mine(*idx) {
                continue;
            }
            let mut rng = cx.rng.fork(*idx);
            let key = kl.map(|n| rng.bytes(n));
            for ml in mlens {
                let msg = rng.bytes(ml);
                let cut = rng.range(0, ml);
                let case = || json!({"iface":"crypto_generichash","keylen":kl,"outlen":ol,"len":ml,"cut":cut});
                let one = call(cx, "C08|crypto_generichash(params)", "crypto_generichash", case, || {
                    let mut out = stale(ol);
                    crypto_generichash(&mut out, &msg, key.as_deref()).map(|_| out).map_err(|e| e.to_string())
                });
                let inc = call(cx, "C08|crypto_generichash(params)", "crypto_generichash_init/update/final", case, || {
                    let mut st = crypto_generichash_init(key.as_deref(), ol).map_err(|e| e.to_string())?;
                    crypto_generichash_update(&mut st, &msg[..cut]);
                    crypto_generichash_update(&mut st, &msg[cut..]);
                    let mut out = stale(ol);
                    crypto_generichash_final(st, &mut out).map(|_| out).map_err(|e| e.to_string())
                });
                let (Some(one), Some(inc)) = (one, inc) else { continue };
                cx.eval();
                match (&one, &inc) {
                    (Ok(a), Ok(b)) if a == b => cx.cover("generichash_params", "both_accept_equal"),
                    (Err(_), Err(_)) => cx.cover("generichash_params", "both_refuse"),
                    _ => cx.violation(
                        &format!("C08|crypto_generichash|incremental_and_oneshot_disagree|{}", if one.is_ok() != inc.is_ok() { "one_refuses" } else { "digests_differ" }),
                        json!({"oneshot":one.as_ref().map(|v| hx(v)).map_err(|e| e.clone()),"incremental":inc.as_ref().map(|v| hx(v)).map_err(|e| e.clone()),"case":case()}),
                    ),
                }
            }
            cx.key(&format!("gh params {:?} {}", kl, ol));
        }
    }
    // verifying forms: containers
    for ml in [0usize, 1, 15, 16, 17, 64, 127, 128, 129, 1000] {
        *idx += 1;
        if !cx.mine(*idx) {
            continue;
        }
        let mut rng = cx.rng.fork(*idx);
        let msg = rng.bytes(ml);
        let cut = rng.range(0, ml);
        let mut mac32 = stale_arr::<32>();
        crypto_auth(&mut mac32, &msg, &keys.k32);
        let mut mac16 = stale_arr::<16>();
        crypto_onetimeauth(&mut mac16, &msg, &keys.k32);
        for wrong in [false, true] {
            let mut m32 = mac32;
            let mut m16 = mac16;
            if wrong {
                m32[rng.below(32)] ^= 1 << rng.below(8);
                m16[rng.below(16)] ^= 1 << rng.below(8);
            }
            for extra in [0usize, 1, 16, 48] {
                let mut v32 = m32.to_vec();
                v32.extend(rng.bytes(extra));
                let mut v16 = m16.to_vec();
                v16.extend(rng.bytes(extra));
                let case = || json!({"len":ml,"cut":cut,"wrong_mac":wrong,"container":format!("Vec of MAC length + {}", extra)});
                let a1 = call(cx, "C08|Auth(verify containers)", "Auth::compute_and_verify", case, || Auth::compute_and_verify(&v32, keys.k32, &msg).is_ok());
                let a2 = call(cx, "C08|Auth(verify containers)", "Auth::verify", case, || {
                    let mut a = Auth::new(keys.k32);
                    a.update(&msg[..cut].to_vec());
                    a.update(&msg[cut..].to_vec());
                    a.verify(&v32).is_ok()
                });
                let o1 = call(cx, "C08|OnetimeAuth(verify containers)", "OnetimeAuth::compute_and_verify", case, || OnetimeAuth::compute_and_verify(&v16, keys.k32, &msg).is_ok());
                let o2 = call(cx, "C08|OnetimeAuth(verify containers)", "OnetimeAuth::verify", case, || {
                    let mut a = OnetimeAuth::new(keys.k32);
                    a.update(&msg[..cut].to_vec());
                    a.update(&msg[cut..].to_vec());
                    a.verify(&v16).is_ok()
                });
                for (name, one, inc) in [("Auth", a1, a2), ("OnetimeAuth", o1, o2)] {
                    let (Some(one), Some(inc)) = (one, inc) else { continue };
                    cx.eval();
                    if one != inc {
                        cx.violation(&format!("C08|{}::verify|incremental_decision_differs_from_oneshot|{}", name, if extra == 0 { "exact_length_container" } else { "longer_container" }), json!({"oneshot_accepts":one,"incremental_accepts":inc,"case":case()}));
                    }
                    if one == wrong {
                        cx.violation(&format!("C08|{}::compute_and_verify|wrong_decision", name), case());
                    }
                    cx.cover("verify_container", &format!("{}|+{}|{}", name, extra, if wrong { "wrong" } else { "right" }));
                }
            }
        }
        cx.key(&format!("verify containers {}", ml));
    }
}

pub fn run(cx: &mut Ctx) {
    let (l2, l3, l2s, l3s) = match cx.tier {
        crate::ctx::Tier::Tiny => (132usize, 9usize, 4usize, 2usize),
        crate::ctx::Tier::Quick => (400, 140, 150, 30),
        crate::ctx::Tier::Thorough => (1100, 420, 500, 90),
    };
    let ifs = ifaces();
    // fixed key material per run (seeded), fixed message per length
    let mut krng = crate::prng::Rng::new(cx.seed, 0xC08);
    let k32: [u8; 32] = krng.arr();
    let k64: [u8; 64] = krng.arr();
    let seed: [u8; 32] = krng.arr();
    let (pk, sk) = crypto_sign_seed_keypair(&seed);
    let keys = Keys { k32, k64, sk, pk };
    {
        let mut pidx = 1u64 << 40;
        param_agreement(cx, &keys, &mut pidx);
        poly_adversarial_chunked(cx, &keys, &mut pidx);
    }
    let maxlen = l2.max(l3);
    let base_msg = krng.bytes(maxlen + 1);

    let mut idx = 0u64;
    for (ii, ifc) in ifs.iter().enumerate() {
        let (l2i, l3i) = if ifc.costly { (l2s, l3s) } else { (l2, l3) };
        for n in 0..=l2i.max(l3i) {
            let msg = &base_msg[..n];
            // reference values once per (interface, message); lazily, only if this shard owns a split
            let mut want: Option<Vec<u8>> = None;
            let mut ensure = |cx: &mut Ctx| -> Option<Vec<u8>> {
                if want.is_none() {
                    let case = || json!({"iface":ifc.name,"len":n});
                    let one = call(cx, &format!("C08|{}", ifc.name), ifc.name, case, || (ifc.oneshot)(msg, &keys))?;
                    if let Some(rf) = ifc.reference {
                        let w = rf(msg, &keys);
                        expect_eq(cx, &format!("C08|{}|oneshot_differs_from_libsodium", ifc.name), &one, &w, case);
                    }
                    want = Some(one);
                }
                want.clone()
            };
            // 2-way splits (the interpreter tier keeps the short lengths and the ones around the 128-byte block boundary)
            let tiny_skip = cx.tier == crate::ctx::Tier::Tiny && n > 20 && n < 120;
            if n <= l2i && !tiny_skip {
                idx += 1;
                if cx.mine(idx) {
                    if let Some(w) = ensure(cx) {
                        for a in 0..=n {
                            let parts: [&[u8]; 2] = [&msg[..a], &msg[a..]];
                            check_partition(cx, ifc, &keys, msg, &parts, &w, true);
                        }
                        cx.key(&format!("2way {} {}", ii, n));
                        cx.cover("two_way_len", &format!("{}", n));
                    }
                }
            }
            // 3-way splits
            if n <= l3i {
                for a in 0..=n {
                    idx += 1;
                    if !cx.mine(idx) {
                        continue;
                    }
                    if let Some(w) = ensure(cx) {
                        for b in a..=n {
                            let parts: [&[u8]; 3] = [&msg[..a], &msg[a..b], &msg[b..]];
                            check_partition(cx, ifc, &keys, msg, &parts, &w, true);
                        }
                        cx.key(&format!("3way {} {} {}", ii, n, a));
                    }
                }
                cx.cover("three_way_len", &format!("{}", n));
            }
        }
        cx.cover("interface", ifc.name);
    }

    // random k-way partitions of long messages
    let nrand = cx.tier.pick(4usize, 600, 300_000);
    for i in 0..nrand {
        idx += 1;
        if !cx.mine(idx) {
            continue;
        }
        let mut rng = cx.rng.fork(idx);
        let ifc = &ifs[i % ifs.len()];
        let maxl = if ifc.costly { 4096 } else { 16384 };
        let n = match rng.below(4) {
            0 => rng.range(0, 300),
            1 => rng.range(0, 40) * ifc.block + rng.range(0, 2) * (ifc.block - 1),
            _ => rng.range(0, maxl),
        };
        let msg = rng.bytes(n);
        let k = rng.range(1, 40);
        let mut cuts: Vec<usize> = (0..k - 1)
            .map(|_| {
                if rng.chance(3, 10) {
                    usize::MAX // marks an empty piece (duplicate of a neighbouring cut)
                } else if rng.chance(1, 3) {
                    // cut on a block boundary
                    (rng.range(0, n / ifc.block.max(1)) * ifc.block).min(n)
                } else {
                    rng.range(0, n)
                }
            })
            .collect();
        let mut prev = 0usize;
        for c in cuts.iter_mut() {
            if *c == usize::MAX {
                *c = prev;
            }
            prev = *c;
        }
        cuts.sort_unstable();
        let mut parts: Vec<&[u8]> = Vec::with_capacity(k);
        let mut last = 0usize;
        for c in &cuts {
            parts.push(&msg[last..*c]);
            last = *c;
        }
        parts.push(&msg[last..]);
        let case = || json!({"iface":ifc.name,"len":n,"k":k});
        let one = match call(cx, &format!("C08|{}", ifc.name), ifc.name, case, || (ifc.oneshot)(&msg, &keys)) {
            Some(o) => o,
            None => continue,
        };
        if let Some(rf) = ifc.reference {
            let w = rf(&msg, &keys);
            expect_eq(cx, &format!("C08|{}|oneshot_differs_from_libsodium", ifc.name), &one, &w, case);
        }
        check_partition(cx, ifc, &keys, &msg, &parts, &one, true);
        cx.key(&format!("rand {} {} {:?}", i, n, cuts.len()));
        cx.cover("random_k", &format!("{}", k));
        if i < 3 {
            cx.sample(json!({"family":"random_k_way","iface":ifc.name,"len":n,"pieces":parts.iter().map(|p| p.len()).collect::<Vec<_>>()}));
        }
    }
    if cx.shard == 0 {
        cx.sample(json!({"family":"exhaustive_3way","iface":"crypto_onetimeauth","len":33,"pieces":[15,1,17]}));
    }
    cx.note("bounds", json!({"L2":l2,"L3":l3,"L2_sign":l2s,"L3_sign":l3s}));
}
