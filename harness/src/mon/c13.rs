//! C13 — seeded key generation and Ed25519→X25519 conversion match libsodium's constructions.

use dryoc::classic::crypto_box::{crypto_box_seed_keypair, crypto_box_seed_keypair_inplace};
use dryoc::classic::crypto_core::crypto_scalarmult_base;
use dryoc::classic::crypto_kx::crypto_kx_seed_keypair;
use dryoc::classic::crypto_pwhash::PasswordHashAlgorithm;
use dryoc::classic::crypto_sign::{crypto_sign_seed_keypair, crypto_sign_seed_keypair_inplace};
use dryoc::classic::crypto_sign_ed25519::{crypto_sign_ed25519_pk_to_curve25519, crypto_sign_ed25519_sk_to_curve25519};
use dryoc::keypair::KeyPair;
use dryoc::pwhash::{Config, PwHash};
use dryoc::sign::SigningKeyPair;
use dryoc::types::*;
use serde_json::json;

use super::*;
use crate::ctx::{hx, Ctx};
use crate::sodium as na;

pub fn run(cx: &mut Ctx) {
    let n = cx.tier.pick(16usize, 2000, 600_000);
    let mut idx = 0u64;

    // ------------------------------------------------ box key pairs from seeds of every length 0..=128
    let reps = cx.tier.pick(1usize, 4, 60);
    for len in 0..=128usize {
        for rep in 0..reps {
            idx += 1;
            if !cx.mine(idx) {
                continue;
            }
            let mut rng = cx.rng.fork(idx);
            let seed = match rep {
                0 => vec![0u8; len],
                1 => vec![0xffu8; len],
                _ => rng.bytes(len),
            };
            cx.key(&format!("boxseed {} {}", len, rep));
            cx.cover("box_seed_len", &format!("{}", len));
            // libsodium's construction: sk = SHA-512(seed)[..32], pk = X25519(sk, 9)
            let h = na::sha512(&seed);
            let wsk: [u8; 32] = h[..32].try_into().unwrap();
            let wpk = na::scalarmult_base(&wsk);
            if len == 32 {
                let (npk, nsk) = na::box_seed_keypair(&seed.clone().try_into().unwrap());
                if npk != wpk || nsk != wsk {
                    cx.violation("HARNESS|C13|construction_differs_from_libsodium_function", json!({"seed":hx(&seed)}));
                }
            }
            let case = || json!({"op":"crypto_box_seed_keypair","seed_len":len,"seed":hx(&seed)});
            if let Some((pk, sk)) = call(cx, "C13|crypto_box_seed_keypair", "crypto_box_seed_keypair", case, || crypto_box_seed_keypair(&seed)) {
                let cls = if len == 32 { "len=32" } else if len < 32 { "len<32" } else { "len>32" };
                expect_eq(cx, &format!("C13|crypto_box_seed_keypair|mismatch_vs_libsodium_construction|{}", cls), &[pk, sk].concat(), &[wpk, wsk].concat(), case);
                if rep == 2 && len % 8 == 1 || len == 32 && rep == 2 {
                    cx.io("box_seed", json!({"seed":hx(&seed),"pk":hx(&pk),"sk":hx(&sk)}));
                }
            }
            let (mut pk2, mut sk2) = ([0u8; 32], [0u8; 32]);
            if call(cx, "C13|crypto_box_seed_keypair_inplace", "crypto_box_seed_keypair_inplace", case, || crypto_box_seed_keypair_inplace(&mut pk2, &mut sk2, &seed)).is_some() {
                expect_eq(cx, "C13|crypto_box_seed_keypair_inplace|mismatch_vs_libsodium_construction", &[pk2, sk2].concat(), &[wpk, wsk].concat(), case);
            }
            if let Some(kp) = call(cx, "C13|KeyPair::from_seed", "KeyPair::from_seed", case, || KeyPair::<StackByteArray<32>, StackByteArray<32>>::from_seed(&seed)) {
                expect_eq(cx, "C13|KeyPair::from_seed|mismatch_vs_libsodium_construction", &[kp.public_key.as_slice(), kp.secret_key.as_slice()].concat(), &[wpk, wsk].concat(), case);
            }
            if let Some(kp) = call(cx, "C13|KeyPair<Vec>::from_seed", "KeyPair<Vec>::from_seed", case, || KeyPair::<Vec<u8>, Vec<u8>>::from_seed(&seed)) {
                expect_eq(cx, "C13|KeyPair<Vec>::from_seed|mismatch_vs_libsodium_construction", &[&kp.public_key[..], &kp.secret_key[..]].concat(), &[wpk, wsk].concat(), case);
            }
        }
    }

    for i in 0..n {
        idx += 1;
        if !cx.mine(idx) {
            continue;
        }
        let mut rng = cx.rng.fork(idx);
        cx.key_h(idx);
        let seed: [u8; 32] = match i % 50 {
            0 => [0u8; 32],
            1 => [0xff; 32],
            _ => rng.arr(),
        };
        // ------------------------------------------------------------------------------- kx
        {
            let (wpk, wsk) = na::kx_seed_keypair(&seed);
            let case = || json!({"op":"crypto_kx_seed_keypair","seed":hx(&seed)});
            if let Some(r) = call(cx, "C13|crypto_kx_seed_keypair", "crypto_kx_seed_keypair", case, || crypto_kx_seed_keypair(&seed)) {
                match r {
                    Ok((pk, sk)) => {
                        expect_eq(cx, "C13|crypto_kx_seed_keypair|mismatch_vs_libsodium", &[pk, sk].concat(), &[wpk, wsk].concat(), case);
                        if i % 100 == 2 {
                            cx.io("kx_seed", json!({"seed":hx(&seed),"pk":hx(&pk),"sk":hx(&sk)}));
                        }
                    }
                    Err(e) => cx.violation("C13|crypto_kx_seed_keypair|unexpected_err", json!({"err":e.to_string()})),
                }
            }
            cx.cover("function", "crypto_kx_seed_keypair");
        }
        // ----------------------------------------------------------------------------- sign
        {
            let (wpk, wsk) = na::sign_seed_keypair(&seed);
            let case = || json!({"op":"crypto_sign_seed_keypair","seed":hx(&seed)});
            if let Some((pk, sk)) = call(cx, "C13|crypto_sign_seed_keypair", "crypto_sign_seed_keypair", case, || crypto_sign_seed_keypair(&seed)) {
                expect_eq(cx, "C13|crypto_sign_seed_keypair|mismatch_vs_libsodium", &[&pk[..], &sk[..]].concat(), &[&wpk[..], &wsk[..]].concat(), case);
                if i % 100 == 2 {
                    cx.io("sign_seed", json!({"seed":hx(&seed),"pk":hx(&pk),"sk":hx(&sk)}));
                }
            }
            let (mut pk2, mut sk2) = ([0u8; 32], [0u8; 64]);
            if call(cx, "C13|crypto_sign_seed_keypair_inplace", "crypto_sign_seed_keypair_inplace", case, || crypto_sign_seed_keypair_inplace(&mut pk2, &mut sk2, &seed)).is_some() {
                expect_eq(cx, "C13|crypto_sign_seed_keypair_inplace|mismatch_vs_libsodium", &[&pk2[..], &sk2[..]].concat(), &[&wpk[..], &wsk[..]].concat(), case);
            }
            if let Some(kp) = call(cx, "C13|SigningKeyPair::from_seed", "SigningKeyPair::from_seed", case, || SigningKeyPair::<StackByteArray<32>, StackByteArray<64>>::from_seed(&seed)) {
                expect_eq(cx, "C13|SigningKeyPair::from_seed|mismatch_vs_libsodium", &[kp.public_key.as_slice(), kp.secret_key.as_slice()].concat(), &[&wpk[..], &wsk[..]].concat(), case);
            }
            // from_secret_key: only the seed half of the secret key is trusted; a wrong public half must be recomputed
            let mut sk_in = wsk;
            if i % 2 == 0 {
                for b in sk_in[32..].iter_mut() {
                    *b = rng.u8();
                }
            }
            if let Some(kp) = call(cx, "C13|SigningKeyPair::from_secret_key", "SigningKeyPair::from_secret_key", case, || SigningKeyPair::<Vec<u8>, StackByteArray<64>>::from_secret_key(StackByteArray::from(sk_in))) {
                expect_eq(cx, "C13|SigningKeyPair::from_secret_key|mismatch_vs_libsodium", &[&kp.public_key[..], kp.secret_key.as_slice()].concat(), &[&wpk[..], &wsk[..]].concat(), case);
            }
            cx.cover("function", "crypto_sign_seed_keypair");

            // -------------------------------------------------- Ed25519 -> X25519 conversion (honest pairs)
            let wx_pk = na::ed_pk_to_curve(&wpk).expect("libsodium converts honest keys");
            let wx_sk = na::ed_sk_to_curve(&wsk);
            let mut xpk = stale_arr::<32>();
            let mut xsk = stale_arr::<32>();
            let c2 = || json!({"op":"ed25519_to_curve25519","ed_pk":hx(&wpk),"seed":hx(&seed)});
            if let Some(r) = call(cx, "C13|crypto_sign_ed25519_pk_to_curve25519", "crypto_sign_ed25519_pk_to_curve25519", c2, || crypto_sign_ed25519_pk_to_curve25519(&mut xpk, &wpk)) {
                expect(cx, "C13|crypto_sign_ed25519_pk_to_curve25519|rejects_honest_key", r.is_ok(), c2);
                expect_eq(cx, "C13|crypto_sign_ed25519_pk_to_curve25519|mismatch_vs_libsodium", &xpk, &wx_pk, c2);
            }
            if call(cx, "C13|crypto_sign_ed25519_sk_to_curve25519", "crypto_sign_ed25519_sk_to_curve25519", c2, || crypto_sign_ed25519_sk_to_curve25519(&mut xsk, &wsk)).is_some() {
                expect_eq(cx, "C13|crypto_sign_ed25519_sk_to_curve25519|mismatch_vs_libsodium", &xsk, &wx_sk, c2);
            }
            let mut base = [0u8; 32];
            crypto_scalarmult_base(&mut base, &xsk);
            expect_eq(cx, "C13|ed25519_to_curve25519|converted_pair_inconsistent", &xpk, &base, c2);
            if i % 100 == 2 {
                cx.io("ed_to_curve", json!({"seed":hx(&seed),"ed_pk":hx(&wpk),"x_pk":hx(&xpk),"x_sk":hx(&xsk)}));
            }
            cx.cover("function", "ed25519_to_curve25519");
        }
        // --------------------------------------------- public key recomputed from a (possibly unclamped) secret key
        {
            let sk: [u8; 32] = match i % 7 {
                0 => [0xff; 32],
                1 => [0u8; 32],
                2 => {
                    let mut s: [u8; 32] = rng.arr();
                    s[0] |= 7;
                    s[31] |= 0x80;
                    s
                }
                _ => rng.arr(),
            };
            let want = na::scalarmult_base(&sk);
            let case = || json!({"op":"KeyPair::from_secret_key","sk":hx(&sk)});
            if let Some(kp) = call(cx, "C13|KeyPair::from_secret_key", "KeyPair::from_secret_key", case, || KeyPair::<StackByteArray<32>, StackByteArray<32>>::from_secret_key(StackByteArray::from(sk))) {
                expect_eq(cx, "C13|KeyPair::from_secret_key|mismatch_vs_libsodium", &[kp.public_key.as_slice(), kp.secret_key.as_slice()].concat(), &[want, sk].concat(), case);
            }
            if let Some(kp) = call(cx, "C13|KeyPair<array,Vec>::from_secret_key", "KeyPair<array,Vec>::from_secret_key", case, || KeyPair::<[u8; 32], Vec<u8>>::from_secret_key(sk.to_vec())) {
                expect_eq(cx, "C13|KeyPair<array,Vec>::from_secret_key|mismatch_vs_libsodium", &kp.public_key, &want, case);
            }
            cx.cover("function", "KeyPair::from_secret_key");
            cx.cover("secret_key_class", ["ff", "zeros", "unclamped_random", "random", "random", "random", "random"][i % 7]);
        }
    }

    // ------------------------------------------------------------ key pair derived from a password
    let npw = cx.tier.pick(4usize, 300, 60_000);
    for i in 0..npw {
        idx += 1;
        if !cx.mine(idx) {
            continue;
        }
        let mut rng = cx.rng.fork(idx);
        cx.key_h(idx);
        let pwlen = rng.range(0, 64);
        let pw = rng.bytes(pwlen);
        let salt_len = *rng.pick(&[16usize, 16, 16, 8, 9, 24, 32, 64]);
        let salt = rng.bytes(salt_len);
        // Argon2id (what every preset names) or, one case in 4, Argon2i: a Config naming Argon2i is what parsing an
        // "$argon2i$" string returns. One case in 4 runs more than three passes.
        let argon2i = rng.chance(1, 4);
        let ops = if argon2i { rng.range(3, 6) as u64 } else if rng.chance(1, 4) { rng.range(4, 6) as u64 } else { rng.range(1, 3) as u64 };
        // mostly small; one case in 10 has segments longer than one address block and not a multiple of it, or a multi-MiB size
        let mem_kib = if rng.chance(1, 10) { *rng.pick(&[516usize, 600, 1000, 2930]) } else { *rng.pick(&[8usize, 9, 16, 33, 64]) };
        let hash_length = *rng.pick(&[32usize, 32, 16, 33, 64, 128]);
        let (mut cfg, _cfg_desc) = build_config(&mut rng, ops, mem_kib * 1024, hash_length, Some(salt_len));
        if argon2i {
            let text = format!("$argon2i$v=19$m={},t={},p=1${}${}", mem_kib, ops, super::c10::b64enc(&salt), super::c10::b64enc(&[0u8; 32]));
            match PwHash::<Vec<u8>, Vec<u8>>::from_string(&text) {
                Ok(p) => {
                    let (_, _, parsed) = p.into_parts();
                    cfg = if rng.chance(1, 2) { parsed } else { parsed.with_hash_length(hash_length).with_memlimit(mem_kib * 1024).with_opslimit(ops).with_salt_length(salt_len) };
                }
                Err(e) => {
                    cx.violation("HARNESS|C13|argon2i_string_not_parsed", json!({"text":text,"err":e.to_string()}));
                    continue;
                }
            }
        }
        let (alg_id, alg_name) = if argon2i { (na::ALG_ARGON2I13, "argon2i") } else { (na::ALG_ARGON2ID13, "argon2id") };
        // libsodium's construction: secret key = crypto_pwhash(outlen = 32, ...) ; public key = X25519 base mult
        let wsk: [u8; 32] = if salt_len == 16 {
            let s16: [u8; 16] = salt.clone().try_into().unwrap();
            let a = na::pwhash(32, &pw, &s16, ops, mem_kib * 1024, alg_id).expect("libsodium pwhash");
            let b = na::argon2_raw(!argon2i, ops as u32, mem_kib as u32, &pw, &salt, 32).expect("argon2 raw");
            if a != b {
                cx.violation("HARNESS|C13|libsodium_public_and_raw_argon2_disagree", json!({}));
            }
            a.try_into().unwrap()
        } else {
            na::argon2_raw(!argon2i, ops as u32, mem_kib as u32, &pw, &salt, 32).expect("argon2 raw").try_into().unwrap()
        };
        let wpk = na::scalarmult_base(&wsk);
        let case = || json!({"op":"PwHash::derive_keypair","algorithm":alg_name,"pw":hx(&pw),"salt":hx(&salt),"opslimit":ops,"mem_kib":mem_kib,"config_hash_length":hash_length});
        let r = call(cx, "C13|PwHash::derive_keypair", "PwHash::derive_keypair", case, || {
            PwHash::<Vec<u8>, Vec<u8>>::derive_keypair::<Vec<u8>, StackByteArray<32>, StackByteArray<32>>(&pw, salt.clone(), cfg.clone())
        });
        if let Some(r) = r {
            match r {
                Ok(kp) => {
                    let cls = if hash_length == 32 { "hash_length=32" } else { "hash_length!=32" };
                    expect_eq(cx, &format!("C13|PwHash::derive_keypair|mismatch_vs_libsodium_construction|{}", cls), &[kp.public_key.as_slice(), kp.secret_key.as_slice()].concat(), &[wpk, wsk].concat(), case);
                    if i % 10 == 0 && mem_kib <= 16 {
                        cx.io("pw_keypair", json!({"pw":hx(&pw),"salt":hx(&salt),"t":ops,"m":mem_kib,"y":if argon2i { 1 } else { 2 },"pk":hx(kp.public_key.as_slice()),"sk":hx(kp.secret_key.as_slice()),"sole_reference":salt_len != 16}));
                    }
                }
                Err(e) => cx.violation("C13|PwHash::derive_keypair|unexpected_err", json!({"err":e.to_string(),"case":case()})),
            }
        }
        let _ = PasswordHashAlgorithm::Argon2id13;
        cx.cover("function", "PwHash::derive_keypair");
        cx.cover("derive_keypair_algorithm", alg_name);
        cx.cover("derive_keypair_passes", &format!("{}", ops));
        cx.cover("derive_keypair_salt_len", &format!("{}", salt_len));
        cx.cover("derive_keypair_config_hash_length", &format!("{}", hash_length));
        if i == 1 {
            cx.sample(case());
        }
    }
    // ---- honest Ed25519 key pairs whose public-key encoding is structured (found by grinding seeds, see c06): the
    // ---- conversion must accept them and give libsodium's values
    {
        let per_shard = cx.tier.pick(0usize, 120_000, 2_000_000);
        let (keys, found) = super::c06::grind_structured_keys(cx, per_shard, 0xC13_0000, 40);
        for (seed, e, class) in keys {
            let (wpk, wsk) = na::sign_seed_keypair(&seed);
            if wpk != e {
                cx.violation("HARNESS|C13|ground_key_differs_from_libsodium", json!({"seed":hx(&seed)}));
                break;
            }
            let Some(wx_pk) = na::ed_pk_to_curve(&wpk) else { continue };
            let wx_sk = na::ed_sk_to_curve(&wsk);
            let mut xpk = stale_arr::<32>();
            let mut xsk = stale_arr::<32>();
            let c2 = || json!({"op":"ed25519_to_curve25519","ed_pk":hx(&wpk),"seed":hx(&seed),"public_key_class":class});
            cx.key(&format!("ground {} {}", class, hx(&seed[..4])));
            if let Some(r) = call(cx, "C13|crypto_sign_ed25519_pk_to_curve25519", "crypto_sign_ed25519_pk_to_curve25519", c2, || crypto_sign_ed25519_pk_to_curve25519(&mut xpk, &wpk)) {
                expect(cx, &format!("C13|crypto_sign_ed25519_pk_to_curve25519|rejects_honest_key|structured_encoding:{}", class), r.is_ok(), c2);
                if r.is_ok() {
                    expect_eq(cx, "C13|crypto_sign_ed25519_pk_to_curve25519|mismatch_vs_libsodium|structured_encoding", &xpk, &wx_pk, c2);
                }
            }
            if call(cx, "C13|crypto_sign_ed25519_sk_to_curve25519", "crypto_sign_ed25519_sk_to_curve25519", c2, || crypto_sign_ed25519_sk_to_curve25519(&mut xsk, &wsk)).is_some() {
                expect_eq(cx, "C13|crypto_sign_ed25519_sk_to_curve25519|mismatch_vs_libsodium|structured_encoding", &xsk, &wx_sk, c2);
            }
            let (dpk, dsk) = crypto_sign_seed_keypair(&seed);
            expect_eq(cx, "C13|crypto_sign_seed_keypair|mismatch_vs_libsodium|structured_encoding", &[&dpk[..], &dsk[..]].concat(), &[&wpk[..], &wsk[..]].concat(), c2);
            cx.cover("ground_public_key_class", class);
        }
        cx.note("ground_keys", json!({"seeds_tried_this_shard":per_shard,"found":found}));
    }
    if cx.shard == 0 {
        cx.sample(json!({"family":"box seeds","lengths":"0..=128","contents":["zeros","ff","random"]}));
    }
}
