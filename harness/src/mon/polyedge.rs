//! Constructs messages whose Poly1305 accumulator ends on a chosen residue (0..=4 mod p), i.e. on the values
//! p, p+1, .. 2^130-1 that a partially reduced accumulator can hold before the final conditional subtraction.
//! Arithmetic mod p = 2^130 - 5 on five 26-bit limbs (independent of dryoc's and libsodium's code).

#[derive(Clone, Copy, PartialEq, Debug)]
pub struct Fe([u64; 5]);

const M26: u64 = (1 << 26) - 1;

impl Fe {
    pub fn from_le(bytes: &[u8]) -> Fe {
        // up to 17 bytes (136 bits)
        let mut b = [0u8; 24];
        b[..bytes.len()].copy_from_slice(bytes);
        let lo = u128::from_le_bytes(b[..16].try_into().unwrap());
        let hi = b[16] as u128;
        let l0 = (lo & M26 as u128) as u64;
        let l1 = ((lo >> 26) & M26 as u128) as u64;
        let l2 = ((lo >> 52) & M26 as u128) as u64;
        let l3 = ((lo >> 78) & M26 as u128) as u64;
        let l4 = ((lo >> 104) as u64) | ((hi as u64) << 24);
        Fe([l0, l1, l2, l3, l4]).reduce()
    }
    pub fn small(v: u64) -> Fe {
        Fe([v, 0, 0, 0, 0])
    }
    fn carry(mut self) -> Fe {
        for _ in 0..2 {
            let mut c;
            c = self.0[0] >> 26; self.0[0] &= M26; self.0[1] += c;
            c = self.0[1] >> 26; self.0[1] &= M26; self.0[2] += c;
            c = self.0[2] >> 26; self.0[2] &= M26; self.0[3] += c;
            c = self.0[3] >> 26; self.0[3] &= M26; self.0[4] += c;
            c = self.0[4] >> 26; self.0[4] &= M26; self.0[0] += c * 5;
        }
        self
    }
    /// canonical representative in [0, p)
    pub fn reduce(self) -> Fe {
        let mut f = self.carry();
        // conditional subtraction of p (twice is enough after carry)
        for _ in 0..2 {
            let ge = f.0[4] == M26 && f.0[3] == M26 && f.0[2] == M26 && f.0[1] == M26 && f.0[0] >= M26 - 4;
            if ge {
                f.0[0] -= M26 - 4;
                f.0[1] = 0;
                f.0[2] = 0;
                f.0[3] = 0;
                f.0[4] = 0;
            }
        }
        f
    }
    pub fn add(self, o: Fe) -> Fe {
        Fe([self.0[0] + o.0[0], self.0[1] + o.0[1], self.0[2] + o.0[2], self.0[3] + o.0[3], self.0[4] + o.0[4]]).reduce()
    }
    pub fn neg(self) -> Fe {
        let f = self.reduce();
        if f.0 == [0; 5] {
            return f;
        }
        // p - f
        let p = [M26 - 4, M26, M26, M26, M26];
        let mut out = [0u64; 5];
        let mut borrow = 0i64;
        for i in 0..5 {
            let mut d = p[i] as i64 - f.0[i] as i64 - borrow;
            if d < 0 {
                d += 1 << 26;
                borrow = 1;
            } else {
                borrow = 0;
            }
            out[i] = d as u64;
        }
        Fe(out)
    }
    pub fn sub(self, o: Fe) -> Fe {
        self.add(o.neg())
    }
    pub fn mul(self, o: Fe) -> Fe {
        let a = self.reduce().0;
        let b = o.reduce().0;
        let (b1_5, b2_5, b3_5, b4_5) = (b[1] * 5, b[2] * 5, b[3] * 5, b[4] * 5);
        let d0 = a[0] * b[0] + a[1] * b4_5 + a[2] * b3_5 + a[3] * b2_5 + a[4] * b1_5;
        let d1 = a[0] * b[1] + a[1] * b[0] + a[2] * b4_5 + a[3] * b3_5 + a[4] * b2_5;
        let d2 = a[0] * b[2] + a[1] * b[1] + a[2] * b[0] + a[3] * b4_5 + a[4] * b3_5;
        let d3 = a[0] * b[3] + a[1] * b[2] + a[2] * b[1] + a[3] * b[0] + a[4] * b4_5;
        let d4 = a[0] * b[4] + a[1] * b[3] + a[2] * b[2] + a[3] * b[1] + a[4] * b[0];
        // limbs are < 2^26 so every d < 5 * 2^26 * 5 * 2^26 < 2^57
        let mut r = [0u64; 5];
        let mut c;
        c = d0 >> 26; r[0] = d0 & M26;
        let d1 = d1 + c; c = d1 >> 26; r[1] = d1 & M26;
        let d2 = d2 + c; c = d2 >> 26; r[2] = d2 & M26;
        let d3 = d3 + c; c = d3 >> 26; r[3] = d3 & M26;
        let d4 = d4 + c; c = d4 >> 26; r[4] = d4 & M26;
        r[0] += c * 5;
        Fe(r).reduce()
    }
    pub fn pow_p_minus_2(self) -> Fe {
        // exponent p - 2 = 2^130 - 7
        let mut result = Fe::small(1);
        let base = self;
        // bits of 2^130 - 7: 130 bits, all ones except ... compute via big subtraction on the fly:
        // 2^130 - 7 = (2^130 - 1) - 6 -> binary: 127 ones, then '001' ... easier: square-and-multiply over explicit bits
        let mut bits = [1u8; 130];
        // subtract 6 from all-ones (…111111 - 110 = …111001)
        bits[1] = 0;
        bits[2] = 0;
        for i in (0..130).rev() {
            result = result.mul(result);
            if bits[i] == 1 {
                result = result.mul(base);
            }
        }
        result
    }
    /// little-endian 16 bytes if the value fits in 128 bits
    pub fn to_u128(self) -> Option<u128> {
        let f = self.reduce().0;
        if f[4] >> 24 != 0 {
            return None;
        }
        Some(f[0] as u128 | (f[1] as u128) << 26 | (f[2] as u128) << 52 | (f[3] as u128) << 78 | (f[4] as u128) << 104)
    }
}

pub fn clamp_r(k: &[u8]) -> [u8; 16] {
    let mut r: [u8; 16] = k[..16].try_into().unwrap();
    r[3] &= 15;
    r[7] &= 15;
    r[11] &= 15;
    r[15] &= 15;
    r[4] &= 252;
    r[8] &= 252;
    r[12] &= 252;
    r
}

/// given the Poly1305 key half r and `prefix` (a whole number of 16-byte blocks), returns the 16-byte final block
/// for which the accumulator after the last multiplication is ≡ v (mod p)
pub fn solve_last_block(r_key: &[u8], prefix: &[u8], v: u64) -> Option<[u8; 16]> {
    solve_block_for(r_key, prefix, Fe::small(v))
}

/// targets that stress carry chains between limbs of any radix in use (26, 32, 44, 64 bits): the accumulator value
/// X * 2^j + d (a long run of zero bits above a tiny low part) or X * 2^j - 1 - d (a long run of one bits), as 17
/// little-endian bytes; `x` supplies the high part
pub fn limb_edge_target(j: u32, below: bool, d: u8, x: u128) -> Fe {
    // value < 2^130: keep 130 - j bits of x
    let hi_bits = 130 - j;
    let xh: u128 = if hi_bits >= 128 { x } else { x & ((1u128 << hi_bits) - 1) };
    let xh = xh.max(1);
    // 136-bit little-endian integer xh << j
    let mut bytes = [0u8; 33];
    let sh_bytes = (j / 8) as usize;
    let sh_bits = j % 8;
    let wide = xh.to_le_bytes();
    let mut carry = 0u16;
    for i in 0..16 {
        let v = ((wide[i] as u16) << sh_bits) | carry;
        bytes[sh_bytes + i] = (v & 0xff) as u8;
        carry = v >> 8;
    }
    bytes[sh_bytes + 16] = carry as u8;
    let base = Fe::from_le(&bytes[..17]);
    if below {
        base.sub(Fe::small(1 + d as u64))
    } else {
        base.add(Fe::small(d as u64))
    }
}

/// as `solve_last_block` for an arbitrary target value of the accumulator
pub fn solve_block_for(r_key: &[u8], prefix: &[u8], target: Fe) -> Option<[u8; 16]> {
    let v = target;
    assert!(prefix.len() % 16 == 0);
    let r = Fe::from_le(&clamp_r(r_key));
    if r.reduce() == Fe::small(0) {
        return None;
    }
    let two128 = Fe::from_le(&[0, 0, 0, 0, 0, 0, 0, 0, 0, 0, 0, 0, 0, 0, 0, 0, 1]);
    let mut h = Fe::small(0);
    for blk in prefix.chunks(16) {
        h = h.add(Fe::from_le(blk)).add(two128).mul(r);
    }
    let rinv = r.pow_p_minus_2();
    debug_assert!(r.mul(rinv) == Fe::small(1));
    let c = v.mul(rinv).sub(h).sub(two128);
    c.to_u128().map(|x| x.to_le_bytes())
}

/// reference evaluation (for the self-check of this module): the accumulator value mod p after all blocks
pub fn accumulator(r_key: &[u8], msg: &[u8]) -> Fe {
    let r = Fe::from_le(&clamp_r(r_key));
    let two128 = Fe::from_le(&[0, 0, 0, 0, 0, 0, 0, 0, 0, 0, 0, 0, 0, 0, 0, 0, 1]);
    let mut h = Fe::small(0);
    for blk in msg.chunks(16) {
        assert!(blk.len() == 16);
        h = h.add(Fe::from_le(blk)).add(two128).mul(r);
    }
    h.reduce()
}

/// a ciphertext of `len` bytes (a whole number of blocks, >= 16) whose Poly1305 accumulator under the key half `r_key`
/// ends on an edge value: selector 0..=4 -> p + v (what the final conditional subtraction must handle), otherwise a
/// limb-edge value (carry chains between limbs). Self-checked with the independent evaluator; None if no block fits.
pub fn craft_ciphertext(r_key: &[u8], len: usize, sel: usize, rng: &mut crate::prng::Rng) -> Option<(Vec<u8>, String)> {
    const JS: [u32; 8] = [26, 32, 44, 52, 64, 78, 88, 104];
    if len < 16 || len % 16 != 0 {
        return None;
    }
    for _try in 0..32 {
        let (target, name) = if sel % 13 < 5 {
            (Fe::small((sel % 13) as u64), format!("p+{}", sel % 13))
        } else {
            let k = sel % 13 - 5;
            let j = JS[(k + sel / 13) % JS.len()];
            let below = sel % 2 == 1;
            let d = (sel / 2 % 4) as u8;
            (limb_edge_target(j, below, d, rng.u64() as u128 | (rng.u64() as u128) << 64), format!("2^{}{}", j, if below { "-1-d" } else { "+d" }))
        };
        let prefix = rng.bytes(len - 16);
        if let Some(blk) = solve_block_for(r_key, &prefix, target) {
            let mut ct = prefix;
            ct.extend_from_slice(&blk);
            if accumulator(r_key, &ct) == target.reduce() {
                return Some((ct, name));
            }
            return None;
        }
    }
    None
}
