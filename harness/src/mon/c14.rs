//! C14 — protected memory: page rights, locks and guard pages match the type state.
#![cfg(feature = "nightly")]

use serde_json::json;

use super::osview;
use super::prot::*;
use crate::ctx::{Ctx, Tier};
use crate::prng::Rng;

pub fn ops_for(resizable: bool, len: usize, page: usize) -> Vec<Op> {
    let mut v = vec![Op::Mlock, Op::Munlock, Op::ReadOnly, Op::ReadWrite, Op::NoAccess, Op::Clone, Op::Write, Op::Drop];
    if resizable {
        v.push(Op::Resize(len / 2));
        v.push(Op::Resize(len + page + 1));
    }
    v
}

pub fn construct(resizable: bool, len: usize, ctor: &str, src: &[u8]) -> Result<Box<dyn DynRegion>, String> {
    if resizable {
        construct_hb(ctor, src)
    } else {
        construct_arr(len, ctor, src)
    }
}

/// runs one operation sequence under the C14 oracle; returns false if it was pruned (an op was not offered)
pub fn run_sequence(cx: &mut Ctx, eng: &mut Engine, resizable: bool, len: usize, ctor: &str, ops: &[Op], rng: Option<&mut Rng>) -> bool {
    eng.reset_sequence();
    let src = pattern(len as u8 ^ 0x3c, len);
    eng.trace.push(format!("construct {} via {} len={}", if resizable { "HeapBytes" } else { "HeapByteArray" }, ctor, len));
    let marker = format!("construct {} len={}", ctor, len);
    let r = crate::ctx::guard(&marker, || construct(resizable, len, ctor, &src));
    eng.pump_events();
    let reg = match r {
        Ok(Ok(r)) => r,
        Ok(Err(e)) => {
            let c = eng.case(json!({"err":e}));
            cx.violation("HARNESS|C14|constructor_failed_without_fault_injection", c);
            return true;
        }
        Err(p) => {
            let c = eng.case(json!({"panic":p.msg}));
            cx.violation(&format!("C14|{}|constructor_panicked", ctor), c);
            eng.drop_all();
            eng.quiescence(cx);
            return true;
        }
    };
    eng.adopt(reg, src, 0);
    eng.observe(cx, "construct");
    let mut rng = rng;
    let mut complete = true;
    for op in ops {
        if eng.live.is_empty() {
            break;
        }
        let idx = match rng.as_deref_mut() {
            Some(r) => r.below(eng.live.len()),
            None => eng.live.len() - 1,
        };
        if matches!(op, Op::Clone) && eng.live.len() >= 4 {
            continue;
        }
        match eng.step(cx, idx, *op) {
            StepOutcome::Ok => eng.observe(cx, &op.name()),
            StepOutcome::NotOffered => {
                if rng.is_none() {
                    complete = false;
                    break;
                }
            }
            StepOutcome::Failed(e) => {
                // an Err from an operation the OS may refuse is a result, not a violation: the handle was
                // consumed; the remaining regions must still agree with the model
                eng.trace.push(format!("  -> Err({})", e));
                eng.observe(cx, &format!("{} (Err)", op.name()));
            }
            StepOutcome::Panicked(p) => {
                let c = eng.case(json!({"panic":p.msg}));
                cx.violation(&format!("C14|{}|panic_without_fault_injection", op.name().split('(').next().unwrap()), c);
                break;
            }
        }
    }
    eng.drop_all();
    eng.quiescence(cx);
    complete
}

fn odometer(digits: &mut [usize], base: usize) -> bool {
    for d in digits.iter_mut().rev() {
        *d += 1;
        if *d < base {
            return true;
        }
        *d = 0;
    }
    false
}

pub fn run(cx: &mut Ctx) {
    let use_fork = cx.opt("no_fork").is_none();
    if let Err(e) = osview::selfcheck(use_fork) {
        cx.violation("HARNESS|C14|os_observer_selfcheck_failed", json!({"why":e}));
        return;
    }
    let use_efault = cx.opt("no_efault").is_none();
    let mut eng = Engine::new("C14", use_fork, use_efault);
    let page = eng.page;
    let depth = cx.tier.pick(2usize, 3, 4);
    let mut idx = 0u64;

    // ------------------------------------------------ exhaustive sequences up to `depth`
    for resizable in [true, false] {
        let lens: &[usize] = if resizable { &BYTES_LENS } else { &ARRAY_LENS };
        let ctors: &[&str] = if resizable { &HB_CTORS } else { &ARR_CTORS };
        for &len in lens {
            if cx.tier == Tier::Tiny && ![0usize, 1, 32, 4096, 4097].contains(&len) {
                continue;
            }
            for ctor in ctors {
                let alphabet = ops_for(resizable, len, page);
                let mut digits = vec![0usize; depth];
                loop {
                    idx += 1;
                    if cx.mine(idx) {
                        let ops: Vec<Op> = digits.iter().map(|d| alphabet[*d]).collect();
                        let complete = run_sequence(cx, &mut eng, resizable, len, ctor, &ops, None);
                        if complete {
                            cx.key_h(idx);
                        }
                        cx.cover("constructor", &format!("{}::{}", if resizable { "HeapBytes" } else { "HeapByteArray" }, ctor));
                        cx.cover("length", &format!("{}", len));
                    }
                    if !odometer(&mut digits, alphabet.len()) {
                        break;
                    }
                }
            }
        }
    }
    // -------------------------------------- random sequences, several regions alive at once
    let nrand = cx.tier.pick(20usize, 2000, 200_000);
    let rdepth = cx.tier.pick(6usize, 10, 12);
    for i in 0..nrand {
        idx += 1;
        if !cx.mine(idx) {
            continue;
        }
        let mut rng = cx.rng.fork(idx);
        let resizable = rng.chance(1, 2);
        let lens: &[usize] = if resizable { &BYTES_LENS } else { &ARRAY_LENS };
        let len = *rng.pick(lens);
        let ctors: &[&str] = if resizable { &HB_CTORS } else { &ARR_CTORS };
        let ctor = *rng.pick(ctors);
        let alphabet = ops_for(resizable, len, page);
        let ops: Vec<Op> = (0..rdepth)
            .map(|_| match *rng.pick(&alphabet) {
                Op::Resize(_) => Op::Resize(*rng.pick(&[0usize, 1, len / 2, len + 1, page - 1, page, page + 1, 2 * page + 1, 3 * page])),
                // fewer drops so that sequences live longer
                Op::Drop if rng.chance(2, 3) => Op::Write,
                o => o,
            })
            .collect();
        run_sequence(cx, &mut eng, resizable, len, ctor, &ops, Some(&mut rng));
        cx.key_h(idx);
        if i == 7 {
            cx.sample(json!({"family":"random_sequence","trace":eng.trace}));
        }
    }
    if cx.shard == 0 {
        cx.sample(json!({"family":"exhaustive","depth":depth,"alphabet":ops_for(true, 4097, page).iter().map(|o| o.name()).collect::<Vec<_>>(),"lengths":BYTES_LENS,"constructors":HB_CTORS}));
    }
    if observer_overflowed() {
        cx.violation("HARNESS|C14|allocator_event_ring_overflow", json!({}));
    }
    cx.note("observations", json!(eng.steps));
    cx.note("probes", json!({"fork":use_fork,"efault":use_efault}));
}
