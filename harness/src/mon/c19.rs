//! C19 — refused memory locking is reported as an error, never a panic (fault enumeration).
//! For each operation sequence the number n of lock requests is measured fault-free, then for each
//! k in 0..n the sequence is re-run with the k-th and all later `mlock` calls refused (ENOMEM) by the
//! in-binary interposer.
#![cfg(feature = "nightly")]

use dryoc::keypair::KeyPair;
use dryoc::precalc::PrecalcSecretKey;
use dryoc::protected::*;
use dryoc::sign::SigningKeyPair;
use serde_json::json;

use super::c14::{construct, ops_for};
use super::osview;
use super::prot::*;
use crate::ctx::{guard, Ctx, Tier};
use crate::prng::Rng;

/// one run of a sequence under "fail from k"; returns the number of mlock calls made
fn run_faulty(cx: &mut Ctx, eng: &mut Engine, resizable: bool, len: usize, ctor: &str, ops: &[Op], pick: &[usize], fail_from: i64) -> usize {
    eng.reset_sequence();
    mlock_reset(fail_from);
    if fail_from >= 0 {
        cx.cover("refusal_errno", mlock_errno_name());
    }
    let src = pattern(len as u8 ^ 0x19, len);
    let cname = if resizable { "HeapBytes" } else { "HeapByteArray" };
    eng.trace.push(format!("[mlock refused from call #{}] construct {} via {} len={}", fail_from, cname, ctor, len));
    let r = guard(&format!("construct {} {}", cname, ctor), || construct(resizable, len, ctor, &src));
    eng.pump_events();
    let mut alive = true;
    match r {
        Ok(Ok(reg)) => {
            eng.adopt(reg, src, 0);
        }
        Ok(Err(e)) => {
            cx.eval();
            eng.trace.push(format!("  -> Err({})", e));
            cx.cover("constructor_err_on_refusal", &format!("{}::{}", cname, ctor));
            alive = false;
        }
        Err(p) => {
            cx.eval();
            if ctor_returns_result(ctor) && fail_from >= 0 {
                let c = eng.case(json!({"panic":p.msg,"constructor":ctor,"container":cname,"len":len}));
                cx.violation(&format!("C19|{}::{}|panic_instead_of_err_on_refused_mlock", cname, ctor), c);
            } else {
                cx.cover("allowed_panic(no Result in signature)", &format!("{}::{}", cname, ctor));
            }
            alive = false;
        }
    }
    if alive {
        eng.observe(cx, "construct");
        for (i, op) in ops.iter().enumerate() {
            if eng.live.is_empty() {
                break;
            }
            let idx = pick.get(i).copied().unwrap_or(usize::MAX).min(eng.live.len() - 1);
            if matches!(op, Op::Clone) && eng.live.len() >= 4 {
                continue;
            }
            match eng.step(cx, idx, *op) {
                StepOutcome::Ok => eng.observe(cx, &op.name()),
                StepOutcome::NotOffered => break,
                StepOutcome::Failed(e) => {
                    eng.trace.push(format!("  -> Err({})", e));
                    cx.cover("transition_err_on_refusal", &op.name());
                    // regions created earlier stay valid and correctly protected
                    eng.observe(cx, &format!("{} (Err)", op.name()));
                }
                StepOutcome::Panicked(p) => {
                    cx.eval();
                    if op.returns_result() {
                        let c = eng.case(json!({"panic":p.msg,"op":op.name()}));
                        cx.violation(&format!("C19|{}|panic_instead_of_err_on_refused_mlock", op.name()), c);
                    } else {
                        cx.cover("allowed_panic(no Result in signature)", op.name().split('(').next().unwrap());
                        eng.trace.push(format!("  -> panicked (allowed: {} cannot report an error): {}", op.name(), p.msg));
                    }
                    eng.pump_events();
                    // the survivors must still agree with the model
                    eng.observe(cx, &format!("{} (panic)", op.name()));
                    break;
                }
            }
        }
    }
    let calls = mlock_calls();
    mlock_reset(-1);
    eng.drop_all();
    // everything is still wiped and unlocked on drop
    cx.eval();
    if !eng.releases_nonzero.is_empty() {
        let (_, size, nz) = eng.releases_nonzero[0];
        let c = eng.case(json!({"size":size,"nonzero_bytes":nz}));
        cx.violation("C19|released_with_nonzero_bytes_after_refused_mlock", c);
    }
    eng.quiescence(cx);
    calls
}

fn enumerate_k(cx: &mut Ctx, eng: &mut Engine, resizable: bool, len: usize, ctor: &str, ops: &[Op], pick: &[usize]) {
    let n = run_faulty(cx, eng, resizable, len, ctor, ops, pick, -1);
    cx.cover("lock_requests_per_sequence", &format!("{}", n));
    for k in 0..n {
        run_faulty(cx, eng, resizable, len, ctor, ops, pick, k as i64);
        cx.cover("fail_from_k", &format!("{}", k));
    }
}

/// Result-returning constructors of the object types
fn object_constructors(cx: &mut Ctx, eng: &mut Engine) {
    type F = fn() -> Result<(), String>;
    fn es<T, E: std::fmt::Display>(r: Result<T, E>) -> Result<(), String> {
        r.map(|_| ()).map_err(|e| e.to_string())
    }
    let list: Vec<(&str, F)> = vec![
        ("HeapByteArray<32>::new_locked", || es(HeapByteArray::<32>::new_locked())),
        ("HeapByteArray<32>::new_readonly_locked", || es(HeapByteArray::<32>::new_readonly_locked())),
        ("HeapByteArray<32>::gen_locked", || es(HeapByteArray::<32>::gen_locked())),
        ("HeapByteArray<32>::gen_readonly_locked", || es(HeapByteArray::<32>::gen_readonly_locked())),
        ("HeapBytes::new_locked", || es(HeapBytes::new_locked())),
        ("HeapBytes::gen_readonly_locked", || es(HeapBytes::gen_readonly_locked())),
        ("HeapBytes::from_slice_into_locked(300)", || es(HeapBytes::from_slice_into_locked(&[7u8; 300]))),
        ("HeapBytes::from_slice_into_readonly_locked(5000)", || es(HeapBytes::from_slice_into_readonly_locked(&[7u8; 5000]))),
        ("StackByteArray<32>::mlock", || es(StackByteArray::<32>::from([3u8; 32]).mlock())),
        ("KeyPair::new_locked_keypair", || es(KeyPair::<Locked<HeapByteArray<32>>, Locked<HeapByteArray<32>>>::new_locked_keypair())),
        ("KeyPair::gen_locked_keypair", || es(KeyPair::<Locked<HeapByteArray<32>>, Locked<HeapByteArray<32>>>::gen_locked_keypair())),
        ("KeyPair::gen_readonly_locked_keypair", || es(KeyPair::<LockedRO<HeapByteArray<32>>, LockedRO<HeapByteArray<32>>>::gen_readonly_locked_keypair())),
        ("SigningKeyPair::new_locked_keypair", || es(SigningKeyPair::<Locked<HeapByteArray<32>>, Locked<HeapByteArray<64>>>::new_locked_keypair())),
        ("SigningKeyPair::gen_locked_keypair", || es(SigningKeyPair::<Locked<HeapByteArray<32>>, Locked<HeapByteArray<64>>>::gen_locked_keypair())),
        ("SigningKeyPair::gen_readonly_locked_keypair", || es(SigningKeyPair::<LockedRO<HeapByteArray<32>>, LockedRO<HeapByteArray<64>>>::gen_readonly_locked_keypair())),
        ("PrecalcSecretKey::precalculate_locked", || es(PrecalcSecretKey::precalculate_locked(&[9u8; 32], &[5u8; 32]))),
        ("PrecalcSecretKey::precalculate_readonly_locked", || es(PrecalcSecretKey::precalculate_readonly_locked(&[9u8; 32], &[5u8; 32]))),
        // deserialisation into locked containers is a Result-returning constructor too
        ("serde_json -> Locked<HeapByteArray<32>>", || es(serde_json::from_str::<Locked<HeapByteArray<32>>>(&serde_json::to_string(&vec![7u8; 32]).unwrap()))),
        ("bincode -> Locked<HeapByteArray<32>>", || es(bincode::deserialize::<Locked<HeapByteArray<32>>>(&bincode::serialize(&vec![7u8; 32]).unwrap()))),
        ("serde_json -> LockedBytes", || es(serde_json::from_str::<LockedBytes>(&serde_json::to_string(&vec![7u8; 300]).unwrap()))),
        ("bincode -> LockedBytes", || es(bincode::deserialize::<LockedBytes>(&bincode::serialize(&vec![7u8; 300]).unwrap()))),
        ("serde_json -> LockedKeyPair", || {
            let js = format!("{{\"public_key\":{:?},\"secret_key\":{:?}}}", vec![7u8; 32], vec![9u8; 32]);
            es(serde_json::from_str::<KeyPair<Locked<HeapByteArray<32>>, Locked<HeapByteArray<32>>>>(&js))
        }),
    ];
    for (ei, (name, f)) in list.iter().enumerate() {
        if !cx.mine(1_000_000 + ei as u64) {
            continue;
        }
        cx.key(name);
        // fault-free count
        mlock_reset(-1);
        let r0 = guard(name, || f());
        let n = mlock_calls();
        eng.reset_sequence();
        eng.drop_all();
        if !matches!(r0, Ok(Ok(()))) {
            cx.violation("HARNESS|C19|constructor_fails_without_injection", json!({"constructor":name}));
            continue;
        }
        for k in 0..n.max(1) {
            eng.reset_sequence();
            eng.trace.push(format!("[mlock refused from call #{}] {}", k, name));
            mlock_reset(k as i64);
            cx.cover("refusal_errno", mlock_errno_name());
            let r = guard(name, || f());
            let refused = mlock_refused();
            mlock_reset(-1);
            cx.eval();
            match r {
                Ok(Ok(())) if refused > 0 => {
                    let c = eng.case(json!({"constructor":name,"refused_lock_requests":refused}));
                    cx.violation(&format!("C19|{}|ok_although_lock_request_was_refused", name), c);
                }
                Ok(_) => {}
                Err(p) => {
                    let c = eng.case(json!({"panic":p.msg,"constructor":name}));
                    cx.violation(&format!("C19|{}|panic_instead_of_err_on_refused_mlock", name), c);
                }
            }
            eng.drop_all();
            if !eng.releases_nonzero.is_empty() {
                let c = eng.case(json!({"constructor":name}));
                cx.violation("C19|released_with_nonzero_bytes_after_refused_mlock", c);
            }
            eng.quiescence(cx);
            cx.cover("object_constructor", name);
        }
    }
}

/// regions that are released *while a panic unwinds*: a refused lock becomes a panic in the caller's own code (`expect`)
/// or inside the crate (a locked resize), and regions created earlier in the same scope (read-write, read-only,
/// no-access) are dropped by the unwinding. They must be unprotected, wiped and unlocked as on any other drop.
fn unwinding(cx: &mut Ctx, idx: &mut u64) {
    for (variant, len) in [("expect_on_refused_constructor", 48usize), ("expect_on_refused_constructor", 5000), ("refused_locked_resize", 48), ("refused_locked_resize", 4097)] {
        *idx += 1;
        if !cx.mine(*idx) {
            continue;
        }
        let pat = pattern(0x77, len);
        let before = osview::vmlck_kb();
        // dry run without injection: how many lock requests precede the one to be refused
        mlock_reset(-1);
        {
            let _r1 = HeapBytes::from_slice_into_locked(&pat).unwrap();
            let _r2 = HeapBytes::from_slice_into_readonly_locked(&pat).unwrap();
            let _r3 = HeapBytes::from_slice_into_locked(&pat).unwrap().munlock().unwrap().mprotect_noaccess().unwrap();
            let _r4 = HeapBytes::from_slice_into_locked(&pat).unwrap().munlock().unwrap().mprotect_readonly().unwrap();
        }
        let n = mlock_calls();
        mlock_reset(n as i64);
        let marker = format!("unwind {}", variant);
        let r = guard(&marker, || {
            let mut r1 = HeapBytes::from_slice_into_locked(&pat).unwrap();
            let _r2 = HeapBytes::from_slice_into_readonly_locked(&pat).unwrap();
            let _r3 = HeapBytes::from_slice_into_locked(&pat).unwrap().munlock().unwrap().mprotect_noaccess().unwrap();
            let _r4 = HeapBytes::from_slice_into_locked(&pat).unwrap().munlock().unwrap().mprotect_readonly().unwrap();
            if variant == "refused_locked_resize" {
                r1.resize(len * 2 + 5000, 1); // needs a fresh lock: refused -> the crate panics by design
            } else {
                let _r5 = HeapBytes::from_slice_into_locked(&pat).expect("refused lock (panic raised by the caller)");
            }
        });
        let refused = mlock_refused();
        mlock_reset(-1);
        cx.eval();
        let c = || json!({"variant":variant,"len":len,"lock_requests_before_refusal":n,"refused":refused});
        if r.is_ok() || refused == 0 {
            cx.violation("HARNESS|C19|unwinding_scenario_did_not_panic", c());
            continue;
        }
        let after = osview::vmlck_kb();
        if after != before {
            cx.violation("C19|unwinding|locked_pages_left_after_regions_were_dropped_by_unwinding", json!({"VmLck_kB_before":before,"VmLck_kB_after":after,"case":c()}));
        }
        let sm = osview::smaps();
        if sm.iter().any(|v| v.locked) && before == 0 {
            cx.violation("C19|unwinding|vm_locked_flag_left_after_unwinding", c());
        }
        cx.cover("unwinding", variant);
        cx.key(&format!("unwind {} {}", variant, len));
    }
}

pub fn run(cx: &mut Ctx) {
    let use_fork = cx.opt("no_fork").is_none();
    if let Err(e) = osview::selfcheck(use_fork) {
        cx.violation("HARNESS|C19|os_observer_selfcheck_failed", json!({"why":e}));
        return;
    }
    // the interposer must be the one dryoc's calls reach
    mlock_reset(0);
    let probe = HeapByteArray::<16>::new_locked();
    let seen = mlock_calls();
    mlock_reset(-1);
    if probe.is_ok() || seen == 0 {
        cx.violation("HARNESS|C19|mlock_interposer_not_effective", json!({"calls_seen":seen,"new_locked_ok":probe.is_ok()}));
        return;
    }
    drop(probe);
    {
        let mut uidx = 5_000_000u64;
        unwinding(cx, &mut uidx);
    }
    let mut eng = Engine::new("C19", use_fork, cx.opt("no_efault").is_none());
    eng.fork_every = 13;
    drain_events();
    let page = eng.page;
    let depth = cx.tier.pick(1usize, 2, 3);
    let mut idx = 0u64;
    for resizable in [true, false] {
        let lens: &[usize] = if resizable { &BYTES_LENS } else { &ARRAY_LENS };
        let ctors: &[&str] = if resizable { &HB_CTORS } else { &ARR_CTORS };
        for &len in lens {
            if cx.tier == Tier::Tiny && ![0usize, 1, 32, 4097].contains(&len) {
                continue;
            }
            for ctor in ctors {
                let alphabet = ops_for(resizable, len, page);
                let mut digits = vec![0usize; depth];
                loop {
                    idx += 1;
                    if cx.mine(idx) {
                        let ops: Vec<Op> = digits.iter().map(|d| alphabet[*d]).collect();
                        enumerate_k(cx, &mut eng, resizable, len, ctor, &ops, &[]);
                        cx.key_h(idx);
                        cx.cover("constructor", &format!("{}::{}", if resizable { "HeapBytes" } else { "HeapByteArray" }, ctor));
                    }
                    let mut carry = true;
                    for d in digits.iter_mut().rev() {
                        *d += 1;
                        if *d < alphabet.len() {
                            carry = false;
                            break;
                        }
                        *d = 0;
                    }
                    if carry {
                        break;
                    }
                }
            }
        }
    }
    // random longer sequences with several regions alive
    let nrand = cx.tier.pick(6usize, 400, 40_000);
    for i in 0..nrand {
        idx += 1;
        if !cx.mine(idx) {
            continue;
        }
        let mut rng: Rng = cx.rng.fork(idx);
        let resizable = rng.chance(1, 2);
        let lens: &[usize] = if resizable { &BYTES_LENS } else { &ARRAY_LENS };
        let len = *rng.pick(lens);
        let ctors: &[&str] = if resizable { &HB_CTORS } else { &ARR_CTORS };
        let ctor = *rng.pick(ctors);
        let alphabet = ops_for(resizable, len, page);
        let ops: Vec<Op> = (0..8).map(|_| match *rng.pick(&alphabet) {
            Op::Drop if rng.chance(2, 3) => Op::Clone,
            o => o,
        }).collect();
        let pick: Vec<usize> = (0..8).map(|_| rng.below(4)).collect();
        enumerate_k(cx, &mut eng, resizable, len, ctor, &ops, &pick);
        cx.key_h(idx);
        if i == 5 {
            cx.sample(json!({"family":"random sequence under every fail-from-k","last_trace":eng.trace}));
        }
    }
    object_constructors(cx, &mut eng);
    if cx.shard == 0 {
        cx.sample(json!({"family":"exhaustive","depth":depth,"fault":"k-th and all later mlock() calls return -1/ENOMEM, for every k < n (n measured fault-free)"}));
    }
    if observer_overflowed() {
        cx.violation("HARNESS|C19|allocator_event_ring_overflow", json!({}));
    }
}
