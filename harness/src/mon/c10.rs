//! C10 — password-hash strings are self-describing and interoperate with libsodium.

use dryoc::classic::crypto_pwhash::*;
use dryoc::pwhash::{Config, PwHash};
use serde_json::json;

use super::*;
use crate::ctx::{hx, Ctx};
use crate::sodium as na;

const B64: &[u8] = b"ABCDEFGHIJKLMNOPQRSTUVWXYZabcdefghijklmnopqrstuvwxyz0123456789+/";

pub fn b64enc(d: &[u8]) -> String {
    let mut s = String::new();
    for c in d.chunks(3) {
        let n = (c[0] as u32) << 16 | (*c.get(1).unwrap_or(&0) as u32) << 8 | *c.get(2).unwrap_or(&0) as u32;
        s.push(B64[(n >> 18) as usize & 63] as char);
        s.push(B64[(n >> 12) as usize & 63] as char);
        if c.len() > 1 {
            s.push(B64[(n >> 6) as usize & 63] as char);
        }
        if c.len() > 2 {
            s.push(B64[n as usize & 63] as char);
        }
    }
    s
}

pub fn b64dec(s: &str) -> Option<Vec<u8>> {
    let mut out = Vec::new();
    let mut acc = 0u32;
    let mut bits = 0;
    for ch in s.bytes() {
        let v = B64.iter().position(|c| *c == ch)? as u32;
        acc = acc << 6 | v;
        bits += 6;
        if bits >= 8 {
            bits -= 8;
            out.push((acc >> bits) as u8);
            acc &= (1 << bits) - 1;
        }
    }
    if s.len() % 4 == 1 || acc != 0 {
        return None;
    }
    Some(out)
}

#[derive(Debug, Clone)]
pub struct Decoded {
    pub alg: String,
    pub v: u32,
    pub m: u32,
    pub t: u32,
    pub p: u32,
    pub salt: Vec<u8>,
    pub hash: Vec<u8>,
}

/// strict decoder of the PHC string layout libsodium emits: $argon2{i,id}$v=19$m=..,t=..,p=..$salt$hash
pub fn decode(s: &str) -> Option<Decoded> {
    let parts: Vec<&str> = s.split('$').collect();
    if parts.len() != 6 || !parts[0].is_empty() {
        return None;
    }
    let v = parts[2].strip_prefix("v=")?.parse().ok()?;
    let ps: Vec<&str> = parts[3].split(',').collect();
    if ps.len() != 3 {
        return None;
    }
    Some(Decoded {
        alg: parts[1].to_string(),
        v,
        m: ps[0].strip_prefix("m=")?.parse().ok()?,
        t: ps[1].strip_prefix("t=")?.parse().ok()?,
        p: ps[2].strip_prefix("p=")?.parse().ok()?,
        salt: b64dec(parts[4])?,
        hash: b64dec(parts[5])?,
    })
}

fn encode(alg: &str, m: u32, t: u32, salt: &[u8], hash: &[u8]) -> String {
    format!("${}$v=19$m={},t={},p=1${}${}", alg, m, t, b64enc(salt), b64enc(hash))
}

/// checks that a dryoc-produced string describes what was actually used and that libsodium agrees
fn check_dryoc_string(cx: &mut Ctx, origin: &str, s: &str, pw: &[u8], alg_used: &str, t: u64, memlimit: usize, salt_used: Option<&[u8]>, hash_len: usize) {
    let case = || json!({"origin":origin,"string":s,"pw":hx(pw),"alg_used":alg_used,"opslimit":t,"memlimit":memlimit});
    cx.eval();
    let Some(d) = decode(s) else {
        cx.violation(&format!("C10|{}|string_not_in_phc_layout", origin), case());
        return;
    };
    let fields_ok = d.alg == alg_used && d.v == 19 && d.p == 1 && d.t as u64 == t && d.m as usize == memlimit / 1024 && d.hash.len() == hash_len && salt_used.map(|x| x == &d.salt[..]).unwrap_or(true);
    if !fields_ok {
        let which = if d.alg != alg_used { "algorithm" } else if d.t as u64 != t || d.m as usize != memlimit / 1024 { "costs" } else { "other" };
        cx.violation(&format!("C10|{}|encoded_fields_differ_from_parameters_used|{}", origin, which), json!({"decoded":format!("{:?}", d),"case":case()}));
    }
    // second opinion: re-hash with what the string says (libsodium's Argon2 core) and compare with the encoded hash
    if d.alg == "argon2i" || d.alg == "argon2id" {
        if d.salt.len() >= 8 && d.hash.len() >= 16 && d.m >= 8 && d.m <= 4096 && d.t >= 1 && (d.t <= 8 || d.m <= 16 && d.t <= 600) {
            let re = na::argon2_raw(d.alg == "argon2id", d.t, d.m, pw, &d.salt, d.hash.len());
            cx.eval();
            if re.as_deref() != Some(&d.hash[..]) {
                cx.violation(&format!("C10|{}|string_does_not_describe_its_own_hash", origin), json!({"decoded":format!("{:?}", d),"case":case()}));
            }
        }
    }
    // libsodium's verifier on the dryoc string
    cx.eval();
    match na::pwhash_str_verify(s, pw) {
        Some(true) => {}
        Some(false) => cx.violation(&format!("C10|{}|libsodium_rejects_right_password", origin), case()),
        None => cx.violation("HARNESS|C10|string_with_nul", case()),
    }
    let mut wrong = pw.to_vec();
    wrong.push(b'!');
    cx.eval();
    if na::pwhash_str_verify(s, &wrong) == Some(true) {
        cx.violation(&format!("C10|{}|libsodium_accepts_wrong_password", origin), case());
    }
}

/// a valid string (from either library or built by the harness): dryoc must verify it, round-trip it, answer needs_rehash
fn check_under_dryoc(cx: &mut Ctx, origin: &str, s: &str, pw: &[u8], rng: &mut crate::prng::Rng) {
    let case = || json!({"origin":origin,"string":s,"pw":hx(pw)});
    let d = decode(s).expect("harness passes only well-formed strings here");
    let std_sizes = d.hash.len() == 32;
    // classic verifier (it hashes to 32 bytes: only meaningful for 32-byte hashes)
    if std_sizes {
        if let Some(r) = call(cx, "C10|crypto_pwhash_str_verify", "crypto_pwhash_str_verify", case, || crypto_pwhash_str_verify(s, pw)) {
            expect(cx, &format!("C10|crypto_pwhash_str_verify|rejects_right_password|{}", origin), r.is_ok(), case);
        }
        let mut wrong = pw.to_vec();
        if wrong.is_empty() {
            wrong.push(0);
        } else {
            let j = rng.below(wrong.len());
            wrong[j] ^= 1 << rng.below(8);
        }
        if let Some(r) = call(cx, "C10|crypto_pwhash_str_verify", "crypto_pwhash_str_verify", case, || crypto_pwhash_str_verify(s, &wrong)) {
            expect(cx, &format!("C10|crypto_pwhash_str_verify|accepts_wrong_password|{}", origin), r.is_err(), case);
        }
    }
    // object API: parse, verify, re-encode
    let parsed = call(cx, "C10|PwHash::from_string", "PwHash::from_string", case, || PwHash::<Vec<u8>, Vec<u8>>::from_string(s));
    match parsed {
        Some(Ok(ph)) => {
            if let Some(r) = call(cx, "C10|PwHash::verify", "PwHash::verify", case, || ph.verify(&pw.to_vec())) {
                expect(cx, &format!("C10|PwHash::from_string+verify|rejects_right_password|{}", origin), r.is_ok(), case);
            }
            let mut wrong = pw.to_vec();
            wrong.push(b'?');
            if let Some(r) = call(cx, "C10|PwHash::verify", "PwHash::verify", case, || ph.verify(&wrong)) {
                expect(cx, &format!("C10|PwHash::from_string+verify|accepts_wrong_password|{}", origin), r.is_err(), case);
            }
            if let Some(s2) = call(cx, "C10|PwHash::to_string", "PwHash::to_string", case, || ph.to_string()) {
                cx.eval();
                if s2 != s {
                    let cls = if d.alg == "argon2i" { "argon2i" } else { "argon2id" };
                    cx.violation(&format!("C10|PwHash::to_string|reencoding_differs|{}", cls), json!({"reencoded":s2,"case":case()}));
                }
            }
        }
        Some(Err(e)) => cx.violation(&format!("C10|PwHash::from_string|rejects_valid_string|{}", origin), json!({"err":e.to_string(),"case":case()})),
        None => {}
    }
    // needs_rehash: false exactly when both cost parameters match
    for (ops, mem_kib) in [(d.t as u64, d.m as usize), (d.t as u64 + 1, d.m as usize), (d.t as u64, d.m as usize + 1), (d.t as u64 + 1, d.m as usize * 2), (d.t.max(2) as u64 - 1, d.m as usize)] {
        let memlimit = mem_kib * 1024 + rng.below(1024);
        let want = ops != d.t as u64 || mem_kib != d.m as usize;
        let c2 = || json!({"string":s,"opslimit":ops,"memlimit":memlimit,"want":want});
        if let Some(r) = call(cx, "C10|crypto_pwhash_str_needs_rehash", "crypto_pwhash_str_needs_rehash", c2, || crypto_pwhash_str_needs_rehash(s, ops, memlimit)) {
            cx.eval();
            match r {
                Ok(b) if b == want => {}
                Ok(_) => cx.violation(&format!("C10|crypto_pwhash_str_needs_rehash|wrong_answer|{}", if want { "says_no_rehash_needed_but_costs_differ" } else { "says_rehash_needed_but_costs_match" }), c2()),
                Err(e) => cx.violation("C10|crypto_pwhash_str_needs_rehash|err_on_valid_string", json!({"err":e.to_string(),"case":c2()})),
            }
            // libsodium agrees with the stated rule for its own 16/32-byte strings (sanity of the rule)
            if d.salt.len() == 16 && d.hash.len() == 32 && d.alg == "argon2id" && memlimit >= 8192 && ops >= 1 {
                if let Some(n) = na::pwhash_str_needs_rehash(s, ops, memlimit) {
                    if n >= 0 && (n == 1) != want {
                        cx.violation("HARNESS|C10|needs_rehash_rule_differs_from_libsodium", c2());
                    }
                }
            }
        }
    }
    cx.cover("string_origin", origin);
    cx.cover("alg", &d.alg);
    cx.cover("salt_len", &format!("{}", d.salt.len()));
    cx.cover("hash_len", &format!("{}", d.hash.len()));
}

/// valid strings with arbitrary (not hashable in reasonable time) cost fields: parse -> re-encode must be the identity
/// and needs_rehash must follow the rule; no hash is computed, so every u32 cost is in reach
fn parse_only(cx: &mut Ctx, idx0: &mut u64) {
    const M: [u32; 19] = [8, 9, 80, 81, 800, 1023, 1024, 65535, 65536, 1 << 20, (1 << 22) - 1, 1 << 22, (1 << 22) + 1, 1 << 24, (1 << 31) - 1, 1 << 31, (1 << 31) + 1, u32::MAX - 1, u32::MAX];
    const T: [u32; 16] = [1, 2, 3, 10, 12, 19, 123, 255, 256, 65535, 65536, (1 << 31) - 1, 1 << 31, (1 << 31) + 1, u32::MAX - 1, u32::MAX];
    let nrand = cx.tier.pick(2usize, 200, 20_000);
    let total = M.len() * T.len() + nrand;
    for i in 0..total {
        *idx0 += 1;
        if !cx.mine(*idx0) {
            continue;
        }
        let mut rng = cx.rng.fork(*idx0);
        let (m, t) = if i < M.len() * T.len() { (M[i / T.len()], T[i % T.len()]) } else { (rng.u64() as u32 >> rng.below(29), (rng.u64() as u32 >> rng.below(32)).max(1)) };
        let m = m.max(8);
        let id = rng.chance(1, 2);
        let std = rng.chance(1, 2);
        let (sl, hl) = if std { (16, 32) } else { (rng.range(8, 64), rng.range(16, 128)) };
        let salt = rng.bytes(sl);
        let hash = rng.bytes(hl);
        let s = encode(if id { "argon2id" } else { "argon2i" }, m, t, &salt, &hash);
        cx.key(&format!("parse_only m={} t={} {}", m, t, id));
        let case = || json!({"origin":"parse_only","string":s});
        if let Some(r) = call(cx, "C10|PwHash::from_string", "PwHash::from_string", case, || PwHash::<Vec<u8>, Vec<u8>>::from_string(&s)) {
            match r {
                Ok(ph) => {
                    if let Some(s2) = call(cx, "C10|PwHash::to_string", "PwHash::to_string", case, || ph.to_string()) {
                        cx.eval();
                        if s2 != s {
                            cx.violation(&format!("C10|PwHash::to_string|reencoding_differs|parse_only|{}", if m >= 1 << 22 { "m>=2^22" } else if t >= 1 << 31 { "t>=2^31" } else { "other" }), json!({"reencoded":s2,"case":case()}));
                        }
                    }
                }
                Err(e) => cx.violation("C10|PwHash::from_string|rejects_valid_string|parse_only", json!({"err":e.to_string(),"case":case()})),
            }
        }
        // needs_rehash: rule, and libsodium's own answer for its string shape
        // ... and costs whose decimal text is a prefix / an extension of the stored one (10 vs 1, 123 vs 12, 8 vs 80)
        for (ops, mem_kib) in [(t as u64, m as u64), (t as u64 + 1, m as u64), (t as u64, m as u64 + 1), (t as u64, (m as u64) ^ (1 << 22)), ((t as u64) ^ (1 << 31), m as u64), (t.max(2) as u64 - 1, m as u64),
            (t as u64 / 10, m as u64), (t as u64 / 100, m as u64), (t as u64 * 10, m as u64), (t as u64 * 10 + 7, m as u64), (t as u64, m as u64 / 10), (t as u64, m as u64 * 10), (t as u64, m as u64 * 10 + 3)] {
            if ops > u32::MAX as u64 * 4 || mem_kib > (1u64 << 34) {
                continue;
            }
            if ops == 0 || mem_kib < 8 {
                continue;
            }
            let memlimit = (mem_kib * 1024) as usize + rng.below(1024);
            let want = ops != t as u64 || mem_kib != m as u64;
            let c2 = || json!({"string":s,"opslimit":ops,"memlimit":memlimit,"want":want});
            if let Some(r) = call(cx, "C10|crypto_pwhash_str_needs_rehash", "crypto_pwhash_str_needs_rehash", c2, || crypto_pwhash_str_needs_rehash(&s, ops, memlimit)) {
                cx.eval();
                match r {
                    Ok(b) if b == want => {}
                    Ok(_) => cx.violation(&format!("C10|crypto_pwhash_str_needs_rehash|wrong_answer|{}", if want { "says_no_rehash_needed_but_costs_differ" } else { "says_rehash_needed_but_costs_match" }), c2()),
                    Err(e) => cx.violation("C10|crypto_pwhash_str_needs_rehash|err_on_valid_string", json!({"err":e.to_string(),"case":c2()})),
                }
                if std && id && ops <= u32::MAX as u64 && mem_kib <= 4_294_967_295 {
                    if let Some(n) = na::pwhash_str_needs_rehash(&s, ops, memlimit) {
                        if n >= 0 && (n == 1) != want {
                            cx.violation("HARNESS|C10|needs_rehash_rule_differs_from_libsodium", c2());
                        } else if n >= 0 {
                            cx.cover("parse_only", "needs_rehash_rule_confirmed_by_libsodium");
                        }
                    }
                }
            }
        }
        cx.cover("parse_only", if m >= 1 << 22 { "m>=2^22" } else { "m<2^22" });
        cx.cover("parse_only", if t >= 1 << 31 { "t>=2^31" } else { "t<2^31" });
    }
}

/// valid strings whose *salt* text looks like another field of the format: it starts with "argon2" (the algorithm names),
/// "v" or "m"/"t"/"p" followed by digits. The fields of the format are positional; a parser that classifies them by their
/// content misreads such a salt. (The hash text cannot be chosen, the salt can: 2^-36 per random salt, trivial on purpose.)
fn field_lookalike_salts(cx: &mut Ctx, idx: &mut u64) {
    let prefixes = ["argon2", "argon2i", "argon2id", "argon2idx", "v19", "m8t1p1", "p1", "t2m8"];
    for (pi, pre) in prefixes.iter().enumerate() {
        for id in [true, false] {
            *idx += 1;
            if !cx.mine(*idx) {
                continue;
            }
            let mut rng = cx.rng.fork(*idx);
            // 16-byte salt = 22 base64 characters, the last one with its low four bits clear
            const A: &[u8] = b"ABCDEFGHIJKLMNOPQRSTUVWXYZabcdefghijklmnopqrstuvwxyz0123456789+/";
            let mut text: String = pre.to_string();
            while text.len() < 21 {
                text.push(A[rng.below(64)] as char);
            }
            text.push(*rng.pick(&['A', 'Q', 'g', 'w']));
            let Some(salt) = b64dec(&text) else {
                cx.violation("HARNESS|C10|lookalike_salt_not_decodable", json!({"text":text}));
                continue;
            };
            if b64enc(&salt) != text {
                cx.violation("HARNESS|C10|lookalike_salt_not_canonical", json!({"text":text}));
                continue;
            }
            let pw = rng.bytes(12);
            let (t, m) = (if id { 1u32 } else { 3 }, 8u32);
            let hash = na::argon2_raw(id, t, m, &pw, &salt, 32).unwrap();
            let s = encode(if id { "argon2id" } else { "argon2i" }, m, t, &salt, &hash);
            if na::pwhash_str_verify(&s, &pw) != Some(true) {
                cx.violation("HARNESS|C10|libsodium_rejects_harness_built_string", json!({"string":s}));
                continue;
            }
            cx.key(&format!("lookalike salt {} {}", pi, id));
            check_under_dryoc(cx, "built_salt_text_looks_like_a_field", &s, &pw, &mut rng);
            cx.cover("lookalike_salt_prefix", pre);
        }
    }
}

pub fn run(cx: &mut Ctx) {
    let n = cx.tier.pick(6usize, 600, 300_000);
    let mut idx = 0u64;
    parse_only(cx, &mut idx);
    field_lookalike_salts(cx, &mut idx);
    for i in 0..n {
        idx += 1;
        if !cx.mine(idx) {
            continue;
        }
        let mut rng = cx.rng.fork(idx);
        cx.key_h(idx);
        let pwlen = match i % 9 {
            0 => 0,
            1 => 128,
            _ => rng.range(0, 128),
        };
        let mut pw = rng.bytes(pwlen);
        if i % 5 == 0 {
            for b in pw.iter_mut() {
                if *b == 0 {
                    *b = 1; // libsodium's C-string API for the *password* takes a length, NULs are fine; keep some cases NUL-free anyway
                }
            }
        }
        // mostly 1..4 passes; one case in 12 uses a pass count beyond 2^8 with a small memory (cheap, and past the width of a byte)
        let big_t = rng.chance(1, 12);
        let ops = if big_t { *rng.pick(&[256u64, 257, 300, 513]) } else { rng.range(1, 4) as u64 };
        // mostly small; one case in 16 has segments longer than one address block (128) and not a multiple of it
        let mem_kib = if big_t {
            *rng.pick(&[8usize, 9, 16])
        } else if rng.chance(1, 16) { *rng.pick(&[516usize, 600, 1000, 1500]) } else { *rng.pick(&[8usize, 9, 16, 31, 64, 128, 256]) };
        let memlimit = mem_kib * 1024 + if rng.chance(1, 3) { rng.below(1024) } else { 0 };
        cx.cover("opslimit", &format!("{}", ops));
        cx.cover("mem_kib", &format!("{}", mem_kib));
        cx.cover("pwlen_class", if pwlen == 0 { "0" } else if pwlen == 128 { "128" } else { "1..127" });

        match i % 6 {
            0 | 1 => {
                // dryoc string API
                let case = || json!({"op":"crypto_pwhash_str","pw":hx(&pw),"opslimit":ops,"memlimit":memlimit});
                if let Some(r) = call(cx, "C10|crypto_pwhash_str", "crypto_pwhash_str", case, || crypto_pwhash_str(&pw, ops, memlimit)) {
                    match r {
                        Ok(s) => {
                            check_dryoc_string(cx, "crypto_pwhash_str", &s, &pw, "argon2id", ops, memlimit, None, 32);
                            if decode(&s).is_some() {
                                check_under_dryoc(cx, "crypto_pwhash_str", &s, &pw, &mut rng);
                            }
                            if i == 0 {
                                cx.sample(json!({"origin":"crypto_pwhash_str","string":s}));
                            }
                        }
                        Err(e) => cx.violation("C10|crypto_pwhash_str|unexpected_err", json!({"err":e.to_string(),"case":case()})),
                    }
                }
            }
            2 => {
                // object API with salt lengths 8..=64 and hash lengths 16..=128 (Argon2id presets)
                let sl = rng.range(8, 64);
                let hl = rng.range(16, 128);
                let salt = rng.bytes(sl);
                // the salt container decides the salt; a config whose salt_length says something else must not matter
                let cfg_salt = match rng.below(3) {
                    0 => None,
                    1 => Some(sl),
                    _ => Some(rng.range(8, 64)),
                };
                let (cfg, cfg_desc) = build_config(&mut rng, ops, memlimit, hl, cfg_salt);
                cx.cover("config_salt_length_vs_salt", match cfg_salt { None => "default(16)", Some(x) if x == sl => "equal", Some(_) => "different" });
                let case = || json!({"op":"PwHash::hash_with_salt+to_string","saltlen":sl,"hashlen":hl,"config_salt_length":cfg_salt,"config_built_as":cfg_desc});
                if let Some(Ok(ph)) = call(cx, "C10|PwHash::hash_with_salt", "PwHash::hash_with_salt", case, || PwHash::<Vec<u8>, Vec<u8>>::hash_with_salt(&pw, salt.clone(), cfg.clone())) {
                    if let Some(s) = call(cx, "C10|PwHash::to_string", "PwHash::to_string", case, || ph.to_string()) {
                        check_dryoc_string(cx, "PwHash::to_string", &s, &pw, "argon2id", ops, memlimit, Some(&salt), hl);
                        if decode(&s).is_some() {
                            check_under_dryoc(cx, "PwHash::to_string", &s, &pw, &mut rng);
                        }
                    }
                }
                // PwHash::hash (random salt chosen inside) -> to_string
                if i % 12 == 2 {
                    if let Some(Ok(ph)) = call(cx, "C10|PwHash::hash", "PwHash::hash", case, || PwHash::<Vec<u8>, Vec<u8>>::hash(&pw, cfg.clone())) {
                        let s = ph.to_string();
                        check_dryoc_string(cx, "PwHash::hash+to_string", &s, &pw, "argon2id", ops, memlimit, None, hl);
                    }
                }
            }
            3 => {
                // libsodium-produced strings, both algorithms
                let id = rng.chance(1, 2);
                let ops2 = if id { ops } else { ops.max(3) };
                let s = if id { na::pwhash_str(&pw, ops2, memlimit) } else { na::pwhash_argon2i_str(&pw, ops2, memlimit) };
                let Some(s) = s else {
                    cx.violation("HARNESS|C10|libsodium_str_failed", json!({"ops":ops2,"memlimit":memlimit}));
                    continue;
                };
                check_under_dryoc(cx, if id { "libsodium_argon2id_str" } else { "libsodium_argon2i_str" }, &s, &pw, &mut rng);
                if i == 3 {
                    cx.sample(json!({"origin":"libsodium","string":s}));
                }
            }
            _ => {
                // harness-built valid strings: both algorithms, any salt / hash length
                let id = rng.chance(1, 2);
                let sl = rng.range(8, 64);
                let hl = if rng.chance(1, 2) { 32 } else { rng.range(16, 128) };
                let salt = rng.bytes(sl);
                let hash = na::argon2_raw(id, ops as u32, mem_kib as u32, &pw, &salt, hl).unwrap();
                let s = encode(if id { "argon2id" } else { "argon2i" }, mem_kib as u32, ops as u32, &salt, &hash);
                if na::pwhash_str_verify(&s, &pw) != Some(true) {
                    cx.violation("HARNESS|C10|libsodium_rejects_harness_built_string", json!({"string":s}));
                    continue;
                }
                check_under_dryoc(cx, if id { "built_argon2id" } else { "built_argon2i" }, &s, &pw, &mut rng);
            }
        }
    }
}
