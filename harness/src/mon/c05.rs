//! C05 — X25519 is exact for every scalar and point; DH and key exchange agree with libsodium.

use dryoc::classic::crypto_box::crypto_box_beforenm;
use dryoc::classic::crypto_core::{crypto_scalarmult, crypto_scalarmult_base};
use dryoc::classic::crypto_kx::*;
use dryoc::keypair::KeyPair;
use dryoc::kx::Session;
use dryoc::precalc::PrecalcSecretKey;
use dryoc::types::*;
use serde_json::json;

use super::*;
use crate::ctx::{hx, unhex, Ctx};
use crate::sodium as na;

pub fn p25519() -> [u8; 32] {
    let mut p = [0xffu8; 32];
    p[0] = 0xed;
    p[31] = 0x7f;
    p
}

fn add_small(base: &[u8; 32], delta: i64) -> [u8; 32] {
    // little-endian add of a small signed delta (mod 2^256)
    let mut out = *base;
    let mut carry: i128 = delta as i128;
    for b in out.iter_mut() {
        let v = *b as i128 + (carry & 0xff);
        *b = (v & 0xff) as u8;
        carry = (carry >> 8) + (v >> 8);
    }
    out
}

/// the small-order / non-canonical encodings libsodium block-lists, plus more edge encodings
pub fn special_points() -> Vec<(String, [u8; 32])> {
    let mut v: Vec<(String, [u8; 32])> = Vec::new();
    let p = p25519();
    let mut zero = [0u8; 32];
    let mut one = [0u8; 32];
    one[0] = 1;
    let o8a: [u8; 32] = unhex("e0eb7a7c3b41b8ae1656e3faf19fc46ada098deb9c32b1fd866205165f49b800").try_into().unwrap();
    let o8b: [u8; 32] = unhex("5f9c95bca3508c24b1d0b1559c83ef5b04445cc4581c8e86d8224eddd09f1157").try_into().unwrap();
    v.push(("loworder:0".into(), zero));
    v.push(("loworder:1".into(), one));
    v.push(("loworder:order8a".into(), o8a));
    v.push(("loworder:order8b".into(), o8b));
    v.push(("loworder:p-1".into(), add_small(&p, -1)));
    v.push(("loworder:p".into(), p));
    v.push(("loworder:p+1".into(), add_small(&p, 1)));
    // non-canonical encodings of the order-8 points do not fit below 2^255; other edge values:
    for k in [2i64, 3, 9, 18] {
        zero[0] = k as u8;
        v.push((format!("u={}", k), zero));
    }
    for k in [-20i64, -3, -2, 2, 3, 9, 10, 18] {
        v.push((format!("u=p{:+}", k), add_small(&p, k)));
    }
    let mut m = [0xffu8; 32];
    m[31] = 0x7f;
    v.push(("u=2^255-1".into(), m));
    v.push(("u=2^255-2".into(), add_small(&m, -1)));
    // each of the above with bit 255 set
    let base: Vec<(String, [u8; 32])> = v.clone();
    for (n, b) in base {
        let mut hb = b;
        hb[31] |= 0x80;
        v.push((format!("{}|bit255", n), hb));
    }
    // RFC 7748 section 5.2 input points
    v.push(("rfc7748:u1".into(), unhex("e6db6867583030db3594c1a424b15f7c726624ec26b3353b10a903a6d0ab1c4c").try_into().unwrap()));
    v.push(("rfc7748:u2(bit255 set)".into(), unhex("e5210f12786811d3f4b7959d0538ae2c31dbe7106fc03c3efc4cd549c715a493").try_into().unwrap()));
    v
}

fn special_scalars(rng: &mut crate::prng::Rng) -> Vec<(String, [u8; 32])> {
    let mut v: Vec<(String, [u8; 32])> = vec![("zero".into(), [0u8; 32]), ("ff".into(), [0xff; 32])];
    for bit in [0usize, 1, 2, 3, 7, 8, 127, 128, 251, 252, 253, 254, 255] {
        let mut s = [0u8; 32];
        s[bit / 8] |= 1 << (bit % 8);
        v.push((format!("bit{}", bit), s));
    }
    // two scalars that differ only in clamped bits must give the same result
    let a: [u8; 32] = rng.arr();
    let mut b = a;
    b[0] ^= 7;
    b[31] ^= 0xc0;
    v.push(("random_a".into(), a));
    v.push(("random_a^clampedbits".into(), b));
    v.push(("rfc7748:k1".into(), unhex("a546e36bf0527c9d3b16154b82465edd62144c0ac1fc5a18506a2244ba449ac4").try_into().unwrap()));
    v.push(("rfc7748:k2".into(), unhex("4b66e9d4d1b4673c5ad22691957d6af5c11b6421e0ea01d42ca4169e7918ba0d").try_into().unwrap()));
    // order of the prime subgroup and neighbours (reduction mod l must not matter)
    let l: [u8; 32] = unhex("edd3f55c1a631258d69cf7a2def9de1400000000000000000000000000000010").try_into().unwrap();
    v.push(("l".into(), l));
    v.push(("l+8".into(), add_small(&l, 8)));
    v.push(("8l-ish(ff..7f)".into(), { let mut s = [0xffu8; 32]; s[31] = 0x7f; s }));
    v
}

/// one scalar multiplication, judged against libsodium (and logged for the Python ladder)
fn check_mult(cx: &mut Ctx, n: &[u8; 32], pt: &[u8; 32], sclass: &str, pclass: &str, log_io: bool) {
    let (rc, want) = na::scalarmult(n, pt);
    let mut q = [0xEEu8; 32];
    let case = || json!({"op":"crypto_scalarmult","n":hx(n),"p":hx(pt),"scalar_class":sclass,"point_class":pclass,"libsodium_rc":rc});
    if call(cx, "C05|crypto_scalarmult", "crypto_scalarmult", case, || crypto_scalarmult(&mut q, n, pt)).is_none() {
        return;
    }
    let coarse = if pclass.starts_with("loworder") { "loworder" } else if pclass.starts_with("random") { "random_encoding" } else if pclass.starts_with("basemult") { "prime_subgroup" } else if pclass.starts_with("neighbour") { "neighbour_of_special" } else { "edge_encoding" };
    if rc == 0 {
        expect_eq(cx, &format!("C05|crypto_scalarmult|mismatch_vs_libsodium|{}", coarse), &q, &want, case);
    } else {
        // libsodium refuses (block-listed input or all-zero result): the RFC 7748 value is all-zero
        expect_eq(cx, &format!("C05|crypto_scalarmult|nonzero_output_where_x25519_is_zero|{}", coarse), &q, &[0u8; 32], case);
    }
    if log_io {
        cx.io("x25519", json!({"n":hx(n),"p":hx(pt),"out":hx(&q),"class":pclass,"libsodium_rc":rc}));
    }
}

pub fn run(cx: &mut Ctx) {
    let only_ni = cx.opt("nightly_forms_only").is_some();
    let nrandom = if only_ni { 0 } else { cx.tier.pick(32usize, 20_000, 2_000_000) };
    let mut idx = 0u64;
    let specials = special_points();

    // ---------------------------------------------------------------- scalarmult: random x random
    for i in 0..nrandom {
        idx += 1;
        if !cx.mine(idx) {
            continue;
        }
        let mut rng = cx.rng.fork(idx);
        let n: [u8; 32] = rng.arr();
        let pt: [u8; 32] = rng.arr();
        cx.key_h(idx);
        check_mult(cx, &n, &pt, "random", "random_encoding", i % 200 == 0);
        cx.cover("point_class", "random_encoding");
        // a base-point multiple as the point (the prime-order subgroup: what the pinned tests use)
        if i % 4 == 0 {
            let s2: [u8; 32] = rng.arr();
            let bp = na::scalarmult_base(&s2);
            check_mult(cx, &n, &bp, "random", "basemult", i % 800 == 0);
            cx.cover("point_class", "prime_subgroup");
            // scalarmult_base itself, and DH commutativity for this honest pair
            let mut pk_a = stale_arr::<32>();
            let case = || json!({"op":"crypto_scalarmult_base","n":hx(&n)});
            if call(cx, "C05|crypto_scalarmult_base", "crypto_scalarmult_base", case, || crypto_scalarmult_base(&mut pk_a, &n)).is_some() {
                expect_eq(cx, "C05|crypto_scalarmult_base|mismatch_vs_libsodium", &pk_a, &na::scalarmult_base(&n), case);
                if i % 800 == 0 {
                    cx.io("x25519_base", json!({"n":hx(&n),"out":hx(&pk_a)}));
                }
                let mut ab = stale_arr::<32>();
                let mut ba = stale_arr::<32>();
                crypto_scalarmult(&mut ab, &n, &bp);
                crypto_scalarmult(&mut ba, &s2, &pk_a);
                expect_eq(cx, "C05|crypto_scalarmult|dh_does_not_commute", &ab, &ba, || json!({"a":hx(&n),"b":hx(&s2)}));
            }
        }
        if i == 5 {
            cx.sample(json!({"family":"random","n":hx(&n),"p":hx(&pt)}));
        }
    }

    // ------------------------------------------------------- special scalars x special points
    {
        let mut srng = crate::prng::Rng::new(cx.seed, 0xC05);
        let scalars = special_scalars(&mut srng);
        let extra_random = cx.tier.pick(2usize, 24, 200);
        for (pn, pt) in &specials {
            for (sn, n) in scalars.iter().cloned().chain((0..extra_random).map(|j| (format!("random{}", j), srng.arr::<32>()))) {
                idx += 1;
                if !cx.mine(idx) {
                    continue;
                }
                cx.key(&format!("special {} {}", pn, sn));
                check_mult(cx, &n, pt, &sn, pn, true);
                cx.cover("special_point", pn);
                cx.cover("special_scalar", if sn.starts_with("random") && sn != "random_a" && sn != "random_a^clampedbits" { "random" } else { &sn });
                cx.cover("point_class", if pn.starts_with("loworder") { "loworder" } else { "edge_encoding" });
            }
        }
        // special scalars against random points, and the clamped-bit twins give identical outputs
        for (sn, n) in &scalars {
            idx += 1;
            if !cx.mine(idx) {
                continue;
            }
            let mut rng = cx.rng.fork(idx);
            for _ in 0..cx.tier.pick(1, 8, 64) {
                let pt: [u8; 32] = rng.arr();
                check_mult(cx, n, &pt, sn, "random_encoding", false);
            }
            cx.key(&format!("special scalar {}", sn));
        }
        if cx.mine(idx + 1) {
            let a = scalars.iter().find(|(n, _)| n == "random_a").unwrap().1;
            let b = scalars.iter().find(|(n, _)| n == "random_a^clampedbits").unwrap().1;
            for (pn, pt) in &specials {
                let mut qa = stale_arr::<32>();
                let mut qb = stale_arr::<32>();
                crypto_scalarmult(&mut qa, &a, pt);
                crypto_scalarmult(&mut qb, &b, pt);
                expect_eq(cx, "C05|crypto_scalarmult|clamped_bits_change_result", &qa, &qb, || json!({"p":hx(pt),"pclass":pn}));
            }
        }
        idx += 1;
    }

    // ---------------------------------------------------------------- RFC 7748 iterated vectors
    if cx.shard == 0 && !only_ni {
        let iters: &[(usize, &str)] = match cx.tier {
            crate::ctx::Tier::Tiny => &[(1, "422c8e7a6227d7bca1350b3e2bb7279f7897b87bb6854b783c60e80311ae3079")],
            crate::ctx::Tier::Quick => &[(1, "422c8e7a6227d7bca1350b3e2bb7279f7897b87bb6854b783c60e80311ae3079"), (1000, "684cf59ba83309552800ef566f2f4d3c1c3887c49360e3875f2eb94d99532c51")],
            crate::ctx::Tier::Thorough => &[(1, "422c8e7a6227d7bca1350b3e2bb7279f7897b87bb6854b783c60e80311ae3079"), (1000, "684cf59ba83309552800ef566f2f4d3c1c3887c49360e3875f2eb94d99532c51"), (1_000_000, "7c3911e0ab2586fd864497297e575e6f3bc601c0883c30df5f4dd2d24f665424")],
        };
        let mut k = [0u8; 32];
        k[0] = 9;
        let mut u = k;
        let mut done = 0usize;
        for (target, want) in iters {
            while done < *target {
                let mut out = stale_arr::<32>();
                crypto_scalarmult(&mut out, &k, &u);
                u = k;
                k = out;
                done += 1;
            }
            expect_eq(cx, "C05|crypto_scalarmult|rfc7748_iterated_vector", &k, &unhex(want), || json!({"iterations":target}));
            cx.cover("rfc7748_iterations", &format!("{}", target));
        }
        cx.evaln(done as u64);
    }

    // --------------------------------------------------------------------- beforenm / precalc
    let nbox = cx.tier.pick(8usize, 3000, 400_000);
    for i in 0..nbox {
        idx += 1;
        if !cx.mine(idx) {
            continue;
        }
        let mut rng = cx.rng.fork(idx);
        let sk: [u8; 32] = rng.arr();
        let (pk, pclass): ([u8; 32], &str) = match i % 3 {
            0 => (na::scalarmult_base(&rng.arr::<32>()), "honest"),
            1 => (rng.arr(), "random_encoding"),
            _ => (specials[rng.below(specials.len())].1, "special"),
        };
        cx.key_h(idx);
        let case = || json!({"op":"crypto_box_beforenm","pk":hx(&pk),"sk":hx(&sk),"pk_class":pclass});
        let want = na::box_beforenm(&pk, &sk);
        if let Some(k) = call(cx, "C05|crypto_box_beforenm", "crypto_box_beforenm", case, || crypto_box_beforenm(&pk, &sk)) {
            match &want {
                Some(w) => {
                    expect_eq(cx, &format!("C05|crypto_box_beforenm|mismatch_vs_libsodium|{}", pclass), &k, w, case);
                    cx.cover("beforenm", &format!("{}:compared", pclass));
                    if i % 100 == 0 {
                        cx.io("beforenm", json!({"pk":hx(&pk),"sk":hx(&sk),"out":hx(&k)}));
                    }
                }
                None => cx.cover("beforenm", &format!("{}:libsodium_refuses(not compared)", pclass)),
            }
            // object API on the same inputs
            let p1 = call(cx, "C05|PrecalcSecretKey::precalculate", "PrecalcSecretKey::precalculate", case, || PrecalcSecretKey::precalculate(&pk, &sk));
            if let Some(p1) = p1 {
                expect_eq(cx, "C05|PrecalcSecretKey::precalculate|differs_from_classic", p1.as_slice(), &k, case);
            }
            let kp: KeyPair<StackByteArray<32>, StackByteArray<32>> = KeyPair::from_secret_key(StackByteArray::from(sk));
            let p2 = call(cx, "C05|KeyPair::precalculate", "KeyPair::precalculate", case, || kp.precalculate(&StackByteArray::from(pk)));
            if let Some(p2) = p2 {
                expect_eq(cx, "C05|KeyPair::precalculate|differs_from_classic", p2.as_slice(), &k, case);
            }
            #[cfg(feature = "nightly")]
            {
                use dryoc::protected::*;
                if let Some(Ok(p3)) = call(cx, "C05|PrecalcSecretKey::precalculate_locked", "PrecalcSecretKey::precalculate_locked", case, || PrecalcSecretKey::precalculate_locked(&pk, &sk)) {
                    expect_eq(cx, "C05|PrecalcSecretKey::precalculate_locked|differs_from_classic", p3.as_slice(), &k, case);
                }
                if let Some(Ok(p4)) = call(cx, "C05|PrecalcSecretKey::precalculate_readonly_locked", "PrecalcSecretKey::precalculate_readonly_locked", case, || PrecalcSecretKey::precalculate_readonly_locked(&pk, &sk)) {
                    expect_eq(cx, "C05|PrecalcSecretKey::precalculate_readonly_locked|differs_from_classic", p4.as_slice(), &k, case);
                }
                let lkp: KeyPair<Locked<HeapByteArray<32>>, Locked<HeapByteArray<32>>> = KeyPair { public_key: HeapByteArray::<32>::new_locked().unwrap(), secret_key: HeapByteArray::<32>::from_slice_into_locked(&sk).unwrap() };
                if let Some(Ok(p5)) = call(cx, "C05|KeyPair::precalculate_locked", "KeyPair::precalculate_locked", case, || lkp.precalculate_locked(&pk)) {
                    expect_eq(cx, "C05|KeyPair::precalculate_locked|differs_from_classic", p5.as_slice(), &k, case);
                }
                cx.cover("beforenm", "locked_and_readonly_locked_containers");
            }
        }
    }

    // ------------------------------------------------ one-bit and one-byte neighbours of every special encoding
    // (a recogniser for "the base point", "a low-order point", "u >= p" that looks at too few bits is right on the
    // special value itself and on random encodings, and wrong exactly here)
    if !only_ni {
        let mut bases: Vec<(String, [u8; 32])> = specials.iter().filter(|(n, _)| !n.contains("|bit255") && !n.starts_with("rfc7748")).cloned().collect();
        let mut nine = [0u8; 32];
        nine[0] = 9;
        if !bases.iter().any(|(_, b)| *b == nine) {
            bases.push(("u=9".into(), nine));
        }
        let per_byte = cx.tier.pick(1usize, 2, 24);
        for (bn, base) in &bases {
            idx += 1;
            if !cx.mine(idx) {
                continue;
            }
            let mut rng = cx.rng.fork(idx);
            let n: [u8; 32] = rng.arr();
            cx.key(&format!("neighbours of {}", bn));
            for bit in 0..256usize {
                let mut pt = *base;
                pt[bit / 8] ^= 1 << (bit % 8);
                check_mult(cx, &n, &pt, "random", "neighbour:one_bit", bit % 64 == 0);
            }
            for byte in 0..32usize {
                for _ in 0..per_byte {
                    let mut pt = *base;
                    let v = rng.below(255) as u8 + 1;
                    pt[byte] ^= v;
                    let n2: [u8; 32] = rng.arr();
                    check_mult(cx, &n2, &pt, "random", "neighbour:one_byte", false);
                }
            }
            cx.cover("point_class", "neighbour_of_special");
            cx.cover("neighbours_of", bn);
        }
    }

    // ------------------------------------------------------------------------------------- kx
    let nkx = cx.tier.pick(8usize, 2000, 200_000);
    for i in 0..nkx {
        idx += 1;
        if !cx.mine(idx) {
            continue;
        }
        let mut rng = cx.rng.fork(idx);
        // key pairs from libsodium, or generated by the crate's own generators (an "honestly generated pair" must be a
        // real pair: public key = base-point multiple of the secret key)
        let origin = ["libsodium", "crypto_kx_seed_keypair", "crypto_kx_keypair", "KeyPair::gen"][i % 4];
        let mut gen_pair = |rng: &mut crate::prng::Rng| -> ([u8; 32], [u8; 32]) {
            match origin {
                "crypto_kx_seed_keypair" => dryoc::classic::crypto_kx::crypto_kx_seed_keypair(&rng.arr()).expect("kx seed keypair"),
                "crypto_kx_keypair" => dryoc::classic::crypto_kx::crypto_kx_keypair(),
                "KeyPair::gen" => {
                    let kp: KeyPair<StackByteArray<32>, StackByteArray<32>> = KeyPair::gen();
                    (*kp.public_key.as_array(), *kp.secret_key.as_array())
                }
                _ => na::kx_seed_keypair(&rng.arr()),
            }
        };
        let (cpk, csk) = gen_pair(&mut rng);
        let (spk, ssk) = gen_pair(&mut rng);
        cx.key_h(idx);
        let case = || json!({"op":"kx","key_pairs_from":origin,"cpk":hx(&cpk),"csk":hx(&csk),"spk":hx(&spk),"ssk":hx(&ssk)});
        expect(cx, &format!("C05|{}|public_key_is_not_the_base_point_multiple_of_the_secret_key", origin), na::scalarmult_base(&csk) == cpk && na::scalarmult_base(&ssk) == spk, case);
        cx.cover("kx_key_pair_origin", origin);
        let (mut crx, mut ctx_, mut srx, mut stx) = ([0u8; 32], [0u8; 32], [0u8; 32], [0u8; 32]);
        let rc = call(cx, "C05|crypto_kx_client_session_keys", "crypto_kx_client_session_keys", case, || crypto_kx_client_session_keys(&mut crx, &mut ctx_, &cpk, &csk, &spk));
        let rs = call(cx, "C05|crypto_kx_server_session_keys", "crypto_kx_server_session_keys", case, || crypto_kx_server_session_keys(&mut srx, &mut stx, &spk, &ssk, &cpk));
        if let (Some(rc), Some(rs)) = (rc, rs) {
            expect(cx, "C05|crypto_kx|honest_pair_refused", rc.is_ok() && rs.is_ok(), case);
            let (nrx, ntx) = na::kx_client(&cpk, &csk, &spk).unwrap();
            expect_eq(cx, "C05|crypto_kx_client_session_keys|mismatch_vs_libsodium", &[crx, ctx_].concat(), &[nrx, ntx].concat(), case);
            let (nsrx, nstx) = na::kx_server(&spk, &ssk, &cpk).unwrap();
            expect_eq(cx, "C05|crypto_kx_server_session_keys|mismatch_vs_libsodium", &[srx, stx].concat(), &[nsrx, nstx].concat(), case);
            expect(cx, "C05|crypto_kx|client_rx_tx_not_server_tx_rx", crx == stx && ctx_ == srx, case);
            if i % 100 == 0 {
                cx.io("kx", json!({"cpk":hx(&cpk),"csk":hx(&csk),"spk":hx(&spk),"client_rx":hx(&crx),"client_tx":hx(&ctx_)}));
            }
            // object API
            let ckp: KeyPair<StackByteArray<32>, StackByteArray<32>> = KeyPair::from_slices(&cpk, &csk).unwrap();
            let skp: KeyPair<StackByteArray<32>, StackByteArray<32>> = KeyPair::from_slices(&spk, &ssk).unwrap();
            let cs = call(cx, "C05|Session::new_client", "Session::new_client", case, || Session::<StackByteArray<32>>::new_client(&ckp, &skp.public_key));
            let ss = call(cx, "C05|Session::new_server", "Session::new_server", case, || Session::<Vec<u8>>::new_server(&skp, &ckp.public_key));
            if let (Some(Ok(cs)), Some(Ok(ss))) = (&cs, &ss) {
                expect(cx, "C05|Session|differs_from_classic", cs.rx_as_slice() == crx && cs.tx_as_slice() == ctx_ && ss.rx_as_slice() == srx && ss.tx_as_slice() == stx, case);
            } else {
                cx.violation("C05|Session|honest_pair_refused", case());
            }
            let cs2 = call(cx, "C05|KeyPair::kx_new_client_session", "KeyPair::kx_new_client_session", case, || ckp.kx_new_client_session::<[u8; 32]>(&skp.public_key));
            if let Some(Ok(cs2)) = cs2 {
                expect(cx, "C05|KeyPair::kx_new_client_session|differs_from_classic", cs2.rx_as_array() == &crx && cs2.tx_as_array() == &ctx_, case);
            }
            let ss2 = call(cx, "C05|KeyPair::kx_new_server_session", "KeyPair::kx_new_server_session", case, || skp.kx_new_server_session::<[u8; 32]>(&ckp.public_key));
            if let Some(Ok(ss2)) = ss2 {
                expect(cx, "C05|KeyPair::kx_new_server_session|differs_from_classic", ss2.rx_as_array() == &srx && ss2.tx_as_array() == &stx, case);
            }
        }
        // own public key presented in another form: with bit 255 set (X25519 ignores it, so it is the same
        // point), a key that belongs to another secret key, or all-zero. libsodium hashes the bytes the caller
        // supplies; the classic and the object API must do the same in both roles, and the two ends still mirror
        // each other when each is told the other's key in the form it was announced.
        {
            let kind = ["bit255_set", "belongs_to_another_secret_key", "all_zero"][i % 3];
            let (mut cpk2, mut spk2) = (cpk, spk);
            match kind {
                "bit255_set" => {
                    cpk2[31] |= 0x80;
                    spk2[31] |= 0x80;
                }
                "belongs_to_another_secret_key" => {
                    cpk2 = na::scalarmult_base(&rng.arr());
                    spk2 = na::scalarmult_base(&rng.arr());
                }
                _ => {
                    cpk2 = [0u8; 32];
                    spk2 = [0u8; 32];
                }
            }
            let case2 = || json!({"op":"kx","own_public_key_form":kind,"cpk":hx(&cpk2),"csk":hx(&csk),"spk":hx(&spk2),"ssk":hx(&ssk)});
            // the peer's key is the genuine one only where the own key was merely re-encoded
            let (peer_for_client, peer_for_server) = if kind == "bit255_set" { (spk2, cpk2) } else { (spk, cpk) };
            let want_c = na::kx_client(&cpk2, &csk, &peer_for_client);
            let want_s = na::kx_server(&spk2, &ssk, &peer_for_server);
            let (mut rx, mut tx) = ([0u8; 32], [0u8; 32]);
            if let (Some(Ok(())), Some((wrx, wtx))) = (call(cx, "C05|crypto_kx_client_session_keys", "crypto_kx_client_session_keys", case2, || crypto_kx_client_session_keys(&mut rx, &mut tx, &cpk2, &csk, &peer_for_client)), &want_c) {
                expect_eq(cx, "C05|crypto_kx_client_session_keys|mismatch_vs_libsodium|own_key_form", &[rx, tx].concat(), &[*wrx, *wtx].concat(), case2);
            }
            let (mut rx, mut tx) = ([0u8; 32], [0u8; 32]);
            if let (Some(Ok(())), Some((wrx, wtx))) = (call(cx, "C05|crypto_kx_server_session_keys", "crypto_kx_server_session_keys", case2, || crypto_kx_server_session_keys(&mut rx, &mut tx, &spk2, &ssk, &peer_for_server)), &want_s) {
                expect_eq(cx, "C05|crypto_kx_server_session_keys|mismatch_vs_libsodium|own_key_form", &[rx, tx].concat(), &[*wrx, *wtx].concat(), case2);
            }
            let ckp2: KeyPair<StackByteArray<32>, StackByteArray<32>> = KeyPair::from_slices(&cpk2, &csk).unwrap();
            let skp2: KeyPair<StackByteArray<32>, StackByteArray<32>> = KeyPair::from_slices(&spk2, &ssk).unwrap();
            let pc = StackByteArray::<32>::from(peer_for_client);
            let ps = StackByteArray::<32>::from(peer_for_server);
            let oc = call(cx, "C05|Session::new_client", "Session::new_client", case2, || Session::<StackByteArray<32>>::new_client(&ckp2, &pc).map(|s| (*s.rx_as_array(), *s.tx_as_array())));
            let os = call(cx, "C05|Session::new_server", "Session::new_server", case2, || Session::<StackByteArray<32>>::new_server(&skp2, &ps).map(|s| (*s.rx_as_array(), *s.tx_as_array())));
            if let (Some(Ok((orx, otx))), Some((wrx, wtx))) = (&oc, &want_c) {
                expect_eq(cx, "C05|Session::new_client|mismatch_vs_libsodium|own_key_form", &[*orx, *otx].concat(), &[*wrx, *wtx].concat(), case2);
            } else {
                cx.violation("C05|Session::new_client|decision_differs_from_libsodium|own_key_form", case2());
            }
            if let (Some(Ok((orx, otx))), Some((wrx, wtx))) = (&os, &want_s) {
                expect_eq(cx, "C05|Session::new_server|mismatch_vs_libsodium|own_key_form", &[*orx, *otx].concat(), &[*wrx, *wtx].concat(), case2);
            } else {
                cx.violation("C05|Session::new_server|decision_differs_from_libsodium|own_key_form", case2());
            }
            if kind == "bit255_set" {
                if let (Some(Ok((crx2, ctx2))), Some(Ok((srx2, stx2)))) = (&oc, &os) {
                    expect(cx, "C05|Session|client_rx_tx_not_server_tx_rx|own_key_form", crx2 == stx2 && ctx2 == srx2, case2);
                }
            }
            let k2 = call(cx, "C05|KeyPair::kx_new_client_session", "KeyPair::kx_new_client_session", case2, || ckp2.kx_new_client_session::<Vec<u8>>(&pc).map(|s| s.into_parts()));
            if let (Some(Ok((orx, otx))), Some((wrx, wtx))) = (&k2, &want_c) {
                expect_eq(cx, "C05|KeyPair::kx_new_client_session|mismatch_vs_libsodium|own_key_form", &[orx.as_slice(), otx.as_slice()].concat(), &[*wrx, *wtx].concat(), case2);
            }
            let k3 = call(cx, "C05|KeyPair::kx_new_server_session", "KeyPair::kx_new_server_session", case2, || skp2.kx_new_server_session::<Vec<u8>>(&ps).map(|s| s.into_parts()));
            if let (Some(Ok((orx, otx))), Some((wrx, wtx))) = (&k3, &want_s) {
                expect_eq(cx, "C05|KeyPair::kx_new_server_session|mismatch_vs_libsodium|own_key_form", &[orx.as_slice(), otx.as_slice()].concat(), &[*wrx, *wtx].concat(), case2);
            }
            cx.cover("kx_own_public_key_form", kind);
        }
        cx.cover("kx", "honest");
    }
    // ---------------------------------------------------- peers chosen so that the shared secret is structured
    // For a target u-coordinate t of a point P in the prime-order subgroup, the peer key u([k^-1 mod l]P) makes
    // X25519(k, peer) = t. Targets: shared secrets whose 64-bit words repeat / cancel / are mostly zero — operands
    // on which a folded or word-wise zero test, or a partial comparison, goes wrong while a bytewise one does not.
    {
        use curve25519_dalek::montgomery::MontgomeryPoint;
        use curve25519_dalek::scalar::Scalar;
        let nstruct = cx.tier.pick(2usize, 40, 600);
        for i in 0..nstruct {
            idx += 1;
            if !cx.mine(idx) {
                continue;
            }
            let mut rng = cx.rng.fork(idx);
            let pattern = ["w0=w1,w2=w3", "w0=w2,w1=w3", "all_words_equal", "xor_of_words_zero", "low_half_zero", "high_half_zero", "single_nonzero_word", "first_16_zero"][i % 8];
            // search the pattern family for a member that is the u-coordinate of a torsion-free curve point
            let mut found: Option<([u8; 32], curve25519_dalek::edwards::EdwardsPoint)> = None;
            for _ in 0..400 {
                let a = rng.u64();
                let b = rng.u64();
                let c = rng.u64();
                let w: [u64; 4] = match pattern {
                    "w0=w1,w2=w3" => [a, a, b & 0x7fff_ffff_ffff_ffff, b & 0x7fff_ffff_ffff_ffff],
                    "w0=w2,w1=w3" => [a & 0x7fff_ffff_ffff_ffff, b & 0x7fff_ffff_ffff_ffff, a & 0x7fff_ffff_ffff_ffff, b & 0x7fff_ffff_ffff_ffff],
                    "all_words_equal" => [a & 0x7fff_ffff_ffff_ffff; 4],
                    "xor_of_words_zero" => [a, b, c, (a ^ b ^ c)],
                    "low_half_zero" => [0, 0, a, b & 0x7fff_ffff_ffff_ffff],
                    "high_half_zero" => [a, b, 0, 0],
                    "single_nonzero_word" => {
                        let mut w = [0u64; 4];
                        w[(a % 4) as usize] = b | 1;
                        w
                    }
                    _ => [0, 0, a, b],
                };
                let mut t = [0u8; 32];
                for (j, x) in w.iter().enumerate() {
                    t[8 * j..8 * j + 8].copy_from_slice(&x.to_le_bytes());
                }
                if t[31] & 0x80 != 0 || t == [0u8; 32] {
                    if pattern == "xor_of_words_zero" {
                        t[31] &= 0x7f; // keep the pattern only if it still holds
                        let chk = (0..4).fold(0u64, |acc, j| acc ^ u64::from_le_bytes(t[8 * j..8 * j + 8].try_into().unwrap()));
                        if chk != 0 {
                            continue;
                        }
                    } else {
                        continue;
                    }
                }
                if let Some(p) = MontgomeryPoint(t).to_edwards(0) {
                    if p.is_torsion_free() && MontgomeryPoint(t).to_bytes() == p.to_montgomery().to_bytes() {
                        found = Some((t, p));
                        break;
                    }
                }
            }
            let Some((target, point)) = found else { continue };
            let (mypk, mysk) = na::kx_seed_keypair(&rng.arr());
            let mut clamped = mysk;
            clamped[0] &= 248;
            clamped[31] &= 127;
            clamped[31] |= 64;
            let k = Scalar::from_bytes_mod_order(clamped);
            let peer = (k.invert() * point).to_montgomery().to_bytes();
            // the construction must hold under the reference before dryoc is judged with it
            let (rc, got) = na::scalarmult(&mysk, &peer);
            if rc != 0 || got != target {
                cx.violation("HARNESS|C05|structured_shared_secret_construction_failed", json!({"pattern":pattern}));
                continue;
            }
            cx.key(&format!("structured {} {}", pattern, i));
            cx.cover("structured_shared_secret", pattern);
            check_mult(cx, &mysk, &peer, "honest", "structured_shared_secret", i % 4 == 0);
            for role in ["client", "server"] {
                let case = || json!({"op":"kx","role":role,"peer":hx(&peer),"shared_secret":hx(&target),"pattern":pattern,"pk":hx(&mypk),"sk":hx(&mysk)});
                let (mut rx, mut tx) = ([0u8; 32], [0u8; 32]);
                let (got, want) = if role == "client" {
                    (call(cx, "C05|crypto_kx_client_session_keys", "crypto_kx_client_session_keys", case, || crypto_kx_client_session_keys(&mut rx, &mut tx, &mypk, &mysk, &peer)), na::kx_client(&mypk, &mysk, &peer))
                } else {
                    (call(cx, "C05|crypto_kx_server_session_keys", "crypto_kx_server_session_keys", case, || crypto_kx_server_session_keys(&mut rx, &mut tx, &mypk, &mysk, &peer)), na::kx_server(&mypk, &mysk, &peer))
                };
                let (Some(got), Some((wrx, wtx))) = (got, want) else { continue };
                cx.eval();
                match got {
                    Ok(()) => {
                        expect_eq(cx, &format!("C05|crypto_kx_{}_session_keys|mismatch_vs_libsodium|structured_shared_secret", role), &[rx, tx].concat(), &[wrx, wtx].concat(), case);
                    }
                    Err(e) => cx.violation(&format!("C05|crypto_kx_{}_session_keys|refuses_valid_peer|structured_shared_secret", role), json!({"err":e.to_string(),"case":case()})),
                }
            }
            if i == 0 {
                cx.sample(json!({"family":"structured_shared_secret","pattern":pattern,"peer":hx(&peer),"shared_secret":hx(&target)}));
            }
        }
    }

    // kx with every special / low-order / random peer key: decision must equal libsodium's
    for (pn, peer) in specials.iter().cloned().chain((0..cx.tier.pick(4, 200, 5000)).map(|j| (format!("random{}", j), [0u8; 32]))).chain((0..cx.tier.pick(1, 8, 64)).map(|j| (format!("reflected_own_key{}", j), [0u8; 32]))) {
        idx += 1;
        if !cx.mine(idx) {
            continue;
        }
        let mut rng = cx.rng.fork(idx);
        let peer = if pn.starts_with("random") { rng.arr::<32>() } else { peer };
        let (mypk, mysk) = na::kx_seed_keypair(&rng.arr());
        // the peer presents our own public key (loop-back, two instances provisioned from one seed): an ordinary exchange
        let peer = if pn.starts_with("reflected") { mypk } else { peer };
        let coarse = if pn.starts_with("loworder") { "loworder_peer" } else if pn.starts_with("random") { "random_peer" } else if pn.starts_with("reflected") { "peer_key_equals_own_key" } else { "edge_peer" };
        cx.key(&format!("kx peer {}", pn));
        for role in ["client", "server"] {
            let case = || json!({"op":"kx","role":role,"peer":hx(&peer),"peer_class":pn,"pk":hx(&mypk),"sk":hx(&mysk)});
            let (mut rx, mut tx) = ([0u8; 32], [0u8; 32]);
            let (got, want) = if role == "client" {
                (call(cx, "C05|crypto_kx_client_session_keys", "crypto_kx_client_session_keys", case, || crypto_kx_client_session_keys(&mut rx, &mut tx, &mypk, &mysk, &peer)), na::kx_client(&mypk, &mysk, &peer))
            } else {
                (call(cx, "C05|crypto_kx_server_session_keys", "crypto_kx_server_session_keys", case, || crypto_kx_server_session_keys(&mut rx, &mut tx, &mypk, &mysk, &peer)), na::kx_server(&mypk, &mysk, &peer))
            };
            let Some(got) = got else { continue };
            match (&got, &want) {
                (Ok(()), Some((wrx, wtx))) => {
                    expect_eq(cx, &format!("C05|crypto_kx_{}_session_keys|mismatch_vs_libsodium|{}", role, coarse), &[rx, tx].concat(), &[*wrx, *wtx].concat(), case);
                }
                (Err(_), None) => {
                    cx.eval();
                    cx.cover("kx_refused", pn.as_str());
                }
                (Ok(()), None) => {
                    cx.eval();
                    cx.violation(&format!("C05|crypto_kx_{}_session_keys|accepts_all_zero_shared_secret", role), case());
                }
                (Err(e), Some(_)) => {
                    cx.eval();
                    cx.violation(&format!("C05|crypto_kx_{}_session_keys|refuses_valid_peer", role), json!({"err":e.to_string(),"case":case()}));
                }
            }
            // object API must take the same decision
            let kp: KeyPair<StackByteArray<32>, StackByteArray<32>> = KeyPair::from_slices(&mypk, &mysk).unwrap();
            let peer_s = StackByteArray::<32>::from(peer);
            let r = if role == "client" {
                call(cx, "C05|Session::new_client", "Session::new_client", case, || Session::<StackByteArray<32>>::new_client(&kp, &peer_s).map(|s| (*s.rx_as_array(), *s.tx_as_array())))
            } else {
                call(cx, "C05|Session::new_server", "Session::new_server", case, || Session::<StackByteArray<32>>::new_server(&kp, &peer_s).map(|s| (*s.rx_as_array(), *s.tx_as_array())))
            };
            if let Some(r) = r {
                expect(cx, &format!("C05|Session::new_{}|decision_differs_from_libsodium", role), r.is_ok() == want.is_some(), case);
                // and, where it accepts, derive the same keys (the peer key is hashed exactly as presented)
                if let (Ok((orx, otx)), Some((wrx, wtx))) = (&r, &want) {
                    expect_eq(cx, &format!("C05|Session::new_{}|mismatch_vs_libsodium|{}", role, coarse), &[*orx, *otx].concat(), &[*wrx, *wtx].concat(), case);
                }
            }
            let r2 = if role == "client" {
                call(cx, "C05|KeyPair::kx_new_client_session", "KeyPair::kx_new_client_session", case, || kp.kx_new_client_session::<Vec<u8>>(&peer_s).map(|s| s.into_parts()))
            } else {
                call(cx, "C05|KeyPair::kx_new_server_session", "KeyPair::kx_new_server_session", case, || kp.kx_new_server_session::<Vec<u8>>(&peer_s).map(|s| s.into_parts()))
            };
            if let Some(r2) = r2 {
                expect(cx, &format!("C05|KeyPair::kx_new_{}_session|decision_differs_from_libsodium", role), r2.is_ok() == want.is_some(), case);
                if let (Ok((orx, otx)), Some((wrx, wtx))) = (&r2, &want) {
                    expect_eq(cx, &format!("C05|KeyPair::kx_new_{}_session|mismatch_vs_libsodium|{}", role, coarse), &[orx.as_slice(), otx.as_slice()].concat(), &[*wrx, *wtx].concat(), case);
                }
            }
            let r3 = if role == "client" {
                call(cx, "C05|Session::new_client_with_defaults", "Session::new_client_with_defaults", case, || dryoc::kx::Session::new_client_with_defaults(&kp, &peer_s).map(|s| s.into_parts()))
            } else {
                call(cx, "C05|Session::new_server_with_defaults", "Session::new_server_with_defaults", case, || dryoc::kx::Session::new_server_with_defaults(&kp, &peer_s).map(|s| s.into_parts()))
            };
            if let Some(r3) = r3 {
                expect(cx, &format!("C05|Session::new_{}_with_defaults|decision_differs_from_libsodium", role), r3.is_ok() == want.is_some(), case);
                if let (Ok((orx, otx)), Some((wrx, wtx))) = (&r3, &want) {
                    expect_eq(cx, &format!("C05|Session::new_{}_with_defaults|mismatch_vs_libsodium|{}", role, coarse), &[orx.as_slice(), otx.as_slice()].concat(), &[*wrx, *wtx].concat(), case);
                }
            }
        }
        cx.cover("kx", coarse);
    }
}
