//! Shared tables of authenticated-encryption entry points (used by C01, C02, C04, C17).
//!
//! Wire format handled here is libsodium's combined layout: `mac || body` for secretbox / box /
//! precomputed-key box, `epk || mac || body` for sealed boxes. Detached and object forms are fed
//! by splitting the combined bytes, so that one corruption family serves every form.

use dryoc::classic::crypto_box::*;
use dryoc::classic::crypto_secretbox::*;
use dryoc::dryocbox::DryocBox;
use dryoc::dryocsecretbox::DryocSecretBox;
use dryoc::keypair::KeyPair;
use dryoc::precalc::PrecalcSecretKey;
#[cfg(feature = "nightly")]
use dryoc::protected::*;
use dryoc::types::*;

#[derive(Clone, Copy, PartialEq, Eq, Debug)]
pub enum Family {
    Secretbox,
    /// public-key box: `pk` = peer public key, `sk` = own secret key
    Box,
    /// precomputed key in `key`
    Afternm,
    /// sealed box: `pk` = recipient public key, `sk` = recipient secret key
    Seal,
}

#[derive(Clone)]
pub struct Wire {
    pub nonce: [u8; 24],
    /// secretbox key or precomputed box key
    pub key: [u8; 32],
    pub pk: [u8; 32],
    pub sk: [u8; 32],
    pub ct: Vec<u8>,
}

pub struct OpenOut {
    pub ok: bool,
    pub err: String,
    /// contents of the caller-visible output buffer after the call (copying forms: the message buffer;
    /// in-place forms: the single buffer; object forms: the returned message or empty)
    pub buf: Vec<u8>,
    /// the same buffer before the call
    pub pre: Vec<u8>,
    /// true when the form hands plaintext back through a caller-owned buffer (C17 inspects it)
    pub caller_buffer: bool,
    /// number of leading bytes of `buf` that hold the message on success
    pub mlen: usize,
}

pub type OpenFn = fn(&Wire, &[u8]) -> Option<OpenOut>;

pub struct OpenForm {
    pub name: &'static str,
    pub family: Family,
    pub f: OpenFn,
    /// needs one X25519 per call (used to budget the workload)
    pub costly: bool,
}

fn out(r: Result<(), dryoc::Error>, buf: Vec<u8>, pre: Vec<u8>, caller_buffer: bool, mlen: usize) -> Option<OpenOut> {
    let (ok, err) = match r {
        Ok(()) => (true, String::new()),
        Err(e) => (false, e.to_string()),
    };
    Some(OpenOut { ok, err, buf, pre, caller_buffer, mlen })
}

fn outv<T: Bytes>(r: Result<T, dryoc::Error>) -> Option<OpenOut> {
    match r {
        Ok(m) => {
            let v = m.as_slice().to_vec();
            let n = v.len();
            Some(OpenOut { ok: true, err: String::new(), buf: v, pre: vec![], caller_buffer: false, mlen: n })
        }
        Err(e) => Some(OpenOut { ok: false, err: e.to_string(), buf: vec![], pre: vec![], caller_buffer: false, mlen: 0 }),
    }
}

thread_local! {
    /// when set, copying forms size the caller's message buffer to this length instead of the length implied by
    /// the wire (a caller that knows how long the genuine message is); the second field records that a form used it
    pub static OUT_LEN: std::cell::Cell<(Option<usize>, bool)> = const { std::cell::Cell::new((None, false)) };
}

/// a caller-owned output buffer: `n` sentinel bytes placed at a varying offset (0..=7, cycling per call) inside a larger
/// allocation, so that the slot handed to the library starts at every alignment mod 8 (word-wise clearing or copying
/// code that handles the unaligned head separately is exercised)
pub struct Buf {
    v: Vec<u8>,
    off: usize,
    n: usize,
}
impl Buf {
    pub fn slot(&mut self) -> &mut [u8] {
        &mut self.v[self.off..self.off + self.n]
    }
    pub fn get(&self) -> Vec<u8> {
        self.v[self.off..self.off + self.n].to_vec()
    }
    pub fn len(&self) -> usize {
        self.n
    }
}
thread_local! {
    static ALIGN_CTR: std::cell::Cell<usize> = const { std::cell::Cell::new(0) };
}
/// the same for in-place forms: a copy of `bytes` at a varying alignment
pub fn copy_buf(bytes: &[u8]) -> Buf {
    let k = ALIGN_CTR.with(|c| {
        let k = c.get();
        c.set(k + 1);
        k
    });
    let n = bytes.len();
    let mut v = vec![0xC3u8; n + 16];
    let base = v.as_ptr() as usize;
    let off = (8 - base % 8) % 8 + k % 8;
    v[off..off + n].copy_from_slice(bytes);
    Buf { v, off, n }
}
pub fn sentinel_buf(sentinel: &[u8], n: usize) -> Buf {
    let n = OUT_LEN.with(|c| match c.get() {
        (Some(o), _) => {
            c.set((Some(o), true));
            o
        }
        _ => n,
    });
    let k = ALIGN_CTR.with(|c| {
        let k = c.get();
        c.set(k + 1);
        k
    });
    // Vec<u8> from the system allocator is at least 8-aligned; offset relative to that
    let mut v = vec![0xC3u8; n + 16];
    let base = v.as_ptr() as usize;
    let off = (8 - base % 8) % 8 + k % 8;
    for i in 0..n {
        v[off + i] = sentinel[i % sentinel.len()];
    }
    Buf { v, off, n }
}

fn split16(ct: &[u8]) -> Option<([u8; 16], &[u8])> {
    if ct.len() < 16 {
        return None;
    }
    Some((ct[..16].try_into().unwrap(), &ct[16..]))
}

// ----------------------------------------------------------------------------- secretbox opens

fn sb_open_easy(w: &Wire, s: &[u8]) -> Option<OpenOut> {
    let mut m = sentinel_buf(s, w.ct.len().saturating_sub(16));
    let pre = m.get();
    let r = crypto_secretbox_open_easy(m.slot(), &w.ct, &w.nonce, &w.key);
    let n = m.len();
    out(r, m.get(), pre, true, n)
}
fn sb_open_detached(w: &Wire, s: &[u8]) -> Option<OpenOut> {
    let (mac, body) = split16(&w.ct)?;
    let mut m = sentinel_buf(s, body.len());
    let pre = m.get();
    let r = crypto_secretbox_open_detached(m.slot(), &mac, body, &w.nonce, &w.key);
    let n = m.len();
    out(r, m.get(), pre, true, n)
}
fn sb_open_easy_inplace(w: &Wire, _s: &[u8]) -> Option<OpenOut> {
    let mut b = copy_buf(&w.ct);
    let pre = b.get();
    let r = crypto_secretbox_open_easy_inplace(b.slot(), &w.nonce, &w.key);
    let n = b.len().saturating_sub(16);
    out(r, b.get(), pre, true, n)
}
fn sb_obj_stack_vec(w: &Wire, _s: &[u8]) -> Option<OpenOut> {
    let b: DryocSecretBox<StackByteArray<16>, Vec<u8>> = match DryocSecretBox::from_bytes(&w.ct) {
        Ok(b) => b,
        Err(e) => return outv::<Vec<u8>>(Err(e)),
    };
    outv(b.decrypt::<Vec<u8>, _, _>(&StackByteArray::<24>::from(w.nonce), &StackByteArray::<32>::from(w.key)))
}
fn sb_obj_vecbox(w: &Wire, _s: &[u8]) -> Option<OpenOut> {
    let b = match dryoc::dryocsecretbox::VecBox::from_bytes(&w.ct) {
        Ok(b) => b,
        Err(e) => return outv::<Vec<u8>>(Err(e)),
    };
    outv(b.decrypt_to_vec(&w.nonce, &w.key))
}
fn sb_obj_parts_vec(w: &Wire, _s: &[u8]) -> Option<OpenOut> {
    let (mac, body) = split16(&w.ct)?;
    let b: DryocSecretBox<Vec<u8>, Vec<u8>> = DryocSecretBox::from_parts(mac.to_vec(), body.to_vec());
    outv(b.decrypt::<Vec<u8>, Vec<u8>, Vec<u8>>(&w.nonce.to_vec(), &w.key.to_vec()))
}
#[cfg(feature = "nightly")]
fn heap_bytes(b: &[u8]) -> HeapBytes {
    let mut h = HeapBytes::default();
    h.resize(b.len(), 0);
    h.as_mut_slice().copy_from_slice(b);
    h
}
#[cfg(feature = "nightly")]
fn sb_obj_heap(w: &Wire, _s: &[u8]) -> Option<OpenOut> {
    let (mac, body) = split16(&w.ct)?;
    let b: DryocSecretBox<HeapByteArray<16>, HeapBytes> = DryocSecretBox::from_parts(HeapByteArray::from(&mac), heap_bytes(body));
    outv(b.decrypt::<HeapBytes, _, _>(&HeapByteArray::<24>::from(&w.nonce), &HeapByteArray::<32>::from(&w.key)))
}
#[cfg(feature = "nightly")]
fn sb_obj_locked(w: &Wire, _s: &[u8]) -> Option<OpenOut> {
    let (mac, body) = split16(&w.ct)?;
    let b: DryocSecretBox<Locked<HeapByteArray<16>>, LockedBytes> = DryocSecretBox::from_parts(
        HeapByteArray::<16>::from_slice_into_locked(&mac).ok()?,
        HeapBytes::from_slice_into_locked(body).ok()?,
    );
    let key = HeapByteArray::<32>::from_slice_into_readonly_locked(&w.key).ok()?;
    let nonce = HeapByteArray::<24>::from_slice_into_locked(&w.nonce).ok()?;
    outv(b.decrypt::<LockedBytes, _, _>(&nonce, &key))
}

// ----------------------------------------------------------------------------------- box opens

fn bx_open_easy(w: &Wire, s: &[u8]) -> Option<OpenOut> {
    let mut m = sentinel_buf(s, w.ct.len().saturating_sub(16));
    let pre = m.get();
    let r = crypto_box_open_easy(m.slot(), &w.ct, &w.nonce, &w.pk, &w.sk);
    let n = m.len();
    out(r, m.get(), pre, true, n)
}
fn bx_open_detached(w: &Wire, s: &[u8]) -> Option<OpenOut> {
    let (mac, body) = split16(&w.ct)?;
    let mut m = sentinel_buf(s, body.len());
    let pre = m.get();
    let r = crypto_box_open_detached(m.slot(), &mac, body, &w.nonce, &w.pk, &w.sk);
    let n = m.len();
    out(r, m.get(), pre, true, n)
}
fn bx_open_detached_inplace(w: &Wire, _s: &[u8]) -> Option<OpenOut> {
    let (mac, body) = split16(&w.ct)?;
    let mut b = copy_buf(body);
    let pre = b.get();
    let r = crypto_box_open_detached_inplace(b.slot(), &mac, &w.nonce, &w.pk, &w.sk);
    let n = b.len();
    out(r, b.get(), pre, true, n)
}
fn bx_open_easy_inplace(w: &Wire, _s: &[u8]) -> Option<OpenOut> {
    let mut b = copy_buf(&w.ct);
    let pre = b.get();
    let r = crypto_box_open_easy_inplace(b.slot(), &w.nonce, &w.pk, &w.sk);
    let n = b.len().saturating_sub(16);
    out(r, b.get(), pre, true, n)
}
fn bx_obj_vecbox(w: &Wire, _s: &[u8]) -> Option<OpenOut> {
    let b = match dryoc::dryocbox::VecBox::from_bytes(&w.ct) {
        Ok(b) => b,
        Err(e) => return outv::<Vec<u8>>(Err(e)),
    };
    outv(b.decrypt_to_vec(&StackByteArray::<24>::from(w.nonce), &StackByteArray::<32>::from(w.pk), &StackByteArray::<32>::from(w.sk)))
}
fn bx_obj_arrays(w: &Wire, _s: &[u8]) -> Option<OpenOut> {
    let (mac, body) = split16(&w.ct)?;
    let b: DryocBox<[u8; 32], [u8; 16], Vec<u8>> = DryocBox::from_parts(mac, body.to_vec(), None);
    outv(b.decrypt::<_, _, _, Vec<u8>>(&w.nonce, &w.pk, &w.sk))
}
#[cfg(feature = "nightly")]
fn bx_obj_locked(w: &Wire, _s: &[u8]) -> Option<OpenOut> {
    let (mac, body) = split16(&w.ct)?;
    let b: DryocBox<Locked<HeapByteArray<32>>, Locked<HeapByteArray<16>>, LockedBytes> =
        DryocBox::from_parts(HeapByteArray::<16>::from_slice_into_locked(&mac).ok()?, HeapBytes::from_slice_into_locked(body).ok()?, None);
    let sk = HeapByteArray::<32>::from_slice_into_readonly_locked(&w.sk).ok()?;
    let pk = HeapByteArray::<32>::from(&w.pk);
    outv(b.decrypt::<_, _, _, LockedBytes>(&HeapByteArray::<24>::from(&w.nonce), &pk, &sk))
}

// ------------------------------------------------------------------------------- afternm opens

fn an_open_detached(w: &Wire, s: &[u8]) -> Option<OpenOut> {
    let (mac, body) = split16(&w.ct)?;
    let mut m = sentinel_buf(s, body.len());
    let pre = m.get();
    let r = crypto_box_open_detached_afternm(m.slot(), &mac, body, &w.nonce, &w.key);
    let n = m.len();
    out(r, m.get(), pre, true, n)
}
fn an_open_detached_inplace(w: &Wire, _s: &[u8]) -> Option<OpenOut> {
    let (mac, body) = split16(&w.ct)?;
    let mut b = copy_buf(body);
    let pre = b.get();
    let r = crypto_box_open_detached_afternm_inplace(b.slot(), &mac, &w.nonce, &w.key);
    let n = b.len();
    out(r, b.get(), pre, true, n)
}
// ---- trial decryption: the same buffer is first offered to the in-place form with another key (rejected), then with the
// ---- right one; libsodium leaves a rejected buffer untouched, so the second attempt must behave like a first one
fn other(k: &[u8; 32]) -> [u8; 32] {
    let mut o = *k;
    o[7] ^= 0x20;
    o
}
fn sb_open_easy_inplace_retry(w: &Wire, _s: &[u8]) -> Option<OpenOut> {
    let mut b = copy_buf(&w.ct);
    let pre = b.get();
    if crypto_secretbox_open_easy_inplace(b.slot(), &w.nonce, &other(&w.key)).is_ok() {
        return None; // the other key also authenticates (harness-level coincidence / the key is what was tampered)
    }
    let r = crypto_secretbox_open_easy_inplace(b.slot(), &w.nonce, &w.key);
    let n = b.len().saturating_sub(16);
    out(r, b.get(), pre, true, n)
}
fn bx_open_easy_inplace_retry(w: &Wire, _s: &[u8]) -> Option<OpenOut> {
    let mut b = copy_buf(&w.ct);
    let pre = b.get();
    if crypto_box_open_easy_inplace(b.slot(), &w.nonce, &w.pk, &other(&w.sk)).is_ok() {
        return None;
    }
    let r = crypto_box_open_easy_inplace(b.slot(), &w.nonce, &w.pk, &w.sk);
    let n = b.len().saturating_sub(16);
    out(r, b.get(), pre, true, n)
}
fn bx_open_detached_inplace_retry(w: &Wire, _s: &[u8]) -> Option<OpenOut> {
    let (mac, body) = split16(&w.ct)?;
    let mut b = copy_buf(body);
    let pre = b.get();
    if crypto_box_open_detached_inplace(b.slot(), &mac, &w.nonce, &w.pk, &other(&w.sk)).is_ok() {
        return None;
    }
    let r = crypto_box_open_detached_inplace(b.slot(), &mac, &w.nonce, &w.pk, &w.sk);
    let n = b.len();
    out(r, b.get(), pre, true, n)
}
fn an_open_detached_inplace_retry(w: &Wire, _s: &[u8]) -> Option<OpenOut> {
    let (mac, body) = split16(&w.ct)?;
    let mut b = copy_buf(body);
    let pre = b.get();
    if crypto_box_open_detached_afternm_inplace(b.slot(), &mac, &w.nonce, &other(&w.key)).is_ok() {
        return None;
    }
    let r = crypto_box_open_detached_afternm_inplace(b.slot(), &mac, &w.nonce, &w.key);
    let n = b.len();
    out(r, b.get(), pre, true, n)
}
fn an_obj_precalc(w: &Wire, _s: &[u8]) -> Option<OpenOut> {
    let b = match dryoc::dryocbox::VecBox::from_bytes(&w.ct) {
        Ok(b) => b,
        Err(e) => return outv::<Vec<u8>>(Err(e)),
    };
    outv(b.precalc_decrypt_to_vec(&StackByteArray::<24>::from(w.nonce), &StackByteArray::<32>::from(w.key)))
}
#[cfg(feature = "nightly")]
fn an_obj_precalc_locked(w: &Wire, _s: &[u8]) -> Option<OpenOut> {
    let (mac, body) = split16(&w.ct)?;
    let b: DryocBox<HeapByteArray<32>, HeapByteArray<16>, HeapBytes> = DryocBox::from_parts(HeapByteArray::from(&mac), heap_bytes(body), None);
    let k = HeapByteArray::<32>::from_slice_into_readonly_locked(&w.key).ok()?;
    outv(b.precalc_decrypt::<_, _, HeapBytes>(&HeapByteArray::<24>::from(&w.nonce), &k))
}

#[cfg(feature = "nightly")]
fn bx_obj_precalc_locked_derived(w: &Wire, _s: &[u8]) -> Option<OpenOut> {
    let (mac, body) = split16(&w.ct)?;
    let b: DryocBox<HeapByteArray<32>, HeapByteArray<16>, HeapBytes> = DryocBox::from_parts(HeapByteArray::from(&mac), heap_bytes(body), None);
    let k = PrecalcSecretKey::precalculate_locked(&w.pk, &w.sk).ok()?;
    outv(b.precalc_decrypt::<_, _, HeapBytes>(&w.nonce, &k))
}
#[cfg(feature = "nightly")]
fn bx_obj_precalc_lockedro_derived(w: &Wire, _s: &[u8]) -> Option<OpenOut> {
    let (mac, body) = split16(&w.ct)?;
    let b: DryocBox<HeapByteArray<32>, HeapByteArray<16>, HeapBytes> = DryocBox::from_parts(HeapByteArray::from(&mac), heap_bytes(body), None);
    let kp: KeyPair<LockedRO<HeapByteArray<32>>, LockedRO<HeapByteArray<32>>> = KeyPair {
        public_key: HeapByteArray::<32>::from_slice_into_readonly_locked(&[0u8; 32]).ok()?,
        secret_key: HeapByteArray::<32>::from_slice_into_readonly_locked(&w.sk).ok()?,
    };
    let k = kp.precalculate_readonly_locked(&w.pk).ok()?;
    outv(b.precalc_decrypt::<_, _, Vec<u8>>(&w.nonce, &k))
}

// ---------------------------------------------------------------------------------- seal opens

fn sl_open(w: &Wire, s: &[u8]) -> Option<OpenOut> {
    let mut m = sentinel_buf(s, w.ct.len().saturating_sub(48));
    let pre = m.get();
    let r = crypto_box_seal_open(m.slot(), &w.ct, &w.pk, &w.sk);
    let n = m.len();
    out(r, m.get(), pre, true, n)
}
fn sl_obj_unseal(w: &Wire, _s: &[u8]) -> Option<OpenOut> {
    let b = match dryoc::dryocbox::VecBox::from_sealed_bytes(&w.ct) {
        Ok(b) => b,
        Err(e) => return outv::<Vec<u8>>(Err(e)),
    };
    let kp: KeyPair<StackByteArray<32>, StackByteArray<32>> = KeyPair::from_slices(&w.pk, &w.sk).unwrap();
    outv(b.unseal_to_vec(&kp))
}
fn sl_obj_unseal_arrays(w: &Wire, _s: &[u8]) -> Option<OpenOut> {
    if w.ct.len() < 48 {
        return None;
    }
    let epk: [u8; 32] = w.ct[..32].try_into().unwrap();
    let mac: [u8; 16] = w.ct[32..48].try_into().unwrap();
    let b: DryocBox<[u8; 32], [u8; 16], Vec<u8>> = DryocBox::from_parts(mac, w.ct[48..].to_vec(), Some(epk));
    let kp: KeyPair<Vec<u8>, Vec<u8>> = KeyPair { public_key: w.pk.to_vec(), secret_key: w.sk.to_vec() };
    outv(b.unseal::<_, _, Vec<u8>>(&kp))
}

fn bx_obj_allvec_open(w: &Wire, _s: &[u8]) -> Option<OpenOut> {
    let (mac, body) = split16(&w.ct)?;
    let b: DryocBox<Vec<u8>, Vec<u8>, Vec<u8>> = DryocBox::from_parts(mac.to_vec(), body.to_vec(), None);
    outv(b.decrypt::<Vec<u8>, Vec<u8>, Vec<u8>, Vec<u8>>(&w.nonce.to_vec(), &w.pk.to_vec(), &w.sk.to_vec()))
}
fn sl_obj_allvec_open(w: &Wire, _s: &[u8]) -> Option<OpenOut> {
    if w.ct.len() < 48 {
        return None;
    }
    let b: DryocBox<Vec<u8>, Vec<u8>, Vec<u8>> = DryocBox::from_parts(w.ct[32..48].to_vec(), w.ct[48..].to_vec(), Some(w.ct[..32].to_vec()));
    let kp: KeyPair<Vec<u8>, Vec<u8>> = KeyPair { public_key: w.pk.to_vec(), secret_key: w.sk.to_vec() };
    outv(b.unseal::<_, _, Vec<u8>>(&kp))
}

fn bx_obj_new_with_data_and_mac(w: &Wire, _s: &[u8]) -> Option<OpenOut> {
    let (mac, body) = split16(&w.ct)?;
    let b: DryocBox<StackByteArray<32>, StackByteArray<16>, Vec<u8>> = DryocBox::new_with_data_and_mac(StackByteArray::from(mac), body);
    if b.to_vec() != w.ct {
        return outv::<Vec<u8>>(Err(dryoc::Error::from("box built from detached parts does not re-encode to the wire bytes")));
    }
    outv(b.decrypt_to_vec(&StackByteArray::<24>::from(w.nonce), &StackByteArray::<32>::from(w.pk), &StackByteArray::<32>::from(w.sk)))
}
fn sl_obj_new_with_epk_data_and_mac(w: &Wire, _s: &[u8]) -> Option<OpenOut> {
    if w.ct.len() < 48 {
        return None;
    }
    let epk: [u8; 32] = w.ct[..32].try_into().unwrap();
    let mac: [u8; 16] = w.ct[32..48].try_into().unwrap();
    let b: DryocBox<StackByteArray<32>, StackByteArray<16>, Vec<u8>> = DryocBox::new_with_epk_data_and_mac(StackByteArray::from(epk), StackByteArray::from(mac), &w.ct[48..]);
    if b.to_vec() != w.ct {
        return outv::<Vec<u8>>(Err(dryoc::Error::from("sealed box built from detached parts does not re-encode to the wire bytes")));
    }
    let kp: KeyPair<StackByteArray<32>, StackByteArray<32>> = KeyPair { public_key: StackByteArray::from(w.pk), secret_key: StackByteArray::from(w.sk) };
    outv(b.unseal_to_vec(&kp))
}

/// forms that only exist with the `nightly` feature (heap / locked containers)
pub fn is_nightly_form(name: &str) -> bool {
    name.contains("Heap") || name.to_lowercase().contains("locked")
}

pub fn open_forms_for(cx: &crate::ctx::Ctx) -> Vec<OpenForm> {
    let only = cx.opt("nightly_forms_only").is_some();
    open_forms().into_iter().filter(|f| !only || is_nightly_form(f.name)).collect()
}

pub fn enc_forms_for(cx: &crate::ctx::Ctx) -> Vec<EncForm> {
    let only = cx.opt("nightly_forms_only").is_some();
    enc_forms().into_iter().filter(|f| !only || is_nightly_form(f.name)).collect()
}

pub fn open_forms() -> Vec<OpenForm> {
    use Family::*;
    let mut v = vec![
        OpenForm { name: "crypto_secretbox_open_easy", family: Secretbox, f: sb_open_easy, costly: false },
        OpenForm { name: "crypto_secretbox_open_detached", family: Secretbox, f: sb_open_detached, costly: false },
        OpenForm { name: "crypto_secretbox_open_easy_inplace", family: Secretbox, f: sb_open_easy_inplace, costly: false },
        OpenForm { name: "DryocSecretBox<Stack,Vec>::from_bytes+decrypt", family: Secretbox, f: sb_obj_stack_vec, costly: false },
        OpenForm { name: "VecBox(secretbox)::from_bytes+decrypt_to_vec", family: Secretbox, f: sb_obj_vecbox, costly: false },
        OpenForm { name: "DryocSecretBox<Vec,Vec>::from_parts+decrypt", family: Secretbox, f: sb_obj_parts_vec, costly: false },
        OpenForm { name: "crypto_box_open_easy", family: Box, f: bx_open_easy, costly: true },
        OpenForm { name: "crypto_box_open_detached", family: Box, f: bx_open_detached, costly: true },
        OpenForm { name: "crypto_box_open_detached_inplace", family: Box, f: bx_open_detached_inplace, costly: true },
        OpenForm { name: "crypto_box_open_easy_inplace", family: Box, f: bx_open_easy_inplace, costly: true },
        OpenForm { name: "VecBox(box)::from_bytes+decrypt_to_vec", family: Box, f: bx_obj_vecbox, costly: true },
        OpenForm { name: "DryocBox<array,array,Vec>::from_parts+decrypt", family: Box, f: bx_obj_arrays, costly: true },
        OpenForm { name: "crypto_box_open_detached_afternm", family: Afternm, f: an_open_detached, costly: false },
        OpenForm { name: "crypto_box_open_detached_afternm_inplace", family: Afternm, f: an_open_detached_inplace, costly: false },
        OpenForm { name: "VecBox(box)::from_bytes+precalc_decrypt_to_vec", family: Afternm, f: an_obj_precalc, costly: false },
        OpenForm { name: "crypto_secretbox_open_easy_inplace(second attempt on the buffer, after a wrong key)", family: Secretbox, f: sb_open_easy_inplace_retry, costly: false },
        OpenForm { name: "crypto_box_open_easy_inplace(second attempt on the buffer, after a wrong key)", family: Box, f: bx_open_easy_inplace_retry, costly: true },
        OpenForm { name: "crypto_box_open_detached_inplace(second attempt on the buffer, after a wrong key)", family: Box, f: bx_open_detached_inplace_retry, costly: true },
        OpenForm { name: "crypto_box_open_detached_afternm_inplace(second attempt on the buffer, after a wrong key)", family: Afternm, f: an_open_detached_inplace_retry, costly: false },
        OpenForm { name: "crypto_box_seal_open", family: Seal, f: sl_open, costly: true },
        OpenForm { name: "VecBox(box)::from_sealed_bytes+unseal_to_vec", family: Seal, f: sl_obj_unseal, costly: true },
        OpenForm { name: "DryocBox<array,array,Vec>::from_parts+unseal", family: Seal, f: sl_obj_unseal_arrays, costly: true },
        OpenForm { name: "DryocBox<Vec,Vec,Vec>::from_parts+decrypt(Vec nonce, Vec keys)", family: Box, f: bx_obj_allvec_open, costly: true },
        OpenForm { name: "DryocBox::new_with_data_and_mac+to_vec+decrypt", family: Box, f: bx_obj_new_with_data_and_mac, costly: true },
        OpenForm { name: "DryocBox::new_with_epk_data_and_mac+to_vec+unseal", family: Seal, f: sl_obj_new_with_epk_data_and_mac, costly: true },
        OpenForm { name: "DryocBox<Vec,Vec,Vec>::from_parts+unseal(Vec key pair)", family: Seal, f: sl_obj_allvec_open, costly: true },
    ];
    #[cfg(feature = "nightly")]
    {
        v.push(OpenForm { name: "DryocSecretBox<Heap,HeapBytes>::decrypt", family: Secretbox, f: sb_obj_heap, costly: false });
        v.push(OpenForm { name: "DryocSecretBox<Locked,LockedBytes>::decrypt(LockedRO key)", family: Secretbox, f: sb_obj_locked, costly: false });
        v.push(OpenForm { name: "DryocBox<Locked,...>::decrypt(LockedRO sk)", family: Box, f: bx_obj_locked, costly: true });
        v.push(OpenForm { name: "DryocBox<Heap,...>::precalc_decrypt(LockedRO key)", family: Afternm, f: an_obj_precalc_locked, costly: false });
        v.push(OpenForm { name: "PrecalcSecretKey::precalculate_locked+precalc_decrypt<HeapBytes>", family: Box, f: bx_obj_precalc_locked_derived, costly: true });
        v.push(OpenForm { name: "KeyPair<LockedRO>::precalculate_readonly_locked+precalc_decrypt", family: Box, f: bx_obj_precalc_lockedro_derived, costly: true });
    }
    v
}

// ================================================================================= encryption

pub struct Plain {
    pub nonce: [u8; 24],
    pub key: [u8; 32],
    /// recipient public key (box, seal)
    pub pk: [u8; 32],
    /// sender secret key (box)
    pub sk: [u8; 32],
    pub msg: Msg,
}

/// the message as the caller holds it: a sub-slice that starts at a varying offset 0..=7 of its allocation, so that the
/// classic functions (which take `&[u8]`) see input at every alignment mod 8
pub struct Msg {
    backing: Vec<u8>,
    off: usize,
}
impl Msg {
    pub fn new(bytes: &[u8]) -> Msg {
        let k = ALIGN_CTR.with(|c| {
            let k = c.get();
            c.set(k + 1);
            k
        });
        let mut backing = vec![0x3Cu8; bytes.len() + 16];
        let base = backing.as_ptr() as usize;
        let off = (8 - base % 8) % 8 + k % 8;
        backing[off..off + bytes.len()].copy_from_slice(bytes);
        backing.truncate(off + bytes.len());
        Msg { backing, off }
    }
}
impl Msg {
    /// an owned (allocator-aligned) copy, for the forms that work in place
    #[allow(clippy::should_implement_trait)]
    pub fn clone(&self) -> Vec<u8> {
        self.to_vec()
    }
}
impl dryoc::types::Bytes for Msg {
    fn as_slice(&self) -> &[u8] {
        &self.backing[self.off..]
    }
    fn len(&self) -> usize {
        self.backing.len() - self.off
    }
    fn is_empty(&self) -> bool {
        self.backing.len() == self.off
    }
}
impl std::ops::Deref for Msg {
    type Target = [u8];
    fn deref(&self) -> &[u8] {
        &self.backing[self.off..]
    }
}

/// returns the combined wire bytes (`mac||body`, sealed: `epk||mac||body`)
pub type EncFn = fn(&Plain) -> Result<Vec<u8>, String>;

pub struct EncForm {
    pub name: &'static str,
    pub family: Family,
    pub f: EncFn,
}

fn es<T>(r: Result<T, dryoc::Error>) -> Result<T, String> {
    r.map_err(|e| e.to_string())
}
fn comb(mac: &[u8], body: &[u8]) -> Vec<u8> {
    let mut v = mac.to_vec();
    v.extend_from_slice(body);
    v
}

/// caller-provided output buffers are handed over full of stale non-zero bytes (a reused buffer):
/// the functions must overwrite, not combine with, what is there
fn dirty(n: usize) -> Vec<u8> {
    (0..n).map(|i| 0xA7u8.wrapping_add((i as u8).wrapping_mul(29)) | 1).collect()
}

fn sb_easy(p: &Plain) -> Result<Vec<u8>, String> {
    let mut c = dirty(p.msg.len() + 16);
    es(crypto_secretbox_easy(&mut c, &p.msg, &p.nonce, &p.key))?;
    Ok(c)
}
fn sb_detached(p: &Plain) -> Result<Vec<u8>, String> {
    let mut c = dirty(p.msg.len());
    let mut mac = [0x5eu8; 16];
    crypto_secretbox_detached(&mut c, &mut mac, &p.msg, &p.nonce, &p.key);
    Ok(comb(&mac, &c))
}
fn sb_easy_inplace(p: &Plain) -> Result<Vec<u8>, String> {
    let mut c = p.msg.clone();
    c.resize(p.msg.len() + 16, 0);
    es(crypto_secretbox_easy_inplace(&mut c, &p.nonce, &p.key))?;
    Ok(c)
}
fn sb_obj_to_bytes(p: &Plain) -> Result<Vec<u8>, String> {
    let b: DryocSecretBox<StackByteArray<16>, Vec<u8>> = DryocSecretBox::encrypt(&p.msg, &StackByteArray::<24>::from(p.nonce), &StackByteArray::<32>::from(p.key));
    Ok(b.to_bytes::<Vec<u8>>())
}
fn sb_obj_to_vec(p: &Plain) -> Result<Vec<u8>, String> {
    let b = dryoc::dryocsecretbox::VecBox::encrypt_to_vecbox(&p.msg[..], &p.nonce, &p.key);
    Ok(b.to_vec())
}
fn sb_obj_into_vec(p: &Plain) -> Result<Vec<u8>, String> {
    let b = dryoc::dryocsecretbox::VecBox::encrypt_to_vecbox(&p.msg, &p.nonce.to_vec(), &p.key.to_vec());
    Ok(b.into_vec())
}
fn sb_obj_arrays(p: &Plain) -> Result<Vec<u8>, String> {
    let b: DryocSecretBox<[u8; 16], Vec<u8>> = DryocSecretBox::encrypt(&p.msg, &p.nonce, &p.key);
    let (mac, data) = b.into_parts();
    Ok(comb(&mac, &data))
}
#[cfg(feature = "nightly")]
fn sb_obj_enc_heap(p: &Plain) -> Result<Vec<u8>, String> {
    let b: DryocSecretBox<HeapByteArray<16>, HeapBytes> =
        DryocSecretBox::encrypt(&heap_bytes(&p.msg), &HeapByteArray::<24>::from(&p.nonce), &HeapByteArray::<32>::from(&p.key));
    Ok(b.to_bytes::<HeapBytes>().as_slice().to_vec())
}
#[cfg(feature = "nightly")]
fn sb_obj_enc_locked(p: &Plain) -> Result<Vec<u8>, String> {
    let key = HeapByteArray::<32>::from_slice_into_readonly_locked(&p.key).map_err(|e| e.to_string())?;
    let msg = HeapBytes::from_slice_into_locked(&p.msg).map_err(|e| e.to_string())?;
    let b: dryoc::dryocsecretbox::protected::LockedBox = DryocSecretBox::encrypt(&msg, &HeapByteArray::<24>::from(&p.nonce), &key);
    Ok(b.to_bytes::<LockedBytes>().as_slice().to_vec())
}

fn bx_easy(p: &Plain) -> Result<Vec<u8>, String> {
    let mut c = dirty(p.msg.len() + 16);
    es(crypto_box_easy(&mut c, &p.msg, &p.nonce, &p.pk, &p.sk))?;
    Ok(c)
}
fn bx_detached(p: &Plain) -> Result<Vec<u8>, String> {
    let mut c = dirty(p.msg.len());
    let mut mac = [0x5eu8; 16];
    crypto_box_detached(&mut c, &mut mac, &p.msg, &p.nonce, &p.pk, &p.sk);
    Ok(comb(&mac, &c))
}
fn bx_detached_inplace(p: &Plain) -> Result<Vec<u8>, String> {
    let mut c = p.msg.clone();
    let mut mac = [0u8; 16];
    es(crypto_box_detached_inplace(&mut c, &mut mac, &p.nonce, &p.pk, &p.sk))?;
    Ok(comb(&mac, &c))
}
fn bx_easy_inplace(p: &Plain) -> Result<Vec<u8>, String> {
    let mut c = p.msg.clone();
    c.resize(p.msg.len() + 16, 0);
    es(crypto_box_easy_inplace(&mut c, &p.nonce, &p.pk, &p.sk))?;
    Ok(c)
}
fn bx_beforenm_afternm(p: &Plain) -> Result<Vec<u8>, String> {
    let k = crypto_box_beforenm(&p.pk, &p.sk);
    let mut c = dirty(p.msg.len());
    let mut mac = [0x5eu8; 16];
    crypto_box_detached_afternm(&mut c, &mut mac, &p.msg, &p.nonce, &k);
    Ok(comb(&mac, &c))
}
fn bx_beforenm_afternm_inplace(p: &Plain) -> Result<Vec<u8>, String> {
    let k = crypto_box_beforenm(&p.pk, &p.sk);
    let mut c = p.msg.clone();
    let mut mac = [0u8; 16];
    crypto_box_detached_afternm_inplace(&mut c, &mut mac, &p.nonce, &k);
    Ok(comb(&mac, &c))
}
fn bx_obj_encrypt(p: &Plain) -> Result<Vec<u8>, String> {
    let b = es(dryoc::dryocbox::VecBox::encrypt_to_vecbox(&p.msg, &StackByteArray::<24>::from(p.nonce), &StackByteArray::<32>::from(p.pk), &StackByteArray::<32>::from(p.sk)))?;
    Ok(b.to_vec())
}
fn bx_obj_encrypt_arrays(p: &Plain) -> Result<Vec<u8>, String> {
    let b: DryocBox<[u8; 32], [u8; 16], Vec<u8>> = es(DryocBox::encrypt(&p.msg[..], &p.nonce, &p.pk, &p.sk))?;
    Ok(b.to_bytes::<Vec<u8>>())
}
fn bx_obj_precalc(p: &Plain) -> Result<Vec<u8>, String> {
    let k = PrecalcSecretKey::precalculate(&p.pk, &p.sk);
    let b = es(dryoc::dryocbox::VecBox::precalc_encrypt_to_vecbox(&p.msg, &StackByteArray::<24>::from(p.nonce), &k))?;
    Ok(b.to_vec())
}
fn bx_obj_keypair_precalc(p: &Plain) -> Result<Vec<u8>, String> {
    let kp: KeyPair<StackByteArray<32>, StackByteArray<32>> = KeyPair::from_secret_key(StackByteArray::from(p.sk));
    let k = kp.precalculate(&StackByteArray::from(p.pk));
    let b: DryocBox<Vec<u8>, Vec<u8>, Vec<u8>> = es(DryocBox::precalc_encrypt(&p.msg, &p.nonce.to_vec(), &k))?;
    let (mac, data, _) = b.into_parts();
    Ok(comb(&mac, &data))
}
#[cfg(feature = "nightly")]
fn bx_obj_enc_locked(p: &Plain) -> Result<Vec<u8>, String> {
    let sk = HeapByteArray::<32>::from_slice_into_readonly_locked(&p.sk).map_err(|e| e.to_string())?;
    let b: dryoc::dryocbox::protected::LockedBox = es(DryocBox::encrypt(&heap_bytes(&p.msg), &HeapByteArray::<24>::from(&p.nonce), &HeapByteArray::<32>::from(&p.pk), &sk))?;
    Ok(b.to_bytes::<HeapBytes>().as_slice().to_vec())
}
#[cfg(feature = "nightly")]
fn bx_obj_precalc_lockedro(p: &Plain) -> Result<Vec<u8>, String> {
    let k = PrecalcSecretKey::precalculate_readonly_locked(&p.pk, &p.sk).map_err(|e| e.to_string())?;
    let b: DryocBox<HeapByteArray<32>, HeapByteArray<16>, HeapBytes> = es(DryocBox::precalc_encrypt(&p.msg, &p.nonce, &k))?;
    Ok(b.to_bytes::<Vec<u8>>())
}
#[cfg(feature = "nightly")]
fn bx_obj_precalc_locked(p: &Plain) -> Result<Vec<u8>, String> {
    let k = PrecalcSecretKey::precalculate_locked(&p.pk, &p.sk).map_err(|e| e.to_string())?;
    let b: DryocBox<HeapByteArray<32>, HeapByteArray<16>, HeapBytes> = es(DryocBox::precalc_encrypt(&p.msg, &p.nonce, &k))?;
    Ok(b.to_bytes::<Vec<u8>>())
}

fn sl_seal(p: &Plain) -> Result<Vec<u8>, String> {
    let mut c = dirty(p.msg.len() + 48);
    es(crypto_box_seal(&mut c, &p.msg, &p.pk))?;
    Ok(c)
}
fn sl_obj_seal(p: &Plain) -> Result<Vec<u8>, String> {
    let b = es(dryoc::dryocbox::VecBox::seal_to_vecbox(&p.msg, &StackByteArray::<32>::from(p.pk)))?;
    Ok(b.to_vec())
}
fn sl_obj_seal_arrays(p: &Plain) -> Result<Vec<u8>, String> {
    let b: DryocBox<[u8; 32], [u8; 16], Vec<u8>> = es(DryocBox::seal(&p.msg[..], &p.pk))?;
    Ok(b.to_bytes::<Vec<u8>>())
}
#[cfg(feature = "nightly")]
fn sl_obj_seal_heap(p: &Plain) -> Result<Vec<u8>, String> {
    let b: DryocBox<HeapByteArray<32>, HeapByteArray<16>, HeapBytes> = es(DryocBox::seal(&heap_bytes(&p.msg), &HeapByteArray::<32>::from(&p.pk)))?;
    Ok(b.to_bytes::<HeapBytes>().as_slice().to_vec())
}

// ---- every generic parameter a Vec<u8> (tag, ephemeral key, payload, keys, nonce): Vec is the one container whose
// ---- "new" value can be empty and whose length is not fixed by its type
fn sb_obj_allvec(p: &Plain) -> Result<Vec<u8>, String> {
    let b: DryocSecretBox<Vec<u8>, Vec<u8>> = DryocSecretBox::encrypt(&p.msg, &p.nonce.to_vec(), &p.key.to_vec());
    Ok(b.to_bytes::<Vec<u8>>())
}
fn bx_obj_allvec(p: &Plain) -> Result<Vec<u8>, String> {
    let b: DryocBox<Vec<u8>, Vec<u8>, Vec<u8>> = es(DryocBox::encrypt(&p.msg, &p.nonce.to_vec(), &p.pk.to_vec(), &p.sk.to_vec()))?;
    Ok(b.to_bytes::<Vec<u8>>())
}
fn bx_obj_allvec_precalc(p: &Plain) -> Result<Vec<u8>, String> {
    let k = PrecalcSecretKey::precalculate(&p.pk, &p.sk);
    let b: DryocBox<Vec<u8>, Vec<u8>, Vec<u8>> = es(DryocBox::precalc_encrypt(&p.msg, &p.nonce.to_vec(), &k))?;
    Ok(b.to_bytes::<Vec<u8>>())
}
fn sl_obj_allvec(p: &Plain) -> Result<Vec<u8>, String> {
    let b: DryocBox<Vec<u8>, Vec<u8>, Vec<u8>> = es(DryocBox::seal(&p.msg, &p.pk.to_vec()))?;
    Ok(b.to_bytes::<Vec<u8>>())
}

pub fn enc_forms() -> Vec<EncForm> {
    use Family::*;
    let mut v = vec![
        EncForm { name: "crypto_secretbox_easy", family: Secretbox, f: sb_easy },
        EncForm { name: "crypto_secretbox_detached", family: Secretbox, f: sb_detached },
        EncForm { name: "crypto_secretbox_easy_inplace", family: Secretbox, f: sb_easy_inplace },
        EncForm { name: "DryocSecretBox<Stack,Vec>::encrypt+to_bytes", family: Secretbox, f: sb_obj_to_bytes },
        EncForm { name: "VecBox(secretbox)::encrypt_to_vecbox+to_vec", family: Secretbox, f: sb_obj_to_vec },
        EncForm { name: "VecBox(secretbox)::encrypt_to_vecbox(Vec key)+into_vec", family: Secretbox, f: sb_obj_into_vec },
        EncForm { name: "DryocSecretBox<array,Vec>::encrypt+into_parts", family: Secretbox, f: sb_obj_arrays },
        EncForm { name: "crypto_box_easy", family: Box, f: bx_easy },
        EncForm { name: "crypto_box_detached", family: Box, f: bx_detached },
        EncForm { name: "crypto_box_detached_inplace", family: Box, f: bx_detached_inplace },
        EncForm { name: "crypto_box_easy_inplace", family: Box, f: bx_easy_inplace },
        EncForm { name: "crypto_box_beforenm+detached_afternm", family: Box, f: bx_beforenm_afternm },
        EncForm { name: "crypto_box_beforenm+detached_afternm_inplace", family: Box, f: bx_beforenm_afternm_inplace },
        EncForm { name: "VecBox(box)::encrypt_to_vecbox+to_vec", family: Box, f: bx_obj_encrypt },
        EncForm { name: "DryocBox<array,array,Vec>::encrypt+to_bytes", family: Box, f: bx_obj_encrypt_arrays },
        EncForm { name: "PrecalcSecretKey::precalculate+precalc_encrypt_to_vecbox", family: Box, f: bx_obj_precalc },
        EncForm { name: "KeyPair::precalculate+DryocBox<Vec,Vec,Vec>::precalc_encrypt", family: Box, f: bx_obj_keypair_precalc },
        EncForm { name: "crypto_box_seal", family: Seal, f: sl_seal },
        EncForm { name: "VecBox(box)::seal_to_vecbox+to_vec", family: Seal, f: sl_obj_seal },
        EncForm { name: "DryocBox<array,array,Vec>::seal+to_bytes", family: Seal, f: sl_obj_seal_arrays },
        EncForm { name: "DryocSecretBox<Vec,Vec>::encrypt(Vec nonce, Vec key)+to_bytes", family: Secretbox, f: sb_obj_allvec },
        EncForm { name: "DryocBox<Vec,Vec,Vec>::encrypt(Vec nonce, Vec keys)+to_bytes", family: Box, f: bx_obj_allvec },
        EncForm { name: "DryocBox<Vec,Vec,Vec>::precalc_encrypt(Vec nonce)+to_bytes", family: Box, f: bx_obj_allvec_precalc },
        EncForm { name: "DryocBox<Vec,Vec,Vec>::seal(Vec pk)+to_bytes", family: Seal, f: sl_obj_allvec },
    ];
    #[cfg(feature = "nightly")]
    {
        v.push(EncForm { name: "DryocSecretBox<Heap,HeapBytes>::encrypt+to_bytes<HeapBytes>", family: Secretbox, f: sb_obj_enc_heap });
        v.push(EncForm { name: "LockedBox(secretbox)::encrypt(LockedRO key)+to_bytes<LockedBytes>", family: Secretbox, f: sb_obj_enc_locked });
        v.push(EncForm { name: "LockedBox(box)::encrypt(LockedRO sk)+to_bytes<HeapBytes>", family: Box, f: bx_obj_enc_locked });
        v.push(EncForm { name: "PrecalcSecretKey::precalculate_locked+precalc_encrypt", family: Box, f: bx_obj_precalc_locked });
        v.push(EncForm { name: "PrecalcSecretKey::precalculate_readonly_locked+precalc_encrypt", family: Box, f: bx_obj_precalc_lockedro });
        v.push(EncForm { name: "DryocBox<Heap,Heap,HeapBytes>::seal+to_bytes<HeapBytes>", family: Seal, f: sl_obj_seal_heap });
    }
    v
}
