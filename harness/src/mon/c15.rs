//! C15 — heap and protected containers wipe their bytes before memory is released.
//! Oracle: every allocator Release event (hook: address, size, non-zero byte count, taken immediately
//! before free()) observed while all containers hold zero-free secret patterns has nonzero == 0.
#![cfg(feature = "nightly")]

use dryoc::dryocsecretbox::DryocSecretBox;
use dryoc::keypair::KeyPair;
use dryoc::precalc::PrecalcSecretKey;
use dryoc::protected::*;
use dryoc::pwhash::{Config, PwHash};
use dryoc::sign::SigningKeyPair;
use serde_json::json;

use super::c14::{construct, ops_for};
use super::prot::*;
use crate::ctx::{guard, Ctx, Tier};

fn check_releases(cx: &mut Ctx, eng: &mut Engine, what: &str, container: &str, must_release: bool) {
    eng.pump_events();
    cx.eval();
    let seen = eng.releases_seen;
    if !eng.releases_nonzero.is_empty() {
        let (addr, size, nz) = eng.releases_nonzero[0];
        let cls = if nz == size { "nothing_wiped" } else { "partially_wiped" };
        let c = eng.case(json!({"what":what,"container":container,"address":format!("{:#x}", addr),"size":size,"nonzero_bytes":nz,"releases_with_residue":eng.releases_nonzero.len(),"releases_observed":seen}));
        cx.violation(&format!("C15|{}|released_with_nonzero_bytes|{}", container, cls), c);
    }
    if !eng.releases_beyond.is_empty() {
        let (addr, size, b) = eng.releases_beyond[0];
        let c = eng.case(json!({"what":what,"container":container,"address":format!("{:#x}", addr),"released_size":size,"secret_pattern_bytes_past_released_size":b}));
        cx.violation(&format!("C15|{}|secret_bytes_left_past_released_size", container), c);
    }
    // second observer (mon/heapwatch.rs): the block as libc's free() receives it, and blocks not freed at all
    #[cfg(not(feature = "asan"))]
    if super::heapwatch::enabled() {
        super::heapwatch::scan_live();
        let hits = super::heapwatch::take_hits();
        if let Some(&(addr, size, off, len, kind)) = hits.first() {
            let c = eng.case(json!({"what":what,"container":container,"block":format!("{:#x}", addr),"block_size":size,"offset_of_pattern_run":off,"run_length":len,"blocks_with_pattern":hits.len(),
                "observer":"posix_memalign/free interposer (independent of the allocator hook)"}));
            cx.violation(&format!("C15|{}|{}", container, if kind == 0 { "secret_pattern_in_block_given_to_free" } else { "secret_pattern_left_in_block_not_freed_after_drop" }), c);
        }
        cx.cover("heapwatch", if hits.is_empty() { "blocks_clean" } else { "blocks_with_pattern" });
    }
    if must_release && seen == 0 {
        cx.cover("history_without_release(inconclusive)", container);
    } else if seen > 0 {
        cx.cover("release_observed", container);
    }
    cx.evaln(seen as u64);
}

fn run_seq(cx: &mut Ctx, eng: &mut Engine, resizable: bool, len: usize, ctor: &str, ops: &[Op]) -> bool {
    eng.reset_sequence();
    let src = pattern(len as u8 ^ 0x51, len);
    eng.trace.push(format!("construct {} via {} len={}", if resizable { "HeapBytes" } else { "HeapByteArray" }, ctor, len));
    let r = guard("construct", || construct(resizable, len, ctor, &src));
    let Ok(Ok(reg)) = r else {
        eng.drop_all();
        return true;
    };
    eng.adopt(reg, src, 0);
    let mut complete = true;
    for op in ops {
        if eng.live.is_empty() {
            break;
        }
        let idx = eng.live.len() - 1;
        if matches!(op, Op::Clone) && eng.live.len() >= 3 {
            continue;
        }
        match eng.step(cx, idx, *op) {
            StepOutcome::Ok | StepOutcome::Failed(_) => {}
            StepOutcome::NotOffered => {
                complete = false;
                break;
            }
            StepOutcome::Panicked(_) => break,
        }
    }
    eng.drop_all();
    let cont = if resizable { "Protected<HeapBytes>" } else { "Protected<HeapByteArray>" };
    check_releases(cx, eng, "type-state sequence", cont, len > 0);
    complete
}

/// histories over the unprotected containers and the object types that embed protected ones
fn plain_histories(cx: &mut Ctx, eng: &mut Engine, idx: &mut u64) {
    let page = eng.page;
    let lens = [1usize, 16, 64, 100, 3000, page - 1, page, page + 1, 2 * page + 7, 3 * page + 100, 5 * page];
    for &len in &lens {
        for variant in 0..12usize {
            *idx += 1;
            if !cx.mine(*idx) {
                continue;
            }
            cx.key(&format!("plain {} {}", len, variant));
            eng.reset_sequence();
            let pat = pattern(variant as u8 + 9, len);
            eng.trace.push(format!("HeapBytes len={} history variant {}", len, variant));
            let r = guard("HeapBytes history", || {
                let mut h = HeapBytes::default();
                h.resize(len, 0xA5);
                h.as_mut_slice().copy_from_slice(&pat);
                watch(h.as_slice().as_ptr() as usize, len, variant as u8 + 9);
                match variant {
                    0 => {}                                   // create, fill, drop
                    1 => h.resize(len + 3 * page, 0xA5),      // grow across a reallocation
                    2 => h.resize(len / 2, 0),                // shrink (spare capacity keeps old bytes)
                    3 => {
                        h.resize(len * 2 + 1, 0x5A);
                        h.resize(1, 0);
                    }
                    4 => {
                        let c = h.clone();                    // clone, drop clone first
                        drop(c);
                    }
                    5 => {
                        h.resize(0, 0);                       // truncate to empty, then drop
                    }
                    6 => {
                        for k in 0..6 {
                            h.resize(len + k * 777, 0xC3);    // repeated growth
                        }
                    }
                    10 | 11 => {
                        // released while a panic unwinds: spare capacity holds the old tail; a second, locked (10) or
                        // read-only (11) region is alive in the same scope
                        h.resize(len / 2, 0);
                        let _other = if variant == 10 {
                            HeapBytes::from_slice_into_locked(&pat).ok().map(|r| Box::new(r) as Box<dyn std::any::Any>)
                        } else {
                            HeapBytes::from_slice_into_locked(&pat).ok().and_then(|r| r.munlock().ok()).and_then(|r| r.mprotect_readonly().ok()).map(|r| Box::new(r) as Box<dyn std::any::Any>)
                        };
                        panic!("harness/src/: unwinding with live containers (on purpose)");
                    }
                    8 => {
                        h.resize((len / 3).max(1), 0);        // shrink (possibly within the same page count) ...
                        let l = h.mlock();                    // ... then lock and release
                        drop(l);
                        return;
                    }
                    9 => {
                        h.resize(len / 2 + 1, 0);
                        h.resize(len + 5, 0x77);              // shrink, regrow within capacity, lock, unlock, drop
                        if let Ok(l) = h.mlock() {
                            let _ = l.munlock();
                        }
                        return;
                    }
                    _ => {
                        let l = h.mlock();                    // lock, unlock, protect, drop
                        if let Ok(l) = l {
                            if let Ok(u) = l.munlock() {
                                let _ = u.mprotect_noaccess();
                            }
                        }
                        return;
                    }
                }
                drop(h);
            });
            let _ = r;
            cx.cover("plain_history", &format!("HeapBytes:{}", ["drop", "grow", "shrink", "grow_then_shrink", "clone", "truncate", "repeated_growth", "lock_unlock_noaccess", "shrink_then_lock", "shrink_regrow_lock_unlock", "dropped_by_unwinding(locked sibling)", "dropped_by_unwinding(read-only sibling)"][variant]));
            check_releases(cx, eng, "HeapBytes history", "HeapBytes", true);
        }
    }
    // fixed-size arrays
    for variant in 0..4usize {
        *idx += 1;
        if !cx.mine(*idx) {
            continue;
        }
        cx.key(&format!("arr {}", variant));
        eng.reset_sequence();
        eng.trace.push(format!("HeapByteArray history variant {}", variant));
        let _ = guard("HeapByteArray history", || match variant {
            0 => {
                let a = HeapByteArray::<64>::from(&[0x77u8; 64]);
                drop(a);
            }
            1 => {
                let a = HeapByteArray::<4097>::try_from(&pattern(3, 4097)[..]).unwrap();
                let b = a.clone();
                drop(a);
                drop(b);
            }
            2 => {
                let a = HeapByteArray::<32>::gen();
                let l = a.mlock().unwrap();
                let r = l.mprotect_readonly().unwrap();
                drop(r);
            }
            _ => {
                let s = StackByteArray::<32>::from([0x42u8; 32]);
                let h: HeapByteArray<32> = s.into();
                drop(h);
            }
        });
        cx.cover("plain_history", &format!("HeapByteArray:{}", variant));
        check_releases(cx, eng, "HeapByteArray history", "HeapByteArray", true);
    }
    // object types embedding protected containers
    for variant in 0..6usize {
        *idx += 1;
        if !cx.mine(*idx) {
            continue;
        }
        cx.key(&format!("obj {}", variant));
        eng.reset_sequence();
        eng.trace.push(format!("object-type history variant {}", variant));
        let name = ["LockedBox(secretbox) encrypt/decrypt/to_bytes<HeapBytes>", "LockedKeyPair gen + precalculate_locked", "LockedSigningKeyPair gen + sign", "LockedPwHash hash", "LockedROKeyPair gen", "DryocBox<Heap..> seal/unseal into HeapBytes"][variant];
        let _ = guard(name, || match variant {
            0 => {
                let key = HeapByteArray::<32>::from_slice_into_readonly_locked(&[0x61u8; 32]).unwrap();
                let nonce = HeapByteArray::<24>::from(&[0x62u8; 24]);
                let msg = HeapBytes::from_slice_into_locked(&pattern(5, 300)).unwrap();
                let b: dryoc::dryocsecretbox::protected::LockedBox = DryocSecretBox::encrypt(&msg, &nonce, &key);
                let wire: HeapBytes = b.to_bytes();
                let out: LockedBytes = b.decrypt(&nonce, &key).unwrap();
                drop(out);
                drop(wire);
            }
            1 => {
                let kp = KeyPair::<Locked<HeapByteArray<32>>, Locked<HeapByteArray<32>>>::gen_locked_keypair().unwrap();
                let pk = [9u8; 32];
                let pre = kp.precalculate_locked(&pk).unwrap();
                drop(pre);
                let _: PrecalcSecretKey<LockedRO<HeapByteArray<32>>> = PrecalcSecretKey::precalculate_readonly_locked(&pk, &kp.secret_key).unwrap();
            }
            2 => {
                let kp = dryoc::sign::protected::LockedSigningKeyPair::gen_locked_keypair().unwrap();
                let msg = HeapBytes::from_slice_into_locked(&pattern(6, 100)).unwrap();
                let sm: dryoc::sign::protected::LockedSignedMessage = kp.sign(msg).unwrap();
                drop(sm);
            }
            3 => {
                let ph: dryoc::pwhash::protected::LockedPwHash = PwHash::hash(&b"secret password".to_vec(), Config::interactive().with_opslimit(1).with_memlimit(8192).with_hash_length(64).with_salt_length(32)).unwrap();
                drop(ph);
            }
            4 => {
                let kp = KeyPair::<LockedRO<HeapByteArray<32>>, LockedRO<HeapByteArray<32>>>::gen_readonly_locked_keypair().unwrap();
                drop(kp);
            }
            _ => {
                let (pk, sk) = dryoc::classic::crypto_box::crypto_box_keypair();
                let kp: KeyPair<HeapByteArray<32>, HeapByteArray<32>> = KeyPair { public_key: HeapByteArray::from(&pk), secret_key: HeapByteArray::from(&sk) };
                let mut m = HeapBytes::default();
                m.resize(700, 0x33);
                let b: dryoc::dryocbox::DryocBox<HeapByteArray<32>, HeapByteArray<16>, HeapBytes> = dryoc::dryocbox::DryocBox::seal(&m, &kp.public_key).unwrap();
                let out: HeapBytes = b.unseal(&kp).unwrap();
                drop(out);
            }
        });
        cx.cover("plain_history", &format!("object:{}", variant));
        check_releases(cx, eng, name, "object types", true);
    }
}

pub fn run(cx: &mut Ctx) {
    if cx.opt("mlockall").is_some() {
        // a process that locks all of its current and future memory: wiping strategies that rely on giving pages
        // back to the kernel (madvise) silently stop working on locked pages
        let r = unsafe { libc::mlockall(libc::MCL_CURRENT | libc::MCL_FUTURE) };
        if r != 0 {
            cx.violation("HARNESS|C15|mlockall_refused", json!({"errno":std::io::Error::last_os_error().to_string()}));
            return;
        }
        cx.cover("process_mode", "mlockall(MCL_CURRENT|MCL_FUTURE)");
    } else {
        cx.cover("process_mode", "default");
    }
    #[cfg(not(feature = "asan"))]
    if cx.opt("no_heapwatch").is_none() && cx.opt("valgrind").is_none() {
        super::heapwatch::enable();
    }
    let mut eng = Engine::new("C15", false, false);
    let page = eng.page;
    let depth = cx.tier.pick(2usize, 3, 5);
    let mut idx = 0u64;
    for resizable in [true, false] {
        let lens: &[usize] = if resizable { &BYTES_LENS } else { &ARRAY_LENS };
        let ctors: &[&str] = if resizable { &HB_CTORS } else { &ARR_CTORS };
        for &len in lens {
            if len == 0 {
                continue;
            }
            if cx.tier == Tier::Tiny && ![1usize, 32, 4097].contains(&len) {
                continue;
            }
            for ctor in ctors {
                let alphabet = ops_for(resizable, len, page);
                let mut digits = vec![0usize; depth];
                loop {
                    idx += 1;
                    if cx.mine(idx) {
                        let ops: Vec<Op> = digits.iter().map(|d| alphabet[*d]).collect();
                        if run_seq(cx, &mut eng, resizable, len, ctor, &ops) {
                            cx.key_h(idx);
                        }
                        cx.cover("length", &format!("{}", len));
                    }
                    // odometer
                    let mut carry = true;
                    for d in digits.iter_mut().rev() {
                        *d += 1;
                        if *d < alphabet.len() {
                            carry = false;
                            break;
                        }
                        *d = 0;
                    }
                    if carry {
                        break;
                    }
                }
            }
        }
    }
    let reps = cx.tier.pick(1usize, 1, 200);
    for _ in 0..reps {
        plain_histories(cx, &mut eng, &mut idx);
    }
    if cx.shard == 0 {
        cx.sample(json!({"family":"type-state sequences","depth":depth,"pattern":"zero-free bytes 1 + (7i + 13s) mod 255","oracle":"Release{nonzero} == 0 for every release"}));
        cx.sample(json!({"family":"HeapBytes histories","variants":["drop","grow across reallocation","shrink","grow then shrink","clone","truncate","repeated growth","lock/unlock/no-access"],"lengths":[1,16,100,"page-1","page","page+1","2*page+7","5*page"]}));
    }
    #[cfg(not(feature = "asan"))]
    if super::heapwatch::enabled() {
        let (rec, freed, full) = super::heapwatch::counters();
        cx.note("heapwatch", json!({"page_aligned_allocations_recorded":rec,"given_to_free_and_scanned":freed,"not_recorded_table_full":full,"still_live_at_end":super::heapwatch::live_blocks()}));
        if rec == 0 || freed == 0 {
            cx.violation("HARNESS|C15|heapwatch_saw_no_allocation", json!({"recorded":rec,"freed":freed}));
        }
        if full > 0 {
            cx.violation("HARNESS|C15|heapwatch_table_full", json!({"count":full}));
        }
    }
    if observer_overflowed() {
        cx.violation("HARNESS|C15|allocator_event_ring_overflow", json!({}));
    }
}
