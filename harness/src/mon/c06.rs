//! C06 — Ed25519 signatures are RFC 8032 exact and verification is strict (decisions equal libsodium's).

use dryoc::classic::crypto_sign::*;
use dryoc::sign::{IncrementalSigner, SignedMessage, SigningKeyPair};
use dryoc::types::*;
use serde_json::json;

use super::*;
use crate::ctx::{hx, unhex, Ctx};
use crate::sodium as na;

const L_BYTES: &str = "edd3f55c1a631258d69cf7a2def9de1400000000000000000000000000000010";

fn add256(a: &[u8; 32], b: &[u8; 32]) -> Option<[u8; 32]> {
    let mut out = [0u8; 32];
    let mut carry = 0u16;
    for i in 0..32 {
        let v = a[i] as u16 + b[i] as u16 + carry;
        out[i] = v as u8;
        carry = v >> 8;
    }
    if carry != 0 {
        None
    } else {
        Some(out)
    }
}

/// the 14 small-order / non-canonical Edwards encodings (libsodium's block list, both sign bits)
pub fn small_order_encodings() -> Vec<(String, [u8; 32])> {
    let mut p = [0xffu8; 32];
    p[0] = 0xed;
    p[31] = 0x7f;
    let mut pm1 = p;
    pm1[0] = 0xec;
    let mut pp1 = p;
    pp1[0] = 0xee;
    let mut one = [0u8; 32];
    one[0] = 1;
    let base: Vec<(&str, [u8; 32])> = vec![
        ("y=0(order4)", [0u8; 32]),
        ("y=1(identity)", one),
        ("order8a", unhex("26e8958fc2b227b045c3f489f2ef98f0d5dfac05d3c63339b13802886d53fc05").try_into().unwrap()),
        ("order8b", unhex("c7176a703d4dd84fba3c0b760d10670f2a2053fa2c39ccc64ec7fd7792ac037a").try_into().unwrap()),
        ("y=p-1(order2)", pm1),
        ("y=p(noncanonical 0)", p),
        ("y=p+1(noncanonical 1)", pp1),
    ];
    let mut v = Vec::new();
    for (n, b) in base {
        v.push((n.to_string(), b));
        let mut s = b;
        s[31] |= 0x80;
        v.push((format!("{}|signbit", n), s));
    }
    v
}

struct Verifiers;

/// every dryoc verification entry point for pure mode; returns (name, accepted)
/// the Ed25519 challenge hash input: pure H(R || A || M), or pre-hashed H(dom2(1, "") || R || A || SHA-512(M))
fn challenge(ph: bool, r: &[u8; 32], a: &[u8; 32], m: &[u8]) -> [u8; 64] {
    let mut h = Vec::new();
    if ph {
        h.extend_from_slice(b"SigEd25519 no Ed25519 collisions\x01\x00");
    }
    h.extend_from_slice(r);
    h.extend_from_slice(a);
    if ph {
        h.extend_from_slice(&na::sha512(m));
    } else {
        h.extend_from_slice(m);
    }
    na::sha512(&h)
}

fn verify_all_pure(cx: &mut Ctx, sig: &[u8; 64], msg: &[u8], pk: &[u8; 32], case: &dyn Fn() -> serde_json::Value) -> Vec<(&'static str, bool)> {
    let mut out = Vec::new();
    if let Some(r) = call(cx, "C06|crypto_sign_verify_detached", "crypto_sign_verify_detached", case, || crypto_sign_verify_detached(sig, msg, pk)) {
        out.push(("crypto_sign_verify_detached", r.is_ok()));
    }
    let mut sm = sig.to_vec();
    sm.extend_from_slice(msg);
    let mut m = stale(msg.len());
    if let Some(r) = call(cx, "C06|crypto_sign_open", "crypto_sign_open", case, || crypto_sign_open(&mut m, &sm, pk)) {
        let ok = r.is_ok();
        if ok && m != msg {
            cx.violation("C06|crypto_sign_open|wrong_message_returned", case());
        }
        out.push(("crypto_sign_open", ok));
    }
    if let Some(r) = call(cx, "C06|SignedMessage::verify", "SignedMessage::verify", case, || {
        let s: SignedMessage<StackByteArray<64>, Vec<u8>> = SignedMessage::from_bytes(&sm)?;
        s.verify(pk)
    }) {
        out.push(("SignedMessage::from_bytes+verify", r.is_ok()));
    }
    out
}

fn verify_all_ph(cx: &mut Ctx, sig: &[u8; 64], msg: &[u8], pk: &[u8; 32], case: &dyn Fn() -> serde_json::Value) -> Vec<(&'static str, bool)> {
    let mut out = Vec::new();
    if let Some(r) = call(cx, "C06|crypto_sign_final_verify", "crypto_sign_final_verify", case, || {
        let mut st = crypto_sign_init();
        crypto_sign_update(&mut st, msg);
        crypto_sign_final_verify(st, sig, pk)
    }) {
        out.push(("crypto_sign_final_verify", r.is_ok()));
    }
    let mv = msg.to_vec();
    if let Some(r) = call(cx, "C06|IncrementalSigner::verify", "IncrementalSigner::verify", case, || {
        let mut s = IncrementalSigner::new();
        s.update(&mv);
        s.verify(sig, pk)
    }) {
        out.push(("IncrementalSigner::verify", r.is_ok()));
    }
    out
}

/// negative (or decision-equality) case: every dryoc entry point must decide like libsodium
fn decide(cx: &mut Ctx, family: &str, ph: bool, sig: &[u8; 64], msg: &[u8], pk: &[u8; 32], must_reject: bool) {
    let want = if ph { na::sign_ph_verify(sig, msg, pk) } else { na::sign_verify_detached(sig, msg, pk) };
    let case = || json!({"family":family,"prehashed":ph,"sig":hx(sig),"msg":hx(&msg[..msg.len().min(80)]),"msglen":msg.len(),"pk":hx(pk),"libsodium_accepts":want});
    if must_reject && want {
        // the harness built a case libsodium accepts although the family is supposed to be invalid:
        // that is a harness problem, not dryoc's
        cx.violation("HARNESS|C06|libsodium_accepts_negative_case", case());
        return;
    }
    let res = if ph { verify_all_ph(cx, sig, msg, pk, &case) } else { verify_all_pure(cx, sig, msg, pk, &case) };
    for (name, acc) in res {
        cx.eval();
        if acc != want {
            let cls = if acc { "accepts_what_libsodium_rejects" } else { "rejects_what_libsodium_accepts" };
            cx.violation(&format!("C06|{}|{}|{}", name, cls, family), case());
        }
    }
    cx.cover("negative_family", family);
}

/// honest key pairs whose *public key encoding* is structured (top or bottom bytes all ones / all zero, low byte in the
/// range where a canonicity test looks), found by grinding seeds: a verifier that pre-screens the encoding byte-wise
/// (canonical form, "looks small-order", "looks like the identity") can be wrong on keys that random seeds hit with
/// probability 2^-15 .. 2^-19 each
pub fn grind_structured_keys(cx: &mut Ctx, per_shard: usize, salt: u64, cap_per_class: usize) -> (Vec<([u8; 32], [u8; 32], &'static str)>, std::collections::HashMap<&'static str, usize>) {
    use curve25519_dalek::edwards::EdwardsPoint;
    use curve25519_dalek::scalar::Scalar;
    let mut rng = cx.rng.fork(salt + cx.shard as u64);
    let mut found: std::collections::HashMap<&'static str, usize> = std::collections::HashMap::new();
    let mut out = Vec::new();
    let mut seed: [u8; 32] = rng.arr();
    for _ in 0..per_shard {
        for b in seed.iter_mut() {
            *b = b.wrapping_add(1);
            if *b != 0 {
                break;
            }
        }
        let h = na::sha512(&seed);
        let mut a: [u8; 32] = h[..32].try_into().unwrap();
        a[0] &= 248;
        a[31] &= 127;
        a[31] |= 64;
        let e = EdwardsPoint::mul_base(&Scalar::from_bytes_mod_order(a)).compress().to_bytes();
        let class: Option<&'static str> = if e[31] & 0x7f == 0x7f && e[30] == 0xff {
            Some(if e[0] >= 0xed { "top_15_bits_one,low_byte>=0xed" } else { "top_15_bits_one" })
        } else if e[31] & 0x7f == 0x7f && e[0] >= 0xed {
            Some("top_7_bits_one,low_byte>=0xed")
        } else if e[31] & 0x7f == 0 && e[30] == 0 {
            Some("top_15_bits_zero")
        } else if e[0] == 0 && e[1] == 0 {
            Some("low_16_bits_zero")
        } else if e[0] >= 0xed && e[1] == 0xff && e[2] & 0xf0 == 0xf0 {
            Some("low_bytes_like_p")
        } else {
            None
        };
        let Some(class) = class else { continue };
        let n = found.entry(class).or_insert(0);
        *n += 1;
        if *n <= cap_per_class {
            out.push((seed, e, class));
        }
    }
    (out, found)
}

fn ground_keys(cx: &mut Ctx) {
    let per_shard = cx.tier.pick(0usize, 250_000, 4_000_000);
    let (keys, found) = grind_structured_keys(cx, per_shard, 0xC06_0000, 24);
    let mut rng = cx.rng.fork(0xC06_1000 + cx.shard as u64);
    for (i, (seed, e, class)) in keys.into_iter().enumerate() {
        // the reference must derive the same key, otherwise the grinder is wrong
        let (npk, nsk) = na::sign_seed_keypair(&seed);
        if npk != e {
            cx.violation("HARNESS|C06|ground_key_differs_from_libsodium", json!({"seed":hx(&seed)}));
            return;
        }
        cx.key(&format!("ground {} {}", class, i));
        let (pk, sk) = crypto_sign_seed_keypair(&seed);
        let c = || json!({"family":"ground_public_key","class":class,"seed":hx(&seed),"pk":hx(&e)});
        expect_eq(cx, "C06|crypto_sign_seed_keypair|mismatch_vs_libsodium|ground_key", &[&pk[..], &sk[..]].concat(), &[&npk[..], &nsk[..]].concat(), c);
        for mlen in [0usize, 1, 33] {
            let msg = rng.bytes(mlen);
            let want = na::sign_detached(&msg, &nsk);
            let mut sig = stale_arr::<64>();
            if call(cx, "C06|crypto_sign_detached", "crypto_sign_detached", c, || crypto_sign_detached(&mut sig, &msg, &sk)).is_some() {
                expect_eq(cx, "C06|crypto_sign_detached|mismatch_vs_libsodium|ground_key", &sig, &want, c);
            }
            decide(cx, &format!("valid_pure|ground_key|{}", class), false, &want, &msg, &npk, false);
            let want_ph = na::sign_ph_create(&msg, &nsk);
            decide(cx, &format!("valid_prehashed|ground_key|{}", class), true, &want_ph, &msg, &npk, false);
            let mut bad = want;
            bad[rng.below(64)] ^= 1 << rng.below(8);
            decide(cx, "sig_bit_flip|ground_key", false, &bad, &msg, &npk, true);
        }
        cx.cover("ground_public_key_class", class);
    }
    cx.note("ground_keys", json!({"seeds_tried_this_shard":per_shard,"found":found}));
}

pub fn run(cx: &mut Ctx) {
    ground_keys(cx);
    let maxlen = cx.tier.pick(40usize, 300, 1100);
    let seeds_per_len = cx.tier.pick(1usize, 1, 12);
    let l: [u8; 32] = unhex(L_BYTES).try_into().unwrap();
    let small = small_order_encodings();
    let mut idx = 0u64;
    let lens: Vec<usize> = (0..=maxlen).chain(if cx.tier == crate::ctx::Tier::Thorough { vec![4096usize, 65536] } else { vec![] }).collect();

    for &len in &lens {
        for sidx in 0..seeds_per_len {
            idx += 1;
            if !cx.mine(idx) {
                continue;
            }
            let mut rng = cx.rng.fork(idx);
            let seed: [u8; 32] = match (len + sidx) % 23 {
                0 => [0u8; 32],
                1 => [0xff; 32],
                _ => rng.arr(),
            };
            let msg = rng.bytes(len);
            cx.key(&format!("sign len={} s={}", len, sidx));
            cx.cover("msg_len_mod128", &format!("{}", len % 128));
            let (npk, nsk) = na::sign_seed_keypair(&seed);
            let case = || json!({"seed":hx(&seed),"msglen":len,"msg":hx(&msg[..msg.len().min(80)])});
            // key pair
            let Some((pk, sk)) = call(cx, "C06|crypto_sign_seed_keypair", "crypto_sign_seed_keypair", case, || crypto_sign_seed_keypair(&seed)) else { continue };
            expect_eq(cx, "C06|crypto_sign_seed_keypair|mismatch_vs_libsodium", &[&pk[..], &sk[..]].concat(), &[&npk[..], &nsk[..]].concat(), case);

            // ---- pure mode
            let want = na::sign_detached(&msg, &nsk);
            let mut sig = stale_arr::<64>();
            if let Some(r) = call(cx, "C06|crypto_sign_detached", "crypto_sign_detached", case, || crypto_sign_detached(&mut sig, &msg, &sk)) {
                expect(cx, "C06|crypto_sign_detached|unexpected_err", r.is_ok(), case);
                expect_eq(cx, "C06|crypto_sign_detached|mismatch_vs_libsodium", &sig, &want, case);
            }
            let mut sm = stale(len + 64);
            if let Some(r) = call(cx, "C06|crypto_sign", "crypto_sign", case, || crypto_sign(&mut sm, &msg, &sk)) {
                expect(cx, "C06|crypto_sign|unexpected_err", r.is_ok(), case);
                expect_eq(cx, "C06|crypto_sign|mismatch_vs_libsodium", &sm, &na::sign(&msg, &nsk), case);
            }
            let kp: SigningKeyPair<StackByteArray<32>, StackByteArray<64>> = SigningKeyPair::from_seed(&seed);
            if let Some(Ok(s)) = call(cx, "C06|SigningKeyPair::sign", "SigningKeyPair::sign", case, || kp.sign::<StackByteArray<64>, Vec<u8>>(msg.clone())) {
                let bytes: Vec<u8> = s.to_bytes();
                expect_eq(cx, "C06|SigningKeyPair::sign+to_bytes|mismatch_vs_libsodium", &bytes, &na::sign(&msg, &nsk), case);
                let (sg, m2) = s.into_parts();
                expect(cx, "C06|SignedMessage::into_parts|mismatch", sg.as_slice() == want && m2 == msg, case);
            } else {
                cx.violation("C06|SigningKeyPair::sign|err_or_panic", case());
            }
            if let Some(Ok(s)) = call(cx, "C06|SigningKeyPair::sign_with_defaults", "SigningKeyPair::sign_with_defaults", case, || kp.sign_with_defaults(msg.clone())) {
                expect_eq(cx, "C06|SigningKeyPair::sign_with_defaults|mismatch_vs_libsodium", &s.to_vec(), &na::sign(&msg, &nsk), case);
            }
            // key pair objects rebuilt from a 64-byte secret-key buffer whose second half is not (or not exactly) the public key
            // of the seed in its first half: the seed decides; signatures are RFC 8032 for that seed and verify under the
            // public key the object reports
            for (variant, tail) in [("consistent", npk.to_vec()), ("zeros", vec![0u8; 32]), ("ff", vec![0xff; 32]), ("seed_repeated", seed.to_vec()), ("public_half_one_bit_flipped", { let mut t = npk.to_vec(); t[len % 32] ^= 1 << (len % 8); t })] {
                if len % 4 != 0 && variant != "consistent" && variant != "public_half_one_bit_flipped" {
                    continue;
                }
                let mut buf = seed.to_vec();
                buf.extend_from_slice(&tail);
                let c2 = || json!({"seed":hx(&seed),"secret_key_buffer_second_half":variant,"msglen":len});
                let skb: StackByteArray<64> = StackByteArray::try_from(&buf[..]).unwrap();
                let Some(kp2) = call(cx, "C06|SigningKeyPair::from_secret_key", "SigningKeyPair::from_secret_key", c2, || SigningKeyPair::<StackByteArray<32>, StackByteArray<64>>::from_secret_key(skb)) else { continue };
                expect_eq(cx, &format!("C06|SigningKeyPair::from_secret_key|public_key_differs_from_libsodium|{}", variant), kp2.public_key.as_slice(), &npk, c2);
                if let Some(Ok(s)) = call(cx, "C06|SigningKeyPair::sign", "SigningKeyPair::sign", c2, || kp2.sign::<StackByteArray<64>, Vec<u8>>(msg.clone())) {
                    let (sg, _) = s.clone().into_parts();
                    expect_eq(cx, &format!("C06|SigningKeyPair::from_secret_key+sign|signature_differs_from_rfc8032_for_the_seed|{}", variant), sg.as_slice(), &want, c2);
                    expect(cx, &format!("C06|SigningKeyPair::from_secret_key+sign|signature_does_not_verify_under_reported_public_key|{}", variant), s.verify(&kp2.public_key).is_ok(), c2);
                }
                let mut signer = IncrementalSigner::new();
                signer.update(&msg);
                if let Some(Ok(sg)) = call(cx, "C06|IncrementalSigner::finalize", "IncrementalSigner::finalize", c2, || signer.finalize::<StackByteArray<64>, _>(&kp2.secret_key)) {
                    expect(cx, &format!("C06|SigningKeyPair::from_secret_key+IncrementalSigner|signature_does_not_verify_under_reported_public_key|{}", variant), na::sign_ph_verify(sg.as_array(), &msg, kp2.public_key.as_array()), c2);
                }
                cx.cover("from_secret_key_buffer", variant);
            }
            // every produced signature verifies, under dryoc (all entry points) and under libsodium
            decide(cx, "valid_pure", false, &want, &msg, &npk, false);
            expect(cx, "C06|crypto_sign_detached|own_signature_rejected_by_libsodium", na::sign_verify_detached(&sig, &msg, &npk), case);

            // ---- pre-hashed mode
            let want_ph = na::sign_ph_create(&msg, &nsk);
            let mut sig_ph = stale_arr::<64>();
            if let Some(r) = call(cx, "C06|crypto_sign_final_create", "crypto_sign_final_create", case, || {
                let mut st = crypto_sign_init();
                crypto_sign_update(&mut st, &msg);
                crypto_sign_final_create(st, &mut sig_ph, &sk)
            }) {
                expect(cx, "C06|crypto_sign_final_create|unexpected_err", r.is_ok(), case);
                expect_eq(cx, "C06|crypto_sign_final_create|mismatch_vs_libsodium", &sig_ph, &want_ph, case);
            }
            if let Some(Ok(s)) = call(cx, "C06|IncrementalSigner::finalize", "IncrementalSigner::finalize", case, || {
                let mut s = IncrementalSigner::new();
                s.update(&msg);
                s.finalize::<StackByteArray<64>, _>(&sk)
            }) {
                expect_eq(cx, "C06|IncrementalSigner::finalize|mismatch_vs_libsodium", s.as_slice(), &want_ph, case);
            }
            decide(cx, "valid_prehashed", true, &want_ph, &msg, &npk, false);

            // ---- mode cross-overs: always rejected
            decide(cx, "pure_sig_to_prehashed_verify", true, &want, &msg, &npk, true);
            decide(cx, "prehashed_sig_to_pure_verify", false, &want_ph, &msg, &npk, true);

            if len % 16 == 3 || len < 3 {
                cx.io("ed25519", json!({"seed":hx(&seed),"msg":hx(&msg),"sig":hx(&sig),"sig_ph":hx(&sig_ph),"pk":hx(&pk)}));
            }
            if len == 33 {
                cx.sample(json!({"family":"sign+verify","seed":hx(&seed),"msglen":len,"sig":hx(&want)}));
            }

            // ---- malleation family S + kL (all k that fit in 256 bits), both modes
            for (ph, base) in [(false, &want), (true, &want_ph)] {
                let s0: [u8; 32] = base[32..].try_into().unwrap();
                let mut s = s0;
                for k in 1..=16 {
                    match add256(&s, &l) {
                        Some(n) => s = n,
                        None => break,
                    }
                    let mut bad = *base;
                    bad[32..].copy_from_slice(&s);
                    decide(cx, "S_plus_kL", ph, &bad, &msg, &npk, true);
                    cx.cover("S_plus_kL_k", &format!("{}", k));
                }
            }

            // ---- single random bit flips on every case; exhaustive flips on a subset
            let exhaustive = len % 19 == 0;
            let nsig = if exhaustive { 512 } else { 6 };
            for j in 0..nsig {
                let bit = if exhaustive { j } else { rng.below(512) };
                let mut bad = want;
                bad[bit / 8] ^= 1 << (bit % 8);
                decide(cx, "sig_bit_flip", false, &bad, &msg, &npk, true);
            }
            let npkf = if exhaustive { 256 } else { 4 };
            for j in 0..npkf {
                let bit = if exhaustive { j } else { rng.below(256) };
                let mut bad = npk;
                bad[bit / 8] ^= 1 << (bit % 8);
                // flipping a public-key bit yields an unrelated (or undecodable) key: rejected by both
                decide(cx, "pk_bit_flip", false, &want, &msg, &bad, true);
            }
            if len > 0 {
                let nm = if len <= 64 { len * 8 } else { 8 };
                for j in 0..nm {
                    let bit = if len <= 64 { j } else { rng.below(len * 8) };
                    let mut bad = msg.clone();
                    bad[bit / 8] ^= 1 << (bit % 8);
                    decide(cx, "msg_bit_flip", false, &want, &bad, &npk, true);
                    if j % 4 == 0 {
                        decide(cx, "msg_bit_flip_prehashed", true, &want_ph, &bad, &npk, true);
                    }
                }
            }
            if exhaustive {
                for j in 0..64 {
                    let bit = rng.below(512);
                    let _ = j;
                    let mut bad = want_ph;
                    bad[bit / 8] ^= 1 << (bit % 8);
                    decide(cx, "sig_bit_flip_prehashed", true, &bad, &msg, &npk, true);
                }
                cx.cover("exhaustive_flip_len", &format!("{}", len));
            }
            // truncated / extended combined message through open
            {
                let smv = na::sign(&msg, &nsk);
                for cut in [1usize, 63, 64, 65] {
                    if cut <= smv.len() {
                        let t = &smv[..smv.len() - cut];
                        let mut m = stale(t.len().saturating_sub(64));
                        let want_ok = na::sign_open(t, &npk).is_some();
                        if let Some(r) = call(cx, "C06|crypto_sign_open", "crypto_sign_open", case, || crypto_sign_open(&mut m, t, &npk)) {
                            expect(cx, "C06|crypto_sign_open|decision_differs_from_libsodium|truncated", r.is_ok() == want_ok, || json!({"cut":cut,"case":case()}));
                        }
                    }
                }
            }
        }
    }

    // ------------------------------------------------ small-order / non-canonical A and R
    let per = cx.tier.pick(1usize, 6, 400);
    for (en, enc) in &small {
        for rep in 0..per {
            idx += 1;
            if !cx.mine(idx) {
                continue;
            }
            let mut rng = cx.rng.fork(idx);
            cx.key(&format!("smallorder {} {}", en, rep));
            // (1) as public key A: R = rB, S = r satisfies SB = R + kA whenever kA = O.
            //     Search a message for which k = H(R||A||M) mod L is 0 mod 8 so that the forgery is
            //     "equation-valid" for every small-order A; only the explicit small-order check stops it.
            let r: [u8; 32] = {
                let mut w = [0u8; 64];
                rng.fill(&mut w);
                na::ed_scalar_reduce(&w)
            };
            let big_r = na::ed_scalarmult_base_noclamp(&r).unwrap_or([0u8; 32]);
            let mut sigb = [0u8; 64];
            sigb[..32].copy_from_slice(&big_r);
            sigb[32..].copy_from_slice(&r);
            for ph in [false, true] {
                let mut found = None;
                for ctr in 0u32..400 {
                    let mut m = b"small-order A forgery ".to_vec();
                    m.extend_from_slice(&ctr.to_le_bytes());
                    m.extend_from_slice(&rng.bytes(rep));
                    let k = na::ed_scalar_reduce(&challenge(ph, &big_r, enc, &m));
                    if k[0] & 7 == 0 {
                        found = Some(m);
                        break;
                    }
                }
                if let Some(m) = found {
                    decide(cx, if ph { "small_order_public_key(equation-valid forgery)|prehashed" } else { "small_order_public_key(equation-valid forgery)" }, ph, &sigb, &m, enc, true);
                    cx.cover(if ph { "small_order_A_prehashed" } else { "small_order_A" }, en);
                }
            }
            // (1b) small-order A *and* small-order R with S = 0: 0*B = R + k*A holds whenever R = -k*A; with A = R =
            //      identity it holds for every message (a universal forgery unless the order checks stop it)
            for (rn, renc) in &small {
                if rep > 0 && !rn.contains("identity") {
                    continue;
                }
                let mut sig0 = [0u8; 64];
                sig0[..32].copy_from_slice(renc);
                let m = rng.bytes(rep + 1);
                for ph in [false, true] {
                    decide(cx, if ph { "small_order_A_and_R(S=0)|prehashed" } else { "small_order_A_and_R(S=0)" }, ph, &sig0, &m, enc, true);
                }
            }
            // (2) as commitment R with an honest key: S = k*a makes SB = R + kA hold up to the small-order R
            //     (exactly when R is the identity); the explicit small-order check on R must stop it.
            let seed: [u8; 32] = rng.arr();
            let (pk, _sk) = na::sign_seed_keypair(&seed);
            let hs = na::sha512(&seed);
            let mut a = [0u8; 64];
            a[..32].copy_from_slice(&hs[..32]);
            a[0] &= 248;
            a[31] &= 127;
            a[31] |= 64;
            let a_red = na::ed_scalar_reduce(&a);
            let mlen = rng.range(0, 50);
            let m = rng.bytes(mlen);
            for ph in [false, true] {
                let k = na::ed_scalar_reduce(&challenge(ph, enc, &pk, &m));
                let s = na::ed_scalar_mul(&k, &a_red);
                let mut sigr = [0u8; 64];
                sigr[..32].copy_from_slice(enc);
                sigr[32..].copy_from_slice(&s);
                // equation-valid for this mode (exactly when R is the identity); only the order check on R stops it
                decide(cx, if ph { "small_order_R(S=k*a)|prehashed" } else { "small_order_R(S=k*a)" }, ph, &sigr, &m, &pk, true);
                // and presented to the other mode's verifier
                decide(cx, if ph { "small_order_R(prehashed S) to pure verify" } else { "small_order_R_prehashed" }, !ph, &sigr, &m, &pk, true);
            }
            cx.cover("small_order_R", en);
        }
    }
    // ------------------------------------------------ public keys that are not curve points
    // About half of all 32-byte strings do not decompress. Under such a key nothing verifies in libsodium; a verifier that
    // substitutes a default point for the undecodable key checks [S]B == R only, which the key-independent pair
    // (R, S) = ([s]B, s) satisfies for every message.
    {
        use curve25519_dalek::constants::ED25519_BASEPOINT_POINT as B;
        use curve25519_dalek::edwards::CompressedEdwardsY;
        use curve25519_dalek::scalar::Scalar;
        let noff = cx.tier.pick(2usize, 24, 400);
        for i in 0..noff {
            idx += 1;
            if !cx.mine(idx) {
                continue;
            }
            let mut rng = cx.rng.fork(idx);
            let seed: [u8; 32] = rng.arr();
            let (npk, nsk) = na::sign_seed_keypair(&seed);
            // an honest key with a few bits changed, or a random string, until it is off the curve
            let mut bad_pk = if i % 2 == 0 { npk } else { rng.arr::<32>() };
            let mut tries = 0;
            while CompressedEdwardsY(bad_pk).decompress().is_some() && tries < 64 {
                bad_pk[rng.below(31)] ^= 1 << rng.below(8);
                tries += 1;
            }
            if CompressedEdwardsY(bad_pk).decompress().is_some() {
                continue;
            }
            cx.key(&format!("offcurve {}", i));
            let sc = Scalar::from_bytes_mod_order_wide(&rng.arr::<64>());
            let mut keyless = [0u8; 64];
            keyless[..32].copy_from_slice(&(sc * B).compress().to_bytes());
            keyless[32..].copy_from_slice(sc.as_bytes());
            let m = rng.bytes(i % 40);
            for ph in [false, true] {
                decide(cx, if ph { "public_key_not_on_curve(keyless R=[s]B,S=s)|prehashed" } else { "public_key_not_on_curve(keyless R=[s]B,S=s)" }, ph, &keyless, &m, &bad_pk, true);
            }
            let honest = na::sign_detached(&m, &nsk);
            decide(cx, "public_key_not_on_curve(honest signature of the unmutated key)", false, &honest, &m, &bad_pk, true);
            cx.cover("offcurve_public_key", if i % 2 == 0 { "mutated_honest_key" } else { "random_string" });
        }
    }
    // ------------------------------------------------ mixed-order public keys A + T (T of order 2, 4 or 8)
    // With an honest secret scalar a, R = rB and S = r + k*a, the cofactorless equation holds for the key A + T exactly
    // when k*T is the identity. libsodium (which only refuses *small-order* keys) then accepts; a verifier that
    // demands torsion-free keys, or multiplies by the cofactor, decides differently.
    {
        use curve25519_dalek::constants::ED25519_BASEPOINT_POINT as B;
        use curve25519_dalek::edwards::CompressedEdwardsY;
        use curve25519_dalek::scalar::Scalar;
        let nmix = cx.tier.pick(2usize, 24, 400);
        let torsion: Vec<(String, curve25519_dalek::edwards::EdwardsPoint)> = small.iter().filter(|(n, _)| !n.contains("identity") && !n.contains("noncanonical") && !n.contains("signbit") || n == "order8a|signbit").filter_map(|(n, e)| CompressedEdwardsY(*e).decompress().map(|p| (n.clone(), p))).collect();
        for i in 0..nmix {
            idx += 1;
            if !cx.mine(idx) {
                continue;
            }
            let mut rng = cx.rng.fork(idx);
            let (tn, t) = &torsion[i % torsion.len()];
            let seed: [u8; 32] = rng.arr();
            let hs = na::sha512(&seed);
            let mut a_bytes: [u8; 32] = hs[..32].try_into().unwrap();
            a_bytes[0] &= 248;
            a_bytes[31] &= 127;
            a_bytes[31] |= 64;
            let a = Scalar::from_bytes_mod_order(a_bytes);
            let pk_mixed = (a * B + t).compress().to_bytes();
            let r = Scalar::from_bytes_mod_order_wide(&rng.arr::<64>());
            let big_r = (r * B).compress().to_bytes();
            cx.key(&format!("mixed {} {}", tn, i));
            // one message with k*T = O (libsodium accepts) and one with k*T != O (both reject)
            let mut done = (false, false);
            let ph = i % 3 == 2;
            for ctr in 0u32..200 {
                let mut m = b"mixed-order key ".to_vec();
                m.extend_from_slice(&ctr.to_le_bytes());
                let k = Scalar::from_bytes_mod_order_wide(&challenge(ph, &big_r, &pk_mixed, &m));
                let s = r + k * a;
                let mut sig = [0u8; 64];
                sig[..32].copy_from_slice(&big_r);
                sig[32..].copy_from_slice(s.as_bytes());
                let kt_is_identity = (k * t).compress().to_bytes() == CompressedEdwardsY([1, 0, 0, 0, 0, 0, 0, 0, 0, 0, 0, 0, 0, 0, 0, 0, 0, 0, 0, 0, 0, 0, 0, 0, 0, 0, 0, 0, 0, 0, 0, 0]).to_bytes();
                if kt_is_identity && !done.0 {
                    decide(cx, if ph { "mixed_order_public_key(k*T=identity)|prehashed" } else { "mixed_order_public_key(k*T=identity)" }, ph, &sig, &m, &pk_mixed, false);
                    done.0 = true;
                    cx.cover("mixed_order_T", tn);
                } else if !kt_is_identity && !done.1 {
                    decide(cx, if ph { "mixed_order_public_key(k*T!=identity)|prehashed" } else { "mixed_order_public_key(k*T!=identity)" }, ph, &sig, &m, &pk_mixed, true);
                    done.1 = true;
                }
                if done.0 && done.1 {
                    break;
                }
            }
        }
    }
    if cx.shard == 0 {
        cx.sample(json!({"family":"small_order_encodings","encodings":small.iter().map(|(n, e)| json!({"name":n,"hex":hx(e)})).collect::<Vec<_>>()}));
    }
}
