//! C09 — Argon2 password hashing equals libsodium / RFC 9106 for every parameter set.

use dryoc::classic::crypto_pwhash::{crypto_pwhash, PasswordHashAlgorithm};
use dryoc::constants::{CRYPTO_PWHASH_MEMLIMIT_MAX, CRYPTO_PWHASH_OPSLIMIT_MAX};
use dryoc::pwhash::{Config, PwHash};
use serde_json::json;

use super::*;
use crate::ctx::{hx, Ctx, Tier};
use crate::sodium as na;

const MEMS_KIB: [usize; 24] = [8, 9, 10, 11, 12, 13, 15, 16, 17, 31, 33, 37, 64, 100, 255, 516, 600, 1000, 1024, 1025, 2044, 4099, 16385, 65537];
const OUT_SPECIAL: [usize; 7] = [255, 256, 257, 1023, 1024, 1025, 1100];

fn alg(id: bool) -> PasswordHashAlgorithm {
    if id {
        PasswordHashAlgorithm::Argon2id13
    } else {
        PasswordHashAlgorithm::Argon2i13
    }
}

/// one accepted-parameter case through the classic API, judged against libsodium
fn case(cx: &mut Ctx, id: bool, t: u64, memlimit: usize, outlen: usize, pw: &[u8], salt: &[u8], family: &str, log_io: bool) {
    let m_kib = (memlimit / 1024) as u32;
    // reference #1a: public crypto_pwhash (16-byte salt; Argon2i needs t >= 3); #1b: libsodium's Argon2 core
    let raw = na::argon2_raw(id, t as u32, m_kib, pw, salt, outlen);
    let public = if salt.len() == 16 && (id || t >= 3) {
        na::pwhash(outlen, pw, &salt.try_into().unwrap(), t, memlimit, if id { na::ALG_ARGON2ID13 } else { na::ALG_ARGON2I13 })
    } else {
        None
    };
    let c = || json!({"family":family,"alg": if id {"argon2id"} else {"argon2i"},"t":t,"memlimit":memlimit,"m_kib":m_kib,"outlen":outlen,"pwlen":pw.len(),"pw":hx(&pw[..pw.len().min(40)]),"salt":hx(salt)});
    let Some(want) = raw.clone() else {
        cx.violation("HARNESS|C09|libsodium_core_refuses_accepted_parameters", c());
        return;
    };
    if let Some(p) = &public {
        if *p != want {
            cx.violation("HARNESS|C09|libsodium_public_and_core_disagree", c());
            return;
        }
        cx.cover("reference", "crypto_pwhash+argon2_core");
    } else {
        cx.cover("reference", "argon2_core_only");
    }
    let mut out = stale(outlen);
    let r = call(cx, "C09|crypto_pwhash", "crypto_pwhash", c, || crypto_pwhash(&mut out, pw, salt, t, memlimit, alg(id)));
    let Some(r) = r else { return };
    match r {
        Err(e) => {
            cx.eval();
            cx.violation("C09|crypto_pwhash|rejects_valid_parameters", json!({"err":e.to_string(),"case":c()}));
        }
        Ok(()) => {
            let mclass = if m_kib % 4 != 0 { "m%4!=0" } else if m_kib > 512 && (m_kib / 4) % 128 != 0 { "m>512,seg%128!=0" } else { "m_regular" };
            expect_eq(cx, &format!("C09|crypto_pwhash|mismatch_vs_libsodium|{}", mclass), &out, &want, c);
            if log_io {
                cx.io("argon2", json!({"id":id,"t":t,"m":m_kib,"outlen":outlen,"pw":hx(pw),"salt":hx(salt),"out":hx(&out),"sole_reference":false}));
            }
        }
    }
    cx.cover("alg", if id { "argon2id" } else { "argon2i" });
    cx.cover("t", &format!("{}", t));
    cx.cover("m_kib", &format!("{}", m_kib));
    cx.cover("m_mod4", &format!("{}", m_kib % 4));
}

/// the three presets (and the default) name libsodium's limits: read from the serialised configuration, no hashing
fn presets(cx: &mut Ctx) {
    if !cx.mine(424_242) {
        return;
    }
    use libsodium_sys as ffi;
    let want: [(&str, Config, u64, usize); 4] = unsafe {
        [
            ("interactive", Config::interactive(), ffi::crypto_pwhash_opslimit_interactive() as u64, ffi::crypto_pwhash_memlimit_interactive()),
            ("moderate", Config::moderate(), ffi::crypto_pwhash_opslimit_moderate() as u64, ffi::crypto_pwhash_memlimit_moderate()),
            ("sensitive", Config::sensitive(), ffi::crypto_pwhash_opslimit_sensitive() as u64, ffi::crypto_pwhash_memlimit_sensitive()),
            ("default", Config::default(), ffi::crypto_pwhash_opslimit_interactive() as u64, ffi::crypto_pwhash_memlimit_interactive()),
        ]
    };
    for (name, cfg, ops, mem) in want {
        cx.eval();
        let v = serde_json::to_value(&cfg).unwrap_or(serde_json::Value::Null);
        let got_ops = v.get("opslimit").and_then(|x| x.as_u64());
        let got_mem = v.get("memlimit").and_then(|x| x.as_u64());
        let got_hl = v.get("hash_length").and_then(|x| x.as_u64());
        let got_sl = v.get("salt_length").and_then(|x| x.as_u64());
        if got_ops.is_none() || got_mem.is_none() {
            cx.violation("HARNESS|C09|config_not_introspectable", json!({"preset":name,"serialised":v}));
            continue;
        }
        if got_ops != Some(ops) || got_mem != Some(mem as u64) || got_hl != Some(32) || got_sl != Some(16) {
            cx.violation(&format!("C09|Config::{}|preset_differs_from_libsodium_limits", name), json!({"serialised":v,"libsodium_opslimit":ops,"libsodium_memlimit":mem}));
        }
        cx.cover("preset", name);
    }
}

pub fn run(cx: &mut Ctx) {
    presets(cx);
    let mut idx = 0u64;
    let salt0: [u8; 16] = *b"0123456789abcdef";

    // (A) output length sweep across the 64-byte and 32-byte-step boundaries of the variable-length hash
    let outs: Vec<usize> = (16..=cx.tier.pick(70usize, 200, 330)).chain(OUT_SPECIAL.iter().copied()).collect();
    for &outlen in &outs {
        for id in [false, true] {
            idx += 1;
            if !cx.mine(idx) {
                continue;
            }
            let mut rng = cx.rng.fork(idx);
            let pwlen = rng.range(0, 40);
            let pw = rng.bytes(pwlen);
            let salt: [u8; 16] = rng.arr();
            let t = if id { 1 } else { 3 };
            cx.key(&format!("out {} {}", outlen, id));
            cx.cover("outlen_mod32", &format!("{}", outlen % 32));
            cx.cover("outlen", &format!("{}", outlen));
            case(cx, id, t, 8192, outlen, &pw, &salt, "outlen_sweep", outlen % 16 == 1 || outlen <= 65 && outlen >= 63);
        }
    }
    // (B) password length sweep (including empty)
    for pwlen in 0..=cx.tier.pick(40usize, 300, 300) {
        idx += 1;
        if !cx.mine(idx) {
            continue;
        }
        let mut rng = cx.rng.fork(idx);
        let pw = if pwlen % 50 == 7 { vec![0u8; pwlen] } else { rng.bytes(pwlen) };
        let id = pwlen % 2 == 0;
        cx.key(&format!("pw {}", pwlen));
        cx.cover("pwlen_mod128", &format!("{}", pwlen % 128));
        case(cx, id, if id { 2 } else { 3 }, 8192 + (pwlen % 3) * 1024, 32, &pw, &salt0, "password_sweep", pwlen % 32 == 0);
    }
    // (B2) large pass counts at the smallest memory sizes (a pass counter narrower than 32 bits wraps at 2^8 / 2^16)
    {
        let ts: &[u64] = match cx.tier {
            Tier::Tiny => &[255, 257],
            Tier::Quick => &[7, 64, 255, 256, 257, 258, 300, 511, 512, 513, 1000],
            Tier::Thorough => &[7, 64, 127, 128, 129, 255, 256, 257, 258, 300, 511, 512, 513, 1000, 4095, 4096, 4097, 65_535, 65_536, 65_537, 70_000],
        };
        for &t in ts {
            for id in [false, true] {
                for m in [8usize, 13] {
                    idx += 1;
                    if !cx.mine(idx) {
                        continue;
                    }
                    let mut rng = cx.rng.fork(idx);
                    let pw = rng.bytes(9);
                    let salt = rng.bytes(16);
                    cx.key(&format!("large t {} {} {}", t, id, m));
                    cx.cover("large_pass_count", &format!("{}", t));
                    case(cx, id, t, m * 1024, 32, &pw, &salt, "large_pass_count", false);
                }
            }
        }
    }
    // (C) pass count x memory grid (memory given in bytes, including values that are not multiples of 1024 / 4 KiB)
    let mems: &[usize] = if cx.tier == Tier::Tiny { &MEMS_KIB[..6] } else { &MEMS_KIB };
    for &m in mems {
        for t in 1..=6u64 {
            for id in [false, true] {
                for (oi, outlen) in [32usize, 77].into_iter().enumerate() {
                    idx += 1;
                    if !cx.mine(idx) {
                        continue;
                    }
                    if cx.tier != Tier::Thorough && m > 1100 && (t > 2 || oi == 1) {
                        continue; // the multi-MiB sizes are visited with 1-2 passes in the quick tier
                    }
                    if m > 5000 && (cx.tier != Tier::Thorough || t > 2 || oi == 1) {
                        continue; // 16 MiB / 64 MiB: thorough tier only, 1-2 passes
                    }
                    let mut rng = cx.rng.fork(idx);
                    let pwlen = rng.range(0, 24);
                    let pw = rng.bytes(pwlen);
                    let salt: [u8; 16] = rng.arr();
                    let memlimit = m * 1024 + if oi == 1 { rng.range(0, 1023) } else { 0 };
                    cx.key(&format!("grid {} {} {} {}", m, t, id, oi));
                    case(cx, id, t, memlimit, outlen, &pw, &salt, "cost_grid", m <= 33 && t <= 3 && oi == 0);
                }
            }
        }
    }
    // (D) seeded random parameter sets
    let nrand = cx.tier.pick(4usize, 1200, 150_000);
    for i in 0..nrand {
        idx += 1;
        if !cx.mine(idx) {
            continue;
        }
        let mut rng = cx.rng.fork(idx);
        let id = rng.chance(1, 2);
        let t = rng.range(1, 6) as u64;
        let m = match rng.below(4) {
            0 => rng.range(8, 64),
            1 => rng.range(64, 600),
            2 => rng.range(513, 1400),
            _ => rng.range(8, 2100),
        };
        let outlen = if rng.chance(1, 3) { rng.range(16, 1100) } else { rng.range(16, 140) };
        let pwlen = rng.range(0, 300);
        let pw = rng.bytes(pwlen);
        let salt: [u8; 16] = rng.arr();
        cx.key_h(idx);
        case(cx, id, t, m * 1024 + rng.below(1024), outlen, &pw, &salt, "random", false);
        if i == 3 {
            cx.sample(json!({"family":"random","alg": if id {"argon2id"} else {"argon2i"},"t":t,"m_kib":m,"outlen":outlen,"pwlen":pwlen}));
        }
    }
    // (E) salts of 8..=64 bytes (classic API takes a slice; object API through hash_with_salt) against libsodium's core
    for saltlen in 8..=64usize {
        idx += 1;
        if !cx.mine(idx) {
            continue;
        }
        let mut rng = cx.rng.fork(idx);
        let salt = rng.bytes(saltlen);
        let pw = rng.bytes(saltlen % 20);
        let id = saltlen % 2 == 0;
        cx.key(&format!("salt {}", saltlen));
        cx.cover("salt_len", &format!("{}", saltlen));
        case(cx, id, 2, 9 * 1024, 32, &pw, &salt, "salt_length", true);
        // object API (Argon2id presets), arbitrary salt and hash length
        let hl = 16 + (saltlen * 7) % 113;
        let (cfg, cfg_desc) = build_config(&mut rng, 1, 8192 + saltlen * 1024, hl, if saltlen % 3 == 0 { None } else { Some(saltlen) });
        cx.cover("config_builder_order", &cfg_desc);
        let c = || json!({"op":"PwHash::hash_with_salt","saltlen":saltlen,"hash_length":hl,"pw":hx(&pw),"salt":hx(&salt),"config_built_as":cfg_desc});
        let want = na::argon2_raw(true, 1, (8 + saltlen) as u32, &pw, &salt, hl).unwrap();
        let r = call(cx, "C09|PwHash::hash_with_salt", "PwHash::hash_with_salt", c, || PwHash::<Vec<u8>, Vec<u8>>::hash_with_salt(&pw, salt.clone(), cfg.clone()));
        if let Some(r) = r {
            match r {
                Ok(ph) => {
                    let (h, s, _) = ph.clone().into_parts();
                    expect_eq(cx, "C09|PwHash::hash_with_salt|mismatch_vs_libsodium", &h, &want, c);
                    expect(cx, "C09|PwHash::hash_with_salt|salt_not_preserved", s == salt, c);
                    // verify: right password accepted, every other rejected
                    if let Some(v) = call(cx, "C09|PwHash::verify", "PwHash::verify", c, || ph.verify(&pw)) {
                        expect(cx, "C09|PwHash::verify|rejects_right_password", v.is_ok(), c);
                    }
                    // the same through the encoded string (hash / salt lengths other than the defaults must survive)
                    if let Some(Ok(p2)) = call(cx, "C09|PwHash::from_string", "PwHash::from_string", c, || PwHash::<Vec<u8>, Vec<u8>>::from_string(&ph.to_string())) {
                        if let Some(v) = call(cx, "C09|PwHash::verify", "PwHash::verify", c, || p2.verify(&pw)) {
                            expect(cx, "C09|PwHash::to_string+from_string+verify|rejects_right_password", v.is_ok(), c);
                        }
                    } else {
                        cx.violation("C09|PwHash::from_string|rejects_own_string", c());
                    }
                    for k in 0..3 {
                        let mut bad = pw.clone();
                        match k {
                            0 => bad.push(0),
                            1 => {
                                if bad.is_empty() {
                                    bad.push(1)
                                } else {
                                    let j = rng.below(bad.len());
                                    bad[j] ^= 1 << rng.below(8);
                                }
                            }
                            _ => {
                                if bad.is_empty() {
                                    bad.push(b'x')
                                } else {
                                    bad.pop();
                                }
                            }
                        }
                        if let Some(v) = call(cx, "C09|PwHash::verify", "PwHash::verify", c, || ph.verify(&bad)) {
                            expect(cx, "C09|PwHash::verify|accepts_wrong_password", v.is_err(), || json!({"bad":hx(&bad),"case":c()}));
                        }
                    }
                }
                Err(e) => cx.violation("C09|PwHash::hash_with_salt|rejects_valid_parameters", json!({"err":e.to_string(),"case":c()})),
            }
        }
    }
    // (F) out-of-range parameters are rejected with an error (libsodium rejects each of them too)
    if cx.mine(0) {
        let pw = b"pw";
        let mut rej = |cx: &mut Ctx, what: &str, outlen: usize, salt: &[u8], ops: u64, mem: usize| {
            let mut out = stale(outlen);
            let c = || json!({"rejected_parameter":what,"outlen":outlen,"saltlen":salt.len(),"opslimit":ops,"memlimit":mem});
            if let Some(r) = call(cx, "C09|crypto_pwhash", "crypto_pwhash", c, || crypto_pwhash(&mut out, pw, salt, ops, mem, PasswordHashAlgorithm::Argon2id13)) {
                expect(cx, &format!("C09|crypto_pwhash|accepts_out_of_range|{}", what.split('=').next().unwrap()), r.is_err(), c);
            }
            cx.cover("rejected_parameter", what.split('=').next().unwrap());
        };
        for outlen in 0..=15usize {
            rej(cx, &format!("outlen={}", outlen), outlen, &salt0, 1, 8192);
        }
        for sl in 0..=7usize {
            rej(cx, &format!("saltlen={}", sl), 32, &salt0[..sl], 1, 8192);
        }
        rej(cx, "opslimit=0", 32, &salt0, 0, 8192);
        rej(cx, "opslimit=max+1", 32, &salt0, CRYPTO_PWHASH_OPSLIMIT_MAX + 1, 8192);
        // values whose low 32 bits would be an acceptable cost, cheapest first: on a tree that wrongly accepts
        // them the crate really runs the truncated number of passes, so once one acceptance has been recorded
        // (the verdict is already a violation) the dearer probes of the family are skipped and said so
        let before = cx.n_violations();
        for k in [1u64, 2, 3] {
            rej(cx, &format!("opslimit=2^32+{}", k), 32, &salt0, (1u64 << 32) + k, 8192);
            rej(cx, &format!("opslimit=2^33+{}", k), 32, &salt0, (1u64 << 33) + k, 8192);
        }
        if cx.n_violations() == before {
            rej(cx, "opslimit=u64max", 32, &salt0, u64::MAX, 8192);
        } else {
            cx.note("opslimit_u64max_probe", json!("skipped: a cheaper out-of-range opslimit was already accepted"));
        }
        for extra in [8192usize, 9216, 65536] {
            rej(cx, &format!("memlimit=2^42+{}", extra), 32, &salt0, 1, (1usize << 42) + extra);
            rej(cx, &format!("memlimit=2^52+{}", extra), 32, &salt0, 1, (1usize << 52) + extra);
        }
        rej(cx, "memlimit=usizemax", 32, &salt0, 1, usize::MAX);
        for mem in [0usize, 1, 1024, 8191] {
            rej(cx, &format!("memlimit={}", mem), 32, &salt0, 1, mem);
        }
        rej(cx, "memlimit=max+1", 32, &salt0, 1, CRYPTO_PWHASH_MEMLIMIT_MAX + 1);
        // object API: salts shorter than 8 bytes
        for sl in 0..=7usize {
            let cfg = Config::interactive().with_opslimit(1).with_memlimit(8192).with_salt_length(sl);
            let c = || json!({"op":"PwHash::hash_with_salt","saltlen":sl});
            if let Some(r) = call(cx, "C09|PwHash::hash_with_salt", "PwHash::hash_with_salt", c, || PwHash::<Vec<u8>, Vec<u8>>::hash_with_salt(&pw.to_vec(), vec![7u8; sl], cfg.clone())) {
                expect(cx, "C09|PwHash::hash_with_salt|accepts_short_salt", r.is_err(), c);
            }
        }
    }
    if cx.shard == 0 {
        cx.sample(json!({"family":"cost_grid","mem_kib":MEMS_KIB,"t":"1..=6","alg":["argon2i","argon2id"],"outlen":[32,77]}));
    }
}
