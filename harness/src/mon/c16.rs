//! C16 — byte and serde encodings round-trip and enforce fixed lengths.

use dryoc::dryocbox::DryocBox;
use dryoc::dryocsecretbox::DryocSecretBox;
use dryoc::kdf::Kdf;
use dryoc::keypair::KeyPair;
use dryoc::kx::Session;
use dryoc::pwhash::{Config, PwHash};
use dryoc::sign::{SignedMessage, SigningKeyPair};
use dryoc::types::*;
use serde::de::value::{BytesDeserializer, Error as ValueError, SeqDeserializer};
use serde::de::DeserializeOwned;
use serde::Serialize;
use serde_json::json;

use super::*;
use crate::ctx::{guard, hx, Ctx};
#[cfg(feature = "sodium")]
use crate::sodium as na;

fn rt_json<T: Serialize + DeserializeOwned>(x: &T) -> Result<T, String> {
    let s = serde_json::to_string(x).map_err(|e| format!("serialize: {}", e))?;
    serde_json::from_str(&s).map_err(|e| format!("deserialize: {}", e))
}
fn rt_bincode<T: Serialize + DeserializeOwned>(x: &T) -> Result<T, String> {
    let s = bincode::serialize(x).map_err(|e| format!("serialize: {}", e))?;
    bincode::deserialize(&s).map_err(|e| format!("deserialize: {}", e))
}
/// the same formats read from an `io::Read` source: the deserializer then cannot lend the input and hands the
/// visitor transient (non-borrowed) bytes
fn rt_json_reader<T: Serialize + DeserializeOwned>(x: &T) -> Result<T, String> {
    let s = serde_json::to_vec(x).map_err(|e| format!("serialize: {}", e))?;
    serde_json::from_reader(std::io::Cursor::new(s)).map_err(|e| format!("deserialize: {}", e))
}
fn rt_bincode_reader<T: Serialize + DeserializeOwned>(x: &T) -> Result<T, String> {
    let s = bincode::serialize(x).map_err(|e| format!("serialize: {}", e))?;
    bincode::deserialize_from(std::io::Cursor::new(s)).map_err(|e| format!("deserialize: {}", e))
}

/// round-trips `x` through both formats; `same` decides equality (and "still works")
fn cloned<T: Clone>(cx: &mut Ctx, ty: &str, x: &T, same: &dyn Fn(&T, &T) -> bool, detail: &dyn Fn() -> serde_json::Value) {
    // a clone is the cheapest "encoding": it must reproduce an equal object that still works, like every other round trip
    {
        cx.eval();
        match guard(&format!("clone {}", ty), || x.clone()) {
            Ok(y) => {
                if !same(x, &y) || !same(&y, x) {
                    cx.violation(&format!("C16|{}|clone_not_equal", ty), detail());
                }
            }
            Err(p) => cx.violation(&format!("C16|{}|clone_panics", ty), json!({"panic":p.msg,"detail":detail()})),
        }
        cx.cover("serde_roundtrip", &format!("{}|clone", ty));
    }
}

fn both<T: Serialize + DeserializeOwned>(cx: &mut Ctx, ty: &str, x: &T, same: &dyn Fn(&T, &T) -> bool, detail: &dyn Fn() -> serde_json::Value) {
    for (fmt, f) in [("json", rt_json::<T> as fn(&T) -> Result<T, String>), ("bincode", rt_bincode::<T> as fn(&T) -> Result<T, String>),
                     ("json_reader", rt_json_reader::<T> as fn(&T) -> Result<T, String>), ("bincode_reader", rt_bincode_reader::<T> as fn(&T) -> Result<T, String>)] {
        cx.eval();
        let r = guard(&format!("serde {} {}", fmt, ty), || f(x));
        match r {
            Ok(Ok(y)) => {
                if !same(x, &y) {
                    cx.violation(&format!("C16|{}|serde_{}_roundtrip_not_equal", ty, fmt), detail());
                }
            }
            Ok(Err(e)) => cx.violation(&format!("C16|{}|serde_{}_roundtrip_fails", ty, fmt), json!({"err":e,"detail":detail()})),
            Err(p) => cx.violation(&format!("C16|{}|serde_{}_roundtrip_panics", ty, fmt), json!({"panic":p.msg,"detail":detail()})),
        }
        cx.cover("serde_roundtrip", &format!("{}|{}", ty, fmt));
    }
}

/// decoding a fixed-length array type from `count` bytes: every path must fail unless count == N
/// Vec containers that are *shorter* than the fixed length the API needs (a tag of 15 bytes, a key of 31, a signature
/// of 63), obtained by truncating a correct one so that the old bytes still sit in the Vec's spare capacity: the call
/// must refuse (an error or a panic), never go on with bytes from beyond the container's length
fn short_vec_containers(cx: &mut Ctx, idx: &mut u64) {
    use dryoc::sign::{SignedMessage, SigningKeyPair};
    *idx += 1;
    if !cx.mine(*idx) {
        return;
    }
    let mut rng = cx.rng.fork(*idx);
    let key: [u8; 32] = rng.arr();
    let nonce: [u8; 24] = rng.arr();
    let msg = rng.bytes(40);
    let b: DryocSecretBox<Vec<u8>, Vec<u8>> = DryocSecretBox::encrypt(&msg, &nonce.to_vec(), &key.to_vec());
    let (tag, data) = b.into_parts();
    let cut = |v: &Vec<u8>, n: usize| {
        let mut c = Vec::with_capacity(v.len());
        c.extend_from_slice(v);
        c.truncate(n);
        c
    };
    let mut judge = |cx: &mut Ctx, what: &str, len: usize, r: Result<bool, crate::ctx::Panicked>| {
        cx.eval();
        if let Ok(true) = r {
            cx.violation(&format!("C16|short_container_accepted|{}", what), json!({"container":"Vec<u8> truncated, old bytes in spare capacity","len":len}));
        }
        cx.cover("short_vec_container", what);
    };
    for n in [15usize, 8, 1, 0] {
        let t = cut(&tag, n);
        let bx: DryocSecretBox<Vec<u8>, Vec<u8>> = DryocSecretBox::from_parts(t, data.clone());
        let r = guard("short tag", || bx.decrypt::<Vec<u8>, Vec<u8>, Vec<u8>>(&nonce.to_vec(), &key.to_vec()).is_ok());
        judge(cx, "secretbox_tag", n, r);
    }
    let bx: DryocSecretBox<Vec<u8>, Vec<u8>> = DryocSecretBox::from_parts(tag.clone(), data.clone());
    for n in [31usize, 16, 0] {
        let k = cut(&key.to_vec(), n);
        let r = guard("short key", || bx.decrypt::<Vec<u8>, Vec<u8>, Vec<u8>>(&nonce.to_vec(), &k).is_ok());
        judge(cx, "secretbox_key", n, r);
    }
    for n in [23usize, 12, 0] {
        let nn = cut(&nonce.to_vec(), n);
        let r = guard("short nonce", || bx.decrypt::<Vec<u8>, Vec<u8>, Vec<u8>>(&nn, &key.to_vec()).is_ok());
        judge(cx, "secretbox_nonce", n, r);
    }
    let kp: SigningKeyPair<Vec<u8>, Vec<u8>> = {
        let k: SigningKeyPair<StackByteArray<32>, StackByteArray<64>> = SigningKeyPair::from_seed(&rng.arr::<32>());
        SigningKeyPair { public_key: k.public_key.to_vec(), secret_key: k.secret_key.to_vec() }
    };
    if let Ok(sm) = kp.sign::<Vec<u8>, Vec<u8>>(msg.clone()) {
        let (sig, m) = sm.into_parts();
        for n in [63usize, 32, 0] {
            let s2: SignedMessage<Vec<u8>, Vec<u8>> = SignedMessage::from_parts(cut(&sig, n), m.clone());
            let r = guard("short signature", || s2.verify(&kp.public_key).is_ok());
            judge(cx, "signature", n, r);
        }
        let s3: SignedMessage<Vec<u8>, Vec<u8>> = SignedMessage::from_parts(sig.clone(), m.clone());
        for n in [31usize, 0] {
            let pk = cut(&kp.public_key, n);
            let r = guard("short public key", || s3.verify(&pk).is_ok());
            judge(cx, "signing_public_key", n, r);
        }
    }
}

fn wrong_length<T: DeserializeOwned + Bytes>(cx: &mut Ctx, ty: &str, n: usize, try_from: Option<&dyn Fn(&[u8]) -> bool>) {
    for count in 0..=2 * n {
        let data: Vec<u8> = (0..count).map(|i| (i as u8).wrapping_mul(3).wrapping_add(1)).collect();
        let want_ok = count == n;
        let mut judge = |cx: &mut Ctx, path: &str, r: Result<Result<T, String>, crate::ctx::Panicked>| {
            cx.eval();
            let case = || json!({"type":ty,"path":path,"elements":count,"fixed_length":n});
            match r {
                Err(p) => cx.violation(&format!("C16|{}|decode_panics|{}", ty, path), json!({"panic":p.msg,"case":case()})),
                Ok(Ok(v)) => {
                    if !want_ok {
                        let how = if count < n { "pads_short_input" } else { "truncates_long_input" };
                        cx.violation(&format!("C16|{}|wrong_length_accepted|{}|{}", ty, path, how), json!({"decoded":hx(v.as_slice()),"case":case()}));
                    } else if v.as_slice() != &data[..] {
                        cx.violation(&format!("C16|{}|decoded_bytes_differ|{}", ty, path), case());
                    }
                }
                Ok(Err(e)) => {
                    if want_ok {
                        cx.violation(&format!("C16|{}|correct_length_rejected|{}", ty, path), json!({"err":e,"case":case()}));
                    }
                }
            }
            cx.cover("wrong_length_path", &format!("{}|{}", ty, path));
        };
        // (1) JSON array of numbers: the element-sequence path
        let js = serde_json::to_string(&data).unwrap();
        let r = guard("json seq", || serde_json::from_str::<T>(&js).map_err(|e| e.to_string()));
        judge(cx, "json_array(visit_seq)", r);
        // (1b) exactly N valid elements followed by one element that is not a byte: not N elements, must be refused
        if count == n {
            for extra in ["256", "-1", "1.5", "\"x\"", "null", "true", "[1]", "{}"] {
                let js2 = format!("{},{}]", &js[..js.len() - 1], extra);
                let js2 = if n == 0 { format!("[{}]", extra) } else { js2 };
                cx.eval();
                let r = guard("json seq + invalid element", || serde_json::from_str::<T>(&js2).map_err(|e| e.to_string()));
                match r {
                    Ok(Ok(v)) => cx.violation(&format!("C16|{}|wrong_length_accepted|json_array(visit_seq)|trailing_non_byte_element_ignored", ty), json!({"extra_element":extra,"decoded":hx(v.as_slice()),"fixed_length":n})),
                    Ok(Err(_)) => {}
                    Err(p) => cx.violation(&format!("C16|{}|decode_panics|json_array(visit_seq)", ty), json!({"panic":p.msg,"extra_element":extra})),
                }
                let val2 = guard("json value + invalid element", || serde_json::from_str::<serde_json::Value>(&js2).map_err(|e| e.to_string()).and_then(|v| serde_json::from_value::<T>(v).map_err(|e| e.to_string())));
                if let Ok(Ok(v)) = val2 {
                    cx.violation(&format!("C16|{}|wrong_length_accepted|json_value(visit_seq)|trailing_non_byte_element_ignored", ty), json!({"extra_element":extra,"decoded":hx(v.as_slice()),"fixed_length":n}));
                }
            }
            cx.cover("wrong_length_path", &format!("{}|json_array+invalid_trailing_element", ty));
        }
        // (2) bincode byte string: the byte-string path
        let bs = bincode::serialize(&serde_bytes_like(&data)).unwrap();
        let r = guard("bincode bytes", || bincode::deserialize::<T>(&bs).map_err(|e| e.to_string()));
        judge(cx, "bincode_bytes(visit_bytes)", r);
        // (3) serde's own value deserializers, as a self-describing format would drive the visitor
        let r = guard("SeqDeserializer", || {
            // SeqDeserializer drives visit_seq and then checks that every element was consumed (end())
            let d = SeqDeserializer::<_, ValueError>::new(data.clone().into_iter());
            T::deserialize(d).map_err(|e| e.to_string())
        });
        judge(cx, "SeqDeserializer+end", r);
        let r = guard("BytesDeserializer", || T::deserialize(BytesDeserializer::<ValueError>::new(&data)).map_err(|e| e.to_string()));
        judge(cx, "BytesDeserializer", r);
        // (4) TryFrom<&[u8]>
        if let Some(tf) = try_from {
            cx.eval();
            let ok = tf(&data);
            if ok != want_ok {
                cx.violation(&format!("C16|{}|try_from_slice_wrong_decision", ty), json!({"elements":count,"fixed_length":n,"accepted":ok}));
            }
        }
    }
}

/// bincode encodes &[u8] through serialize_bytes only for types that ask for it; a Vec<u8> is a seq of u8 with the
/// same wire layout (u64 length + bytes), which is what `deserialize_bytes` reads
fn serde_bytes_like(d: &[u8]) -> Vec<u8> {
    d.to_vec()
}

pub fn run(cx: &mut Ctx) {
    let maxlen = cx.tier.pick(24usize, 130, 2500);
    let mut idx = 0u64;
    #[cfg(feature = "nightly")]
    let only_ni = cx.opt("nightly_forms_only").is_some();
    #[cfg(not(feature = "nightly"))]
    let only_ni = false;

    if !only_ni {
        for _rep in 0..cx.tier.pick(1usize, 16, 64) {
            short_vec_containers(cx, &mut idx);
        }
        for len in 0..=maxlen {
            idx += 1;
            if !cx.mine(idx) {
                continue;
            }
            let mut rng = cx.rng.fork(idx);
            let msg = rng.bytes(len);
            let key: [u8; 32] = rng.arr();
            let nonce: [u8; 24] = rng.arr();
            let (apk, ask) = dryoc::classic::crypto_box::crypto_box_seed_keypair(&rng.bytes(32));
            let (bpk, bsk) = dryoc::classic::crypto_box::crypto_box_seed_keypair(&rng.bytes(32));
            cx.key(&format!("objects len={}", len));
            cx.cover("payload_len_mod16", &format!("{}", len % 16));
            let d = || json!({"payload_len":len});

            // ---- DryocSecretBox <Stack,Vec> and <Vec,Vec>
            {
                let b: DryocSecretBox<StackByteArray<16>, Vec<u8>> = DryocSecretBox::encrypt(&msg, &nonce, &key);
                let wire: Vec<u8> = b.to_bytes();
                #[cfg(feature = "sodium")]
                expect_eq(cx, "C16|DryocSecretBox|to_bytes_differs_from_libsodium_layout", &wire, &na::secretbox_easy(&msg, &nonce, &key), d);
                match DryocSecretBox::<StackByteArray<16>, Vec<u8>>::from_bytes(&wire) {
                    Ok(b2) => {
                        expect(cx, "C16|DryocSecretBox|from_bytes(to_bytes)_not_equal", b2 == b && b2.decrypt_to_vec(&nonce, &key).ok().as_deref() == Some(&msg[..]), d);
                    }
                    Err(e) => cx.violation("C16|DryocSecretBox|from_bytes(to_bytes)_fails", json!({"err":e.to_string(),"payload_len":len})),
                }
                let (tag, data) = b.clone().into_parts();
                expect(cx, "C16|DryocSecretBox|from_parts(into_parts)_not_equal", DryocSecretBox::from_parts(tag, data) == b, d);
                both(cx, "DryocSecretBox<Stack,Vec>", &b, &|x, y| x == y && y.decrypt_to_vec(&nonce, &key).ok().as_deref() == Some(&msg[..]), &d);
                cloned(cx, "DryocSecretBox<Stack,Vec>", &b, &|x, y| x == y && y.decrypt_to_vec(&nonce, &key).ok().as_deref() == Some(&msg[..]), &d);
                let bv: DryocSecretBox<Vec<u8>, Vec<u8>> = DryocSecretBox::encrypt(&msg, &nonce, &key);
                both(cx, "DryocSecretBox<Vec,Vec>", &bv, &|x, y| x == y && y.decrypt::<Vec<u8>, _, _>(&nonce, &key).ok().as_deref() == Some(&msg[..]), &d);
                cloned(cx, "DryocSecretBox<Vec,Vec>", &bv, &|x, y| x == y && y.decrypt::<Vec<u8>, _, _>(&nonce, &key).ok().as_deref() == Some(&msg[..]), &d);
                expect_eq(cx, "C16|DryocSecretBox|into_vec_differs_from_to_bytes", &dryoc::dryocsecretbox::VecBox::encrypt_to_vecbox(&msg, &nonce, &key).into_vec(), &wire, d);
                // every generic parameter a Vec<u8>: from_bytes(to_vec()) reproduces the object for boxes and signed messages
                {
                    let bv: DryocSecretBox<Vec<u8>, Vec<u8>> = DryocSecretBox::encrypt(&msg, &nonce.to_vec(), &key.to_vec());
                    match guard("from_bytes all-Vec", || DryocSecretBox::<Vec<u8>, Vec<u8>>::from_bytes(&bv.to_vec())) {
                        Ok(Ok(b2)) => { expect(cx, "C16|DryocSecretBox<Vec,Vec>|from_bytes(to_bytes)_not_equal", b2 == bv && b2.decrypt::<Vec<u8>, Vec<u8>, Vec<u8>>(&nonce.to_vec(), &key.to_vec()).ok().as_deref() == Some(&msg[..]), d); }
                        Ok(Err(e)) => cx.violation("C16|DryocSecretBox<Vec,Vec>|from_bytes(to_bytes)_fails", json!({"err":e.to_string(),"payload_len":len})),
                        Err(p) => cx.violation("C16|DryocSecretBox<Vec,Vec>|from_bytes_panics", json!({"panic":p.msg,"payload_len":len})),
                    }
                    let bx: DryocBox<Vec<u8>, Vec<u8>, Vec<u8>> = DryocBox::encrypt(&msg, &nonce.to_vec(), &bpk.to_vec(), &ask.to_vec()).unwrap();
                    match guard("from_bytes all-Vec", || DryocBox::<Vec<u8>, Vec<u8>, Vec<u8>>::from_bytes(&bx.to_vec())) {
                        Ok(Ok(b2)) => { expect(cx, "C16|DryocBox<Vec,Vec,Vec>|from_bytes(to_bytes)_not_equal", b2 == bx && b2.decrypt::<Vec<u8>, Vec<u8>, Vec<u8>, Vec<u8>>(&nonce.to_vec(), &apk.to_vec(), &bsk.to_vec()).ok().as_deref() == Some(&msg[..]), d); }
                        Ok(Err(e)) => cx.violation("C16|DryocBox<Vec,Vec,Vec>|from_bytes(to_bytes)_fails", json!({"err":e.to_string(),"payload_len":len})),
                        Err(p) => cx.violation("C16|DryocBox<Vec,Vec,Vec>|from_bytes_panics", json!({"panic":p.msg,"payload_len":len})),
                    }
                    let sx: DryocBox<Vec<u8>, Vec<u8>, Vec<u8>> = DryocBox::seal(&msg, &bpk.to_vec()).unwrap();
                    match guard("from_sealed_bytes all-Vec", || DryocBox::<Vec<u8>, Vec<u8>, Vec<u8>>::from_sealed_bytes(&sx.to_vec())) {
                        Ok(Ok(b2)) => { expect(cx, "C16|DryocBox<Vec,Vec,Vec>(sealed)|from_sealed_bytes(to_bytes)_not_equal", b2 == sx, d); }
                        Ok(Err(e)) => cx.violation("C16|DryocBox<Vec,Vec,Vec>(sealed)|from_sealed_bytes(to_bytes)_fails", json!({"err":e.to_string(),"payload_len":len})),
                        Err(p) => cx.violation("C16|DryocBox<Vec,Vec,Vec>(sealed)|from_sealed_bytes_panics", json!({"panic":p.msg,"payload_len":len})),
                    }
                    cx.cover("all_vec_from_bytes", "secretbox,box,sealed");
                }
                // the same box with spare capacity behind its payload (a Vec's capacity is hidden state: boxes built from
                // parts or filled element by element by a deserialiser have it, freshly encrypted ones do not)
                for spare in [1usize, 15, 16, 17, 64] {
                    let (tag, data) = b.clone().into_parts();
                    let mut roomy = Vec::with_capacity(data.len() + spare);
                    roomy.extend_from_slice(&data);
                    let rb: dryoc::dryocsecretbox::VecBox = DryocSecretBox::from_parts(tag, roomy);
                    let d2 = || json!({"payload_len":len,"spare_capacity":spare});
                    expect_eq(cx, "C16|DryocSecretBox|to_vec_differs_from_wire_layout|spare_capacity", &rb.to_vec(), &wire, d2);
                    expect_eq(cx, "C16|DryocSecretBox|to_bytes_differs_from_wire_layout|spare_capacity", &rb.to_bytes::<Vec<u8>>(), &wire, d2);
                    if let Some(v) = call(cx, "C16|DryocSecretBox::into_vec", "DryocSecretBox::into_vec", d2, || rb.into_vec()) {
                        expect_eq(cx, "C16|DryocSecretBox|into_vec_differs_from_wire_layout|spare_capacity", &v, &wire, d2);
                    }
                    cx.cover("spare_capacity", &format!("secretbox+{}", spare));
                }
                if let Ok(js) = serde_json::to_string(&b) {
                    if let Ok(jb) = serde_json::from_str::<dryoc::dryocsecretbox::VecBox>(&js) {
                        if let Some(v) = call(cx, "C16|DryocSecretBox::into_vec", "DryocSecretBox::into_vec", d, || jb.into_vec()) {
                            expect_eq(cx, "C16|DryocSecretBox|into_vec_differs_from_wire_layout|after_json_round_trip", &v, &wire, d);
                        }
                    }
                }
            }
            // ---- DryocBox plain + sealed
            {
                let b = dryoc::dryocbox::VecBox::encrypt_to_vecbox(&msg, &StackByteArray::from(nonce), &StackByteArray::from(bpk), &StackByteArray::from(ask)).unwrap();
                let wire = b.to_vec();
                #[cfg(feature = "sodium")]
                expect_eq(cx, "C16|DryocBox|to_bytes_differs_from_libsodium_layout", &wire, &na::box_easy(&msg, &nonce, &bpk, &ask).unwrap(), d);
                let open = |x: &dryoc::dryocbox::VecBox| x.decrypt_to_vec(&StackByteArray::from(nonce), &StackByteArray::from(apk), &StackByteArray::from(bsk)).ok();
                match dryoc::dryocbox::VecBox::from_bytes(&wire) {
                    Ok(b2) => {
                        expect(cx, "C16|DryocBox|from_bytes(to_bytes)_not_equal", b2 == b && open(&b2).as_deref() == Some(&msg[..]), d);
                    }
                    Err(e) => cx.violation("C16|DryocBox|from_bytes(to_bytes)_fails", json!({"err":e.to_string(),"payload_len":len})),
                }
                let (tag, data, epk) = b.clone().into_parts();
                expect(cx, "C16|DryocBox|from_parts(into_parts)_not_equal", DryocBox::from_parts(tag, data, epk) == b, d);
                both(cx, "DryocBox<Stack,Stack,Vec>", &b, &|x, y| x == y && open(y).as_deref() == Some(&msg[..]), &d);
                cloned(cx, "DryocBox<Stack,Stack,Vec>", &b, &|x, y| x == y && open(y).as_deref() == Some(&msg[..]), &d);
                for spare in [1usize, 16, 33] {
                    let (tag, data, epk) = b.clone().into_parts();
                    let mut roomy = Vec::with_capacity(data.len() + spare);
                    roomy.extend_from_slice(&data);
                    let rb: dryoc::dryocbox::VecBox = DryocBox::from_parts(tag, roomy, epk);
                    let d2 = || json!({"payload_len":len,"spare_capacity":spare});
                    expect_eq(cx, "C16|DryocBox|to_vec_differs_from_wire_layout|spare_capacity", &rb.to_vec(), &wire, d2);
                    expect_eq(cx, "C16|DryocBox|to_bytes_differs_from_wire_layout|spare_capacity", &rb.to_bytes::<Vec<u8>>(), &wire, d2);
                    cx.cover("spare_capacity", &format!("box+{}", spare));
                }

                let s = dryoc::dryocbox::VecBox::seal_to_vecbox(&msg, &StackByteArray::from(bpk)).unwrap();
                let swire = s.to_vec();
                let kp: KeyPair<StackByteArray<32>, StackByteArray<32>> = KeyPair::from_slices(&bpk, &bsk).unwrap();
                #[cfg(feature = "sodium")]
                expect(cx, "C16|DryocBox(sealed)|to_bytes_not_openable_by_libsodium", na::box_seal_open(&swire, &bpk, &bsk).as_deref() == Some(&msg[..]), d);
                match dryoc::dryocbox::VecBox::from_sealed_bytes(&swire) {
                    Ok(s2) => {
                        expect(cx, "C16|DryocBox(sealed)|from_sealed_bytes(to_bytes)_not_equal", s2 == s && s2.unseal_to_vec(&kp).ok().as_deref() == Some(&msg[..]), d);
                    }
                    Err(e) => cx.violation("C16|DryocBox(sealed)|from_sealed_bytes(to_bytes)_fails", json!({"err":e.to_string(),"payload_len":len})),
                }
                both(cx, "DryocBox(sealed)<Stack,Stack,Vec>", &s, &|x, y| x == y && y.unseal_to_vec(&kp).ok().as_deref() == Some(&msg[..]), &d);
                cloned(cx, "DryocBox(sealed)<Stack,Stack,Vec>", &s, &|x, y| x == y && y.unseal_to_vec(&kp).ok().as_deref() == Some(&msg[..]), &d);
                let (tag, data, epk) = s.clone().into_parts();
                expect(cx, "C16|DryocBox(sealed)|from_parts(into_parts)_not_equal", DryocBox::from_parts(tag, data, epk) == s, d);
                // equality is an equivalence that tells different objects apart: reflexive, symmetric, and false for the plain
                // twin of a sealed box (same tag and payload, no ephemeral key) and for one changed byte anywhere
                {
                    let (tag, data, epk) = s.clone().into_parts();
                    let twin: dryoc::dryocbox::VecBox = DryocBox::from_parts(tag.clone(), data.clone(), None);
                    expect(cx, "C16|DryocBox|eq_not_reflexive(sealed)", s == s.clone(), d);
                    expect(cx, "C16|DryocBox|sealed_box_equals_its_plain_twin", !(s == twin) && !(twin == s), d);
                    let mut d2 = data.clone();
                    if !d2.is_empty() {
                        d2[0] ^= 1;
                        let other: dryoc::dryocbox::VecBox = DryocBox::from_parts(tag.clone(), d2, epk.clone());
                        expect(cx, "C16|DryocBox|boxes_with_different_payload_compare_equal", !(s == other) && !(other == s), d);
                    }
                    if let Some(e) = &epk {
                        let mut e2 = e.clone();
                        e2.as_mut_slice()[31] ^= 0x40;
                        let other: dryoc::dryocbox::VecBox = DryocBox::from_parts(tag.clone(), data.clone(), Some(e2));
                        expect(cx, "C16|DryocBox|boxes_with_different_ephemeral_key_compare_equal", !(s == other) && !(other == s), d);
                    }
                    let mut t2 = tag.clone();
                    t2.as_mut_slice()[0] ^= 1;
                    let other: dryoc::dryocbox::VecBox = DryocBox::from_parts(t2, data.clone(), epk.clone());
                    expect(cx, "C16|DryocBox|boxes_with_different_tag_compare_equal", !(s == other) && !(other == s), d);
                    cx.cover("negative_equality", "DryocBox");
                }
            }
            // ---- SignedMessage
            {
                let skp: SigningKeyPair<StackByteArray<32>, StackByteArray<64>> = SigningKeyPair::from_seed(&rng.arr::<32>());
                let sm = skp.sign_with_defaults(msg.clone()).unwrap();
                let wire = sm.to_vec();
                #[cfg(feature = "sodium")]
                {
                    let sk: [u8; 64] = skp.secret_key.as_slice().try_into().unwrap();
                    expect_eq(cx, "C16|SignedMessage|to_bytes_differs_from_libsodium_layout", &wire, &na::sign(&msg, &sk), d);
                }
                match SignedMessage::<StackByteArray<64>, Vec<u8>>::from_bytes(&wire) {
                    Ok(s2) => {
                        expect(cx, "C16|SignedMessage|from_bytes(to_bytes)_not_equal", s2 == sm && s2.verify(&skp.public_key).is_ok(), d);
                    }
                    Err(e) => cx.violation("C16|SignedMessage|from_bytes(to_bytes)_fails", json!({"err":e.to_string(),"payload_len":len})),
                }
                let (sig, m) = sm.clone().into_parts();
                expect(cx, "C16|SignedMessage|from_parts(into_parts)_not_equal", SignedMessage::from_parts(sig, m) == sm, d);
                both(cx, "SignedMessage<Stack,Vec>", &sm, &|x, y| x == y && y.verify(&skp.public_key).is_ok(), &d);
                cloned(cx, "SignedMessage<Stack,Vec>", &sm, &|x, y| x == y && y.verify(&skp.public_key).is_ok(), &d);
                both(cx, "SigningKeyPair<Stack,Stack>", &skp, &|x, y| x == y, &d);
                cloned(cx, "SigningKeyPair<Stack,Stack>", &skp, &|x, y| x == y, &d);
                let skv: SigningKeyPair<Vec<u8>, Vec<u8>> = SigningKeyPair { public_key: skp.public_key.to_vec(), secret_key: skp.secret_key.to_vec() };
                both(cx, "SigningKeyPair<Vec,Vec>", &skv, &|x, y| x == y, &d);
                cloned(cx, "SigningKeyPair<Vec,Vec>", &skv, &|x, y| x == y, &d);
            }
            // ---- KeyPair, Session, Kdf, PwHash
            if len % 8 == 0 {
                let kp: KeyPair<StackByteArray<32>, StackByteArray<32>> = KeyPair::from_slices(&apk, &ask).unwrap();
                both(cx, "KeyPair<Stack,Stack>", &kp, &|x, y| x == y, &d);
                cloned(cx, "KeyPair<Stack,Stack>", &kp, &|x, y| x == y, &d);
                let kpv: KeyPair<Vec<u8>, Vec<u8>> = KeyPair { public_key: apk.to_vec(), secret_key: ask.to_vec() };
                both(cx, "KeyPair<Vec,Vec>", &kpv, &|x, y| x == y, &d);
                cloned(cx, "KeyPair<Vec,Vec>", &kpv, &|x, y| x == y, &d);
                expect(cx, "C16|KeyPair|from_slices_roundtrip", KeyPair::<StackByteArray<32>, StackByteArray<32>>::from_slices(kp.public_key.as_slice(), kp.secret_key.as_slice()).map(|k| k == kp).unwrap_or(false), d);
                let bkp: KeyPair<StackByteArray<32>, StackByteArray<32>> = KeyPair::from_slices(&bpk, &bsk).unwrap();
                let sess: Session<StackByteArray<32>> = Session::new_client(&kp, &bkp.public_key).unwrap();
                both(cx, "Session<Stack>", &sess, &|x, y| x.rx_as_slice() == y.rx_as_slice() && x.tx_as_slice() == y.tx_as_slice(), &d);
                cloned(cx, "Session<Stack>", &sess, &|x, y| x.rx_as_slice() == y.rx_as_slice() && x.tx_as_slice() == y.tx_as_slice(), &d);
                let sessv: Session<Vec<u8>> = Session::new_server(&bkp, &kp.public_key).unwrap();
                both(cx, "Session<Vec>", &sessv, &|x, y| x.rx_as_slice() == y.rx_as_slice() && x.tx_as_slice() == y.tx_as_slice() && y.rx_as_slice() == sess.tx_as_slice(), &d);
                cloned(cx, "Session<Vec>", &sessv, &|x, y| x.rx_as_slice() == y.rx_as_slice() && x.tx_as_slice() == y.tx_as_slice() && y.rx_as_slice() == sess.tx_as_slice(), &d);
                let kdf: Kdf<StackByteArray<32>, StackByteArray<8>> = Kdf::from_parts(StackByteArray::from(key), StackByteArray::from(rng.arr::<8>()));
                both(cx, "Kdf<Stack,Stack>", &kdf, &|x, y| x.derive_subkey_to_vec(7).ok() == y.derive_subkey_to_vec(7).ok() && x.clone().into_parts() == y.clone().into_parts(), &d);
                cloned(cx, "Kdf<Stack,Stack>", &kdf, &|x, y| x.derive_subkey_to_vec(7).ok() == y.derive_subkey_to_vec(7).ok() && x.clone().into_parts() == y.clone().into_parts(), &d);
                let (k2, c2) = kdf.clone().into_parts();
                expect(cx, "C16|Kdf|from_parts(into_parts)_not_equal", Kdf::from_parts(k2, c2).derive_subkey_to_vec(1).ok() == kdf.derive_subkey_to_vec(1).ok(), d);
                // memory limits that are not a whole number of KiB as well (the string carries KiB)
                let memlimit = [8192usize, 8193, 9000, 10_000, 16_383, 65_535][len % 6];
                let cfg = Config::interactive().with_opslimit(1 + (len % 3) as u64).with_memlimit(memlimit).with_hash_length(16 + len % 100).with_salt_length(8 + len % 50);
                let ph: PwHash<Vec<u8>, Vec<u8>> = PwHash::hash(&msg, cfg).unwrap();
                both(cx, "PwHash<Vec,Vec>", &ph, &|x, y| x.clone().into_parts().0 == y.clone().into_parts().0 && x.clone().into_parts().1 == y.clone().into_parts().1 && x.to_string() == y.to_string() && y.verify(&msg).is_ok(), &d);
                cloned(cx, "PwHash<Vec,Vec>", &ph, &|x, y| x.clone().into_parts().0 == y.clone().into_parts().0 && x.clone().into_parts().1 == y.clone().into_parts().1 && x.to_string() == y.to_string() && y.verify(&msg).is_ok(), &d);
                let (h, s, c) = ph.clone().into_parts();
                expect(cx, "C16|PwHash|from_parts(into_parts)_not_equal", PwHash::from_parts(h, s, c).to_string() == ph.to_string(), d);
                match PwHash::<Vec<u8>, Vec<u8>>::from_string(&ph.to_string()) {
                    Ok(p2) => {
                        expect(cx, "C16|PwHash|from_string(to_string)_not_equal", p2.to_string() == ph.to_string() && p2.verify(&msg).is_ok(), d);
                    }
                    Err(e) => cx.violation("C16|PwHash|from_string(to_string)_fails", json!({"err":e.to_string()})),
                }
            }
            if len == 33 {
                cx.sample(json!({"family":"object round trips","payload_len":len,"formats":["to_bytes/from_bytes","into_parts/from_parts","serde_json","bincode"]}));
            }
        }
        // ---- fixed-length enforcement on the stack array type
        if cx.mine(900_001) {
            wrong_length::<StackByteArray<16>>(cx, "StackByteArray<16>", 16, Some(&|b| StackByteArray::<16>::try_from(b).is_ok()));
        }
        if cx.mine(900_002) {
            wrong_length::<StackByteArray<24>>(cx, "StackByteArray<24>", 24, Some(&|b| StackByteArray::<24>::try_from(b).is_ok()));
        }
        if cx.mine(900_003) {
            wrong_length::<StackByteArray<32>>(cx, "StackByteArray<32>", 32, Some(&|b| StackByteArray::<32>::try_from(b).is_ok()));
        }
        if cx.mine(900_004) {
            wrong_length::<StackByteArray<64>>(cx, "StackByteArray<64>", 64, Some(&|b| StackByteArray::<64>::try_from(b).is_ok()));
        }
        // ---- wrong-length fields inside an object: a key pair whose JSON carries a short / long key
        if cx.mine(900_005) {
            for (pk, sk) in [(32usize, 32usize), (31, 32), (32, 31), (33, 32), (32, 64), (0, 32), (3, 3)] {
                let js = format!("{{\"public_key\":{:?},\"secret_key\":{:?}}}", vec![7u8; pk], vec![9u8; sk]);
                cx.eval();
                let r = guard("KeyPair json", || serde_json::from_str::<KeyPair<StackByteArray<32>, StackByteArray<32>>>(&js).map(|_| ()).map_err(|e| e.to_string()));
                let want_ok = pk == 32 && sk == 32;
                match r {
                    Ok(r) => {
                        if r.is_ok() != want_ok {
                            cx.violation(&format!("C16|KeyPair<Stack,Stack>|wrong_length_field_{}", if r.is_ok() { "accepted" } else { "rejected_when_correct" }), json!({"public_key_len":pk,"secret_key_len":sk}));
                        }
                    }
                    Err(p) => cx.violation("C16|KeyPair<Stack,Stack>|decode_panics", json!({"panic":p.msg})),
                }
                let r2 = KeyPair::<StackByteArray<32>, StackByteArray<32>>::from_slices(&vec![7u8; pk], &vec![9u8; sk]).is_ok();
                cx.eval();
                if r2 != want_ok {
                    cx.violation("C16|KeyPair::from_slices|wrong_length_decision", json!({"public_key_len":pk,"secret_key_len":sk}));
                }
            }
            cx.cover("wrong_length_path", "KeyPair<Stack,Stack>|json_object_fields");
        }
    }

    #[cfg(feature = "nightly")]
    ni::run(cx, &mut idx, maxlen);
}

#[cfg(feature = "nightly")]
mod ni {
    use super::*;
    use dryoc::protected::*;

    fn hb(b: &[u8]) -> HeapBytes {
        let mut h = HeapBytes::default();
        h.resize(b.len(), 0);
        h.as_mut_slice().copy_from_slice(b);
        h
    }

    /// variable-length heap containers: any length decodes, contents preserved, nothing panics
    fn var_len<T: DeserializeOwned + Bytes>(cx: &mut Ctx, ty: &str) {
        for count in [0usize, 1, 2, 3, 15, 16, 17, 100, 4096, 4097] {
            let data: Vec<u8> = (0..count).map(|i| (i as u8).wrapping_mul(5).wrapping_add(1)).collect();
            let mut judge = |cx: &mut Ctx, path: &str, r: Result<Result<T, String>, crate::ctx::Panicked>| {
                cx.eval();
                let case = || json!({"type":ty,"path":path,"elements":count});
                match r {
                    Err(p) => cx.violation(&format!("C16|{}|decode_panics|{}", ty, path), json!({"panic":p.msg,"case":case()})),
                    Ok(Ok(v)) => {
                        if v.as_slice() != &data[..] {
                            cx.violation(&format!("C16|{}|decoded_bytes_differ|{}", ty, path), json!({"decoded_len":v.as_slice().len(),"case":case()}));
                        }
                    }
                    Ok(Err(e)) => cx.violation(&format!("C16|{}|valid_encoding_rejected|{}", ty, path), json!({"err":e,"case":case()})),
                }
                cx.cover("wrong_length_path", &format!("{}|{}", ty, path));
            };
            let js = serde_json::to_string(&data).unwrap();
            let r = guard("json seq", || serde_json::from_str::<T>(&js).map_err(|e| e.to_string()));
            judge(cx, "json_array(visit_seq)", r);
            let bs = bincode::serialize(&data).unwrap();
            let r = guard("bincode bytes", || bincode::deserialize::<T>(&bs).map_err(|e| e.to_string()));
            judge(cx, "bincode_bytes(visit_bytes)", r);
            let r = guard("SeqDeserializer", || {
                // SeqDeserializer drives visit_seq and then checks that every element was consumed (end())
            let d = SeqDeserializer::<_, ValueError>::new(data.clone().into_iter());
            T::deserialize(d).map_err(|e| e.to_string())
            });
            judge(cx, "SeqDeserializer+end", r);
        }
    }

    pub fn run(cx: &mut Ctx, idx: &mut u64, maxlen: usize) {
        for len in (0..=maxlen).step_by(3) {
            *idx += 1;
            if !cx.mine(*idx) {
                continue;
            }
            let mut rng = cx.rng.fork(*idx);
            let msg = rng.bytes(len);
            let key: [u8; 32] = rng.arr();
            let nonce: [u8; 24] = rng.arr();
            cx.key(&format!("ni objects len={}", len));
            let d = || json!({"payload_len":len,"containers":"heap/locked"});
            // HeapBytes payload, stack tag
            {
                let b: DryocSecretBox<StackByteArray<16>, HeapBytes> = DryocSecretBox::encrypt(&msg, &nonce, &key);
                both(cx, "DryocSecretBox<Stack,HeapBytes>", &b, &|x, y| x == y && y.decrypt::<Vec<u8>, _, _>(&nonce, &key).ok().as_deref() == Some(&msg[..]), &d);
                let wire: Vec<u8> = b.to_bytes();
                cx.eval();
                match guard("from_bytes HeapBytes", || DryocSecretBox::<StackByteArray<16>, HeapBytes>::from_bytes(&wire)) {
                    Ok(Ok(b2)) => {
                        expect(cx, "C16|DryocSecretBox<Stack,HeapBytes>|from_bytes(to_bytes)_not_equal", b2 == b, d);
                    }
                    Ok(Err(e)) => cx.violation("C16|DryocSecretBox<Stack,HeapBytes>|from_bytes(to_bytes)_fails", json!({"err":e.to_string(),"payload_len":len})),
                    Err(p) => cx.violation("C16|DryocSecretBox<Stack,HeapBytes>|from_bytes_panics", json!({"panic":p.msg,"payload_len":len})),
                }
                let hbytes: HeapBytes = b.to_bytes();
                expect_eq(cx, "C16|DryocSecretBox|to_bytes<HeapBytes>_differs", hbytes.as_slice(), &wire, d);
            }
            // fully locked box
            {
                let lkey = HeapByteArray::<32>::from_slice_into_readonly_locked(&key).unwrap();
                let b: dryoc::dryocsecretbox::protected::LockedBox = DryocSecretBox::encrypt(&hb(&msg), &nonce, &lkey);
                both(cx, "LockedBox(secretbox)<Locked<Heap16>,LockedBytes>", &b, &|x, y| x == y && y.decrypt::<Vec<u8>, _, _>(&nonce, &key).ok().as_deref() == Some(&msg[..]), &d);
                let (tag, data) = b.into_parts();
                let b2: dryoc::dryocsecretbox::protected::LockedBox = DryocSecretBox::from_parts(tag, data);
                expect(cx, "C16|LockedBox|from_parts(into_parts)_decrypts", b2.decrypt::<Vec<u8>, _, _>(&nonce, &key).ok().as_deref() == Some(&msg[..]), d);
            }
            // locked key pairs, signed messages, sessions, kdf, pwhash
            if len % 9 == 0 {
                let kp = KeyPair::<Locked<HeapByteArray<32>>, Locked<HeapByteArray<32>>>::gen_locked_keypair().unwrap();
                both(cx, "LockedKeyPair", &kp, &|x, y| x == y, &d);
                let skp = dryoc::sign::protected::LockedSigningKeyPair::gen_locked_keypair().unwrap();
                both(cx, "LockedSigningKeyPair", &skp, &|x, y| x == y, &d);
                let sm: dryoc::sign::protected::LockedSignedMessage = skp.sign(HeapBytes::from_slice_into_locked(&msg).unwrap()).unwrap();
                both(cx, "LockedSignedMessage", &sm, &|x, y| x == y && y.verify(&skp.public_key).is_ok(), &d);
                let kdf: dryoc::kdf::protected::LockedKdf = Kdf::gen();
                both(cx, "LockedKdf", &kdf, &|x, y| x.derive_subkey_to_vec(3).ok() == y.derive_subkey_to_vec(3).ok(), &d);
                let ph: dryoc::pwhash::protected::LockedPwHash = PwHash::hash(&msg, Config::interactive().with_opslimit(1).with_memlimit(8192)).unwrap();
                both(cx, "LockedPwHash", &ph, &|x, y| x.to_string() == y.to_string(), &d);
                let a = KeyPair::<Locked<HeapByteArray<32>>, Locked<HeapByteArray<32>>>::gen_locked_keypair().unwrap();
                let sess: dryoc::kx::protected::LockedSession = Session::new_client(&kp, &a.public_key).unwrap();
                both(cx, "LockedSession", &sess, &|x, y| x.rx_as_slice() == y.rx_as_slice() && x.tx_as_slice() == y.tx_as_slice(), &d);
                // serialize-only containers must at least produce the same encoding as the stack type
                let ro = HeapByteArray::<32>::from_slice_into_readonly_locked(&key).unwrap();
                let _ = ro;
                let h32 = HeapByteArray::<32>::from(&key);
                expect_eq(cx, "C16|HeapByteArray|json_encoding_differs_from_stack", serde_json::to_string(&h32).unwrap().as_bytes(), serde_json::to_string(&StackByteArray::<32>::from(key)).unwrap().as_bytes(), d);
                let lro = HeapBytes::from_slice_into_readonly_locked(&msg).unwrap();
                expect_eq(cx, "C16|LockedRO<HeapBytes>|bincode_encoding_differs_from_vec", &bincode::serialize(&lro).unwrap(), &bincode::serialize(&hb(&msg)).unwrap(), d);
                cx.cover("serde_roundtrip", "serialize-only: HeapByteArray, LockedRO<HeapBytes>");
                // the same value has the same encoding in every container, and what one container family wrote the other
                // reads back (bincode distinguishes byte strings from tuples / sequences; JSON does not)
                {
                    let s32 = StackByteArray::<32>::from(key);
                    let l32 = HeapByteArray::<32>::from_slice_into_locked(&key).unwrap();
                    let want_b = bincode::serialize(&s32).unwrap();
                    expect_eq(cx, "C16|HeapByteArray|bincode_encoding_differs_from_stack", &bincode::serialize(&h32).unwrap(), &want_b, d);
                    expect_eq(cx, "C16|Locked<HeapByteArray>|bincode_encoding_differs_from_stack", &bincode::serialize(&l32).unwrap(), &want_b, d);
                    expect_eq(cx, "C16|Locked<HeapByteArray>|json_encoding_differs_from_stack", serde_json::to_string(&l32).unwrap().as_bytes(), serde_json::to_string(&s32).unwrap().as_bytes(), d);
                    match guard("cross decode", || bincode::deserialize::<Locked<HeapByteArray<32>>>(&want_b)) {
                        Ok(Ok(v)) => { expect_eq(cx, "C16|Locked<HeapByteArray>|decoded_from_stack_encoding_differs", v.as_slice(), &key, d); }
                        Ok(Err(e)) => cx.violation("C16|Locked<HeapByteArray>|cannot_decode_stack_encoding", json!({"err":e.to_string()})),
                        Err(p) => cx.violation("C16|Locked<HeapByteArray>|decode_panics", json!({"panic":p.msg})),
                    }
                    match guard("cross decode", || bincode::deserialize::<StackByteArray<32>>(&bincode::serialize(&l32).unwrap())) {
                        Ok(Ok(v)) => { expect_eq(cx, "C16|StackByteArray|decoded_from_locked_encoding_differs", v.as_slice(), &key, d); }
                        Ok(Err(e)) => cx.violation("C16|StackByteArray|cannot_decode_locked_encoding", json!({"err":e.to_string()})),
                        Err(p) => cx.violation("C16|StackByteArray|decode_panics", json!({"panic":p.msg})),
                    }
                    // key pairs: stack-encoded, read into locked containers and back
                    let skp: KeyPair<StackByteArray<32>, StackByteArray<32>> = KeyPair::from_secret_key(StackByteArray::from(key));
                    let enc = bincode::serialize(&skp).unwrap();
                    match guard("cross decode keypair", || bincode::deserialize::<KeyPair<Locked<HeapByteArray<32>>, Locked<HeapByteArray<32>>>>(&enc)) {
                        Ok(Ok(lkp)) => {
                            expect(cx, "C16|LockedKeyPair|decoded_from_stack_encoding_differs", lkp.public_key.as_slice() == skp.public_key.as_slice() && lkp.secret_key.as_slice() == skp.secret_key.as_slice(), d);
                            expect_eq(cx, "C16|LockedKeyPair|bincode_encoding_differs_from_stack", &bincode::serialize(&lkp).unwrap(), &enc, d);
                        }
                        Ok(Err(e)) => cx.violation("C16|LockedKeyPair|cannot_decode_stack_encoding", json!({"err":e.to_string()})),
                        Err(p) => cx.violation("C16|LockedKeyPair|decode_panics", json!({"panic":p.msg})),
                    }
                    // a Vec-backed secret box read as a locked box
                    let vb = dryoc::dryocsecretbox::VecBox::encrypt_to_vecbox(&msg, &nonce, &key);
                    let encb = bincode::serialize(&vb).unwrap();
                    match guard("cross decode box", || bincode::deserialize::<dryoc::dryocsecretbox::protected::LockedBox>(&encb)) {
                        Ok(Ok(lb)) => { expect(cx, "C16|LockedBox|decoded_from_vecbox_encoding_does_not_decrypt", lb.decrypt::<Vec<u8>, _, _>(&nonce, &key).ok().as_deref() == Some(&msg[..]), d); }
                        Ok(Err(e)) => cx.violation("C16|LockedBox|cannot_decode_vecbox_encoding", json!({"err":e.to_string()})),
                        Err(p) => cx.violation("C16|LockedBox|decode_panics", json!({"panic":p.msg})),
                    }
                    cx.cover("serde_roundtrip", "cross-container encodings");
                }
            }
        }
        if cx.mine(910_001) {
            wrong_length::<Locked<HeapByteArray<16>>>(cx, "Locked<HeapByteArray<16>>", 16, None);
        }
        if cx.mine(910_002) {
            wrong_length::<Locked<HeapByteArray<32>>>(cx, "Locked<HeapByteArray<32>>", 32, None);
        }
        if cx.mine(910_003) {
            wrong_length::<Locked<HeapByteArray<64>>>(cx, "Locked<HeapByteArray<64>>", 64, None);
        }
        if cx.mine(910_004) {
            cx.eval();
            for n in [0usize, 31, 33] {
                let ok = HeapByteArray::<32>::try_from(&vec![1u8; n][..]).is_ok() || HeapByteArray::<32>::from_slice_into_locked(&vec![1u8; n]).is_ok();
                if ok {
                    cx.violation("C16|HeapByteArray<32>|try_from_slice_accepts_wrong_length", json!({"len":n}));
                }
            }
            expect(cx, "C16|HeapByteArray<32>|try_from_slice_rejects_correct_length", HeapByteArray::<32>::try_from(&[1u8; 32][..]).is_ok(), || json!({}));
            cx.cover("wrong_length_path", "HeapByteArray<32>|try_from/from_slice_into_locked");
        }
        if cx.mine(910_005) {
            var_len::<HeapBytes>(cx, "HeapBytes");
        }
        if cx.mine(910_006) {
            var_len::<LockedBytes>(cx, "LockedBytes");
        }
        if cx.mine(910_007) {
            // From<&[u8]> for HeapBytes (used by every from_bytes with heap payloads)
            for n in [0usize, 1, 16, 4097] {
                cx.eval();
                let data = vec![0x5au8; n];
                match guard("HeapBytes::from(&[u8])", || HeapBytes::from(&data[..])) {
                    Ok(h) => {
                        expect(cx, "C16|HeapBytes|from_slice_differs", h.as_slice() == &data[..], || json!({"len":n}));
                    }
                    Err(p) => cx.violation("C16|HeapBytes|from_slice_panics", json!({"len":n,"panic":p.msg})),
                }
            }
            cx.cover("wrong_length_path", "HeapBytes|From<&[u8]>");
        }
    }
}
