//! C02 — any tampering with an authenticated ciphertext is rejected (fault enumeration), and
//! C17 — a failed open releases nothing derived from the rejected ciphertext.
//! Both properties are decided over the same exhaustive single-corruption family; `prop` selects
//! which oracle's verdicts are recorded.

use dryoc::classic::crypto_secretstream_xchacha20poly1305 as ss;
use dryoc::dryocstream::{DryocStream, Pull};
use dryoc::types::*;
use serde_json::json;

use super::aead::*;
use super::*;
use crate::ctx::{hx, Ctx};
use crate::sodium as na;

#[derive(Clone, Copy, PartialEq)]
enum Prop {
    C02,
    C17,
}

fn flip(v: &mut [u8], bit: usize) {
    v[bit / 8] ^= 1 << (bit % 8);
}

/// libsodium's verdict on a (possibly tampered) wire
fn na_accepts(fam: Family, w: &Wire) -> bool {
    match fam {
        Family::Secretbox | Family::Afternm => na::secretbox_open_easy(&w.ct, &w.nonce, &w.key).is_some(),
        Family::Box => na::box_open_easy(&w.ct, &w.nonce, &w.pk, &w.sk).is_some(),
        Family::Seal => na::box_seal_open(&w.ct, &w.pk, &w.sk).is_some(),
    }
}

struct Judge<'a> {
    prop: Prop,
    forms: &'a [OpenForm],
    sentinel: Vec<u8>,
    /// distinct error texts seen per (form, wire length): the error value is a caller-visible output as well,
    /// and must not carry anything computed from the rejected ciphertext (e.g. the expected authenticator)
    errs: std::cell::RefCell<std::collections::HashMap<(String, usize), std::collections::BTreeSet<String>>>,
}

impl<'a> Judge<'a> {
    /// runs every form of `fam` on the tampered wire
    fn tampered(&self, cx: &mut Ctx, fam: Family, w: &Wire, component: &str, kind: &str, detail: &str, cheap_only: bool, msglen: usize) {
        // sanity side-oracle: the reference must reject the same input, otherwise the harness is wrong
        if na_accepts(fam, w) {
            cx.violation("HARNESS|C02|libsodium_accepts_tampered_input", json!({"family":format!("{:?}",fam),"component":component,"kind":kind,"detail":detail}));
            return;
        }
        // second pass for length-changing faults: the caller's message buffer has the length of the *genuine* message
        // (a receiver that knows what it expects), not the length the tampered wire implies
        let passes: &[Option<usize>] = if component == "ciphertext" && (kind == "truncate" || kind == "extend") { &[None, Some(msglen)] } else { &[None] };
        for (o, buflen) in self.forms.iter().filter(|o| o.family == fam && !(cheap_only && o.costly)).flat_map(|o| passes.iter().map(move |p| (o, *p))) {
            let kind_s = if buflen.is_some() { format!("{}(buffer sized for the genuine message)", kind) } else { kind.to_string() };
            let kind = kind_s.as_str();
            let case = || json!({"form":o.name,"component":component,"fault":kind,"detail":detail,"msglen":msglen,
                "ct":hx(&w.ct[..w.ct.len().min(96)]),"nonce":hx(&w.nonce),"key":hx(&w.key),"pk":hx(&w.pk),"sk":hx(&w.sk)});
            let sigp = if self.prop == Prop::C02 { format!("C02|{}", o.name) } else { format!("C17|{}", o.name) };
            let r = if buflen.is_some() {
                // a panic on a mis-sized caller buffer is the caller's contract, not an answer about the ciphertext
                crate::mon::aead::OUT_LEN.with(|c| c.set((buflen, false)));
                let r = crate::ctx::guard(o.name, || (o.f)(w, &self.sentinel));
                let used = crate::mon::aead::OUT_LEN.with(|c| c.replace((None, false))).1;
                if !used {
                    continue;
                }
                match r {
                    Ok(r) => r,
                    Err(_) => {
                        cx.cover("mis_sized_buffer", &format!("{}|{}|panics", o.name, kind));
                        continue;
                    }
                }
            } else {
                let Some(r) = call(cx, &sigp, o.name, case, || (o.f)(w, &self.sentinel)) else { continue };
                r
            };
            let Some(r) = r else { continue };
            cx.eval();
            cx.cover("form_x_component_x_fault", &format!("{}|{}|{}", o.name, component, kind));
            match self.prop {
                Prop::C02 => {
                    if r.ok {
                        cx.violation(&format!("C02|{}|accepts_tampered|{}_{}", o.name, component, kind), case());
                    }
                }
                Prop::C17 => {
                    if r.ok {
                        continue; // C02's business
                    }
                    {
                        let mut e = self.errs.borrow_mut();
                        // single-bit corruptions of the wire bytes form their own class: same length, same structure, so
                        // the error text must be one and the same (a text chosen by what the trial decryption looks like
                        // is an oracle on the rejected bytes)
                        let class = if kind == "bit_flip" && matches!(component, "tag" | "body" | "ephemeral_pk") { format!("{}#wire_bit_flip", o.name) } else { o.name.to_string() };
                        let set = e.entry((class, w.ct.len())).or_default();
                        if set.len() < 64 {
                            set.insert(r.err.clone());
                        }
                    }
                    if !r.caller_buffer {
                        // object API: returned only an error (the type cannot carry anything else)
                        if !r.buf.is_empty() {
                            cx.violation(&format!("C17|{}|returns_data_with_error", o.name), case());
                        }
                        continue;
                    }
                    let changed = r.buf.iter().zip(r.pre.iter()).filter(|(a, b)| a != b && **a != 0).count();
                    if changed > 0 || r.buf.len() != r.pre.len() {
                        let mut c = case();
                        if let Some(ob) = c.as_object_mut() {
                            ob.insert("bytes_neither_original_nor_zero".into(), json!(changed));
                            ob.insert("buffer_before".into(), json!(hx(&r.pre[..r.pre.len().min(48)])));
                            ob.insert("buffer_after".into(), json!(hx(&r.buf[..r.buf.len().min(48)])));
                        }
                        cx.violation(&format!("C17|{}|output_buffer_modified_after_failed_open", o.name), c);
                    }
                }
            }
        }
    }

    fn control(&self, cx: &mut Ctx, fam: Family, w: &Wire, msg: &[u8]) {
        for o in self.forms.iter().filter(|o| o.family == fam) {
            let case = || json!({"form":o.name,"control":true,"msglen":msg.len(),"ct":hx(&w.ct[..w.ct.len().min(96)])});
            let sigp = format!("{}|{}", if self.prop == Prop::C02 { "C02" } else { "C17" }, o.name);
            let Some(Some(r)) = call(cx, &sigp, o.name, case, || (o.f)(w, &self.sentinel)) else { continue };
            cx.eval();
            if self.prop == Prop::C02 && (!r.ok || r.buf[..r.mlen.min(r.buf.len())] != msg[..]) {
                cx.violation(&format!("C02|{}|rejects_untampered", o.name), case());
            }
            cx.cover("control_accepted", o.name);
        }
    }
}

fn enumerate_ae(cx: &mut Ctx, j: &Judge, fam: Family, w0: &Wire, msg: &[u8], cheap_only: bool) {
    let len = msg.len();
    j.control(cx, fam, w0, msg);
    // every bit of the wire bytes (sealed: epk | mac | body ; otherwise mac | body)
    // long wires (length-dependent code paths above internal thresholds) are sampled: the first and last 24 bytes
    // completely, one bit every 509 in between; likewise the truncation points
    let nbits = w0.ct.len() * 8;
    let long = w0.ct.len() > 700;
    for bit in (0..nbits).filter(|b| !long || *b < 192 || *b + 192 >= nbits || b % 509 == 0) {
        let mut w = w0.clone();
        flip(&mut w.ct, bit);
        let off = bit / 8;
        let comp = if fam == Family::Seal {
            if off < 32 { "ephemeral_pk" } else if off < 48 { "tag" } else { "body" }
        } else if off < 16 { "tag" } else { "body" };
        j.tampered(cx, fam, &w, comp, "bit_flip", &format!("bit {}", bit), cheap_only, len);
    }
    // every bit of the nonce (sealed boxes take no nonce)
    if fam != Family::Seal {
        for bit in 0..192 {
            let mut w = w0.clone();
            flip(&mut w.nonce, bit);
            j.tampered(cx, fam, &w, "nonce", "bit_flip", &format!("bit {}", bit), cheap_only, len);
        }
    }
    // every bit of the symmetric / precomputed key
    if fam == Family::Secretbox || fam == Family::Afternm {
        for bit in 0..256 {
            let mut w = w0.clone();
            flip(&mut w.key, bit);
            j.tampered(cx, fam, &w, "key", "bit_flip", &format!("bit {}", bit), cheap_only, len);
        }
    }
    // every truncation
    let clen = w0.ct.len();
    for cut in (1..=clen).filter(|c| !long || *c <= 40 || *c + 40 >= clen || c % 251 == 0) {
        let mut w = w0.clone();
        w.ct.truncate(w0.ct.len() - cut);
        j.tampered(cx, fam, &w, "ciphertext", "truncate", &format!("cut {}", cut), cheap_only, len);
    }
    // extensions
    for n in [1usize, 15, 16, 17, 64] {
        for fill in [0u8, 0xff] {
            let mut w = w0.clone();
            w.ct.extend(std::iter::repeat(fill).take(n));
            j.tampered(cx, fam, &w, "ciphertext", "extend", &format!("{} x {:#04x}", n, fill), cheap_only, len);
        }
    }
}

// --------------------------------------------------------------------------------- streams

#[derive(Clone)]
struct SWire {
    key: [u8; 32],
    header: [u8; 24],
    ad: Option<Vec<u8>>,
    /// genuine earlier ciphertexts (pulled first, with no AD)
    prior: Vec<Vec<u8>>,
    ct: Vec<u8>,
    /// the authentic ciphertext / AD for this position (re-presented after a rejected delivery)
    genuine: Vec<u8>,
    genuine_ad: Option<Vec<u8>>,
    genuine_key_header: bool,
    /// when set, both sides start from this stream state (key, nonce with the 32-bit message counter in its first four
    /// bytes) instead of from init: lets the message counter sit just before its wrap
    start: Option<([u8; 32], [u8; 12])>,
}

struct SOut {
    ok: bool,
    msg_after: Vec<u8>,
    msg_before: Vec<u8>,
    tag_after: u8,
    caller_buffer: bool,
    got: Vec<u8>,
    got_tag: u8,
    err: String,
    /// after a rejected delivery: was the authentic ciphertext still accepted by the same stream?
    retry_ok: Option<bool>,
}

const TAG_SENTINEL: u8 = 0xA5;

impl SOut {
    /// an authentic earlier message of the stream was refused (the delivery under test was never reached)
    fn prior_rejected() -> SOut {
        SOut { ok: false, msg_after: vec![], msg_before: vec![], tag_after: TAG_SENTINEL, caller_buffer: false, got: vec![], got_tag: 0, err: "PRIOR_REJECTED".into(), retry_ok: None }
    }
}

fn st_classic(w: &SWire, s: &[u8]) -> Option<SOut> {
    let mut st = ss::State::new();
    ss::crypto_secretstream_xchacha20poly1305_init_pull(&mut st, &w.header, &w.key);
    if let Some((k, n)) = w.start {
        st = ss::State::verif_from_parts(k, n);
    }
    for p in &w.prior {
        let mut m = vec![0u8; p.len() - 17];
        let mut t = 0u8;
        if ss::crypto_secretstream_xchacha20poly1305_pull(&mut st, &mut m, &mut t, p, None).is_err() {
            return Some(SOut::prior_rejected());
        }
    }
    if w.ct.len() < 17 {
        // the classic pull has no defined behaviour contract for this except totality (C04); a caller
        // cannot even size the message buffer. Not part of this family.
        return None;
    }
    // caller buffer at a varying alignment (see aead::Buf)
    let mut mb = crate::mon::aead::sentinel_buf(s, w.ct.len() - 17);
    let pre = mb.get();
    let mut tag = TAG_SENTINEL;
    let st_before = st.clone();
    let r = ss::crypto_secretstream_xchacha20poly1305_pull(&mut st, mb.slot(), &mut tag, &w.ct, w.ad.as_deref());
    let m = mb.get();
    let state_changed_by_rejection = r.is_err() && st != st_before;
    let ok = r.is_ok();
    let err = r.as_ref().err().map(|e| e.to_string()).unwrap_or_default();
    let mut retry_ok = None;
    if !ok && w.genuine_key_header {
        let mut m2 = vec![0u8; w.genuine.len() - 17];
        let mut t2 = 0u8;
        retry_ok = Some(ss::crypto_secretstream_xchacha20poly1305_pull(&mut st, &mut m2, &mut t2, &w.genuine, w.genuine_ad.as_deref()).is_ok());
    }
    Some(SOut { ok, got: m.clone(), got_tag: tag, err: if state_changed_by_rejection { format!("STATE_CHANGED|{}", err) } else { err }, msg_after: m, msg_before: pre, tag_after: tag, caller_buffer: true, retry_ok })
}

fn st_object(w: &SWire, _s: &[u8]) -> Option<SOut> {
    let mut st: DryocStream<Pull> = match w.start {
        Some((k, n)) => DryocStream::<Pull>::verif_from_state(ss::State::verif_from_parts(k, n)),
        None => DryocStream::init_pull(&w.key, &w.header),
    };
    for p in &w.prior {
        if st.pull_to_vec(p, None).is_err() {
            return Some(SOut::prior_rejected());
        }
    }
    if w.ct.len() < 17 {
        return None;
    }
    let adv = w.ad.clone();
    let st_before = st.verif_state().clone();
    let r = st.pull_to_vec(&w.ct, adv.as_ref());
    let changed = r.is_err() && *st.verif_state() != st_before;
    match r {
        Ok((m, t)) => Some(SOut { ok: true, got: m, got_tag: t.bits(), err: String::new(), msg_after: vec![], msg_before: vec![], tag_after: 0, caller_buffer: false, retry_ok: None }),
        Err(e) => {
            let err = if changed { format!("STATE_CHANGED|{}", e) } else { e.to_string() };
            let retry_ok = if w.genuine_key_header { Some(st.pull_to_vec(&w.genuine, w.genuine_ad.as_ref()).is_ok()) } else { None };
            Some(SOut { ok: false, got: vec![], got_tag: 0, err, msg_after: vec![], msg_before: vec![], tag_after: 0, caller_buffer: false, retry_ok })
        }
    }
}

fn na_stream_accepts(w: &SWire) -> bool {
    let mut st = match w.start {
        Some((k, n)) => na::stream_state(k, n),
        None => na::stream_init_pull(&w.header, &w.key),
    };
    for p in &w.prior {
        if na::stream_pull(&mut st, p, None).is_none() {
            return false;
        }
    }
    na::stream_pull(&mut st, &w.ct, w.ad.as_deref()).is_some()
}

type SFn = fn(&SWire, &[u8]) -> Option<SOut>;
const SFORMS: [(&str, SFn); 2] = [("crypto_secretstream_xchacha20poly1305_pull", st_classic), ("DryocStream::pull_to_vec", st_object)];

type ErrSets = std::collections::HashMap<(String, usize), std::collections::BTreeSet<String>>;

fn stream_tampered(cx: &mut Ctx, prop: Prop, sentinel: &[u8], w: &SWire, component: &str, kind: &str, detail: &str, msglen: usize, errs: &mut ErrSets) {
    if na_stream_accepts(w) {
        cx.violation("HARNESS|C02|libsodium_accepts_tampered_stream_input", json!({"component":component,"kind":kind,"detail":detail}));
        return;
    }
    for (name, f) in SFORMS {
        let case = || json!({"form":name,"component":component,"fault":kind,"detail":detail,"msglen":msglen,"adlen":w.ad.as_ref().map(|a| a.len()),
            "prior_messages":w.prior.len(),"ct":hx(&w.ct[..w.ct.len().min(96)]),"key":hx(&w.key),"header":hx(&w.header)});
        let pfx = if prop == Prop::C02 { "C02" } else { "C17" };
        let Some(r) = call(cx, &format!("{}|{}", pfx, name), name, case, || f(w, sentinel)) else { continue };
        let Some(r) = r else { continue };
        cx.eval();
        if r.err == "PRIOR_REJECTED" {
            if prop == Prop::C02 && component != "key" && component != "header" {
                cx.violation(&format!("C02|{}|rejects_untampered_earlier_message", name), case());
            }
            continue;
        }
        cx.cover("form_x_component_x_fault", &format!("{}|{}|{}", name, component, kind));
        match prop {
            Prop::C02 => {
                if r.ok {
                    cx.violation(&format!("C02|{}|accepts_tampered|{}_{}", name, component, kind), case());
                }
                if r.retry_ok == Some(false) {
                    cx.violation(&format!("C02|{}|rejects_untampered_after_a_rejected_delivery", name), case());
                }
                if r.retry_ok.is_some() {
                    cx.cover("genuine_retried_after_rejection", name);
                }
            }
            Prop::C17 => {
                if !r.ok {
                    let class = if kind == "bit_flip" && matches!(component, "tag" | "body" | "encrypted_tag_byte") { format!("{}#wire_bit_flip", name) } else { name.to_string() };
                    let set = errs.entry((class, w.ct.len())).or_default();
                    if set.len() < 64 {
                        set.insert(r.err.trim_start_matches("STATE_CHANGED|").to_string());
                    }
                    if r.err.starts_with("STATE_CHANGED|") {
                        cx.violation(&format!("C17|{}|stream_state_modified_after_failed_open", name), case());
                    }
                }
                if r.ok || !r.caller_buffer {
                    continue;
                }
                let changed = r.msg_after.iter().zip(r.msg_before.iter()).filter(|(a, b)| a != b && **a != 0).count();
                if changed > 0 {
                    let mut c = case();
                    if let Some(ob) = c.as_object_mut() {
                        ob.insert("bytes_neither_original_nor_zero".into(), json!(changed));
                        ob.insert("buffer_after".into(), json!(hx(&r.msg_after[..r.msg_after.len().min(48)])));
                    }
                    cx.violation(&format!("C17|{}|output_buffer_modified_after_failed_open", name), c);
                }
                if r.tag_after != TAG_SENTINEL {
                    cx.violation(&format!("C17|{}|tag_output_updated_after_failed_open", name), case());
                }
            }
        }
    }
}

fn enumerate_stream(cx: &mut Ctx, prop: Prop, sentinel: &[u8], w0: &SWire, msg: &[u8], tag: u8) {
    let mut errs: ErrSets = Default::default();
    let len = msg.len();
    // control
    for (name, f) in SFORMS {
        let case = || json!({"form":name,"control":true,"msglen":len});
        let pfx = if prop == Prop::C02 { "C02" } else { "C17" };
        if let Some(Some(r)) = call(cx, &format!("{}|{}", pfx, name), name, case, || f(w0, sentinel)) {
            cx.eval();
            if prop == Prop::C02 && (!r.ok || r.got != msg || r.got_tag != tag) {
                cx.violation(&format!("C02|{}|rejects_untampered", name), case());
            }
            cx.cover("control_accepted", name);
        }
    }
    let nbits = w0.ct.len() * 8;
    let long = w0.ct.len() > 700;
    for bit in (0..nbits).filter(|b| !long || *b < 192 || *b + 192 >= nbits || b % 509 == 0) {
        let mut w = w0.clone();
        flip(&mut w.ct, bit);
        let off = bit / 8;
        let comp = if off == 0 { "encrypted_tag_byte" } else if off < 1 + len { "body" } else { "tag" };
        stream_tampered(cx, prop, sentinel, &w, comp, "bit_flip", &format!("bit {}", bit), len, &mut errs);
    }
    // (a stream started from an explicit state does not look at the header: nothing to tamper with there)
    for bit in (0..192).filter(|_| w0.start.is_none()) {
        let mut w = w0.clone();
        w.genuine_key_header = false;
        flip(&mut w.header, bit);
        stream_tampered(cx, prop, sentinel, &w, "header", "bit_flip", &format!("bit {}", bit), len, &mut errs);
    }
    for bit in 0..256 {
        let mut w = w0.clone();
        w.genuine_key_header = false;
        flip(&mut w.key, bit);
        if let Some((k, _)) = &mut w.start {
            flip(&mut k[..], bit); // the receiver's state holds the stream key: flip it there
        }
        stream_tampered(cx, prop, sentinel, &w, "key", "bit_flip", &format!("bit {}", bit), len, &mut errs);
    }
    if let Some(ad) = &w0.ad {
        for bit in 0..ad.len() * 8 {
            let mut w = w0.clone();
            flip(w.ad.as_mut().unwrap(), bit);
            stream_tampered(cx, prop, sentinel, &w, "associated_data", "bit_flip", &format!("bit {}", bit), len, &mut errs);
        }
        // AD dropped, truncated, extended
        let mut w = w0.clone();
        w.ad = None;
        if !ad.is_empty() {
            stream_tampered(cx, prop, sentinel, &w, "associated_data", "dropped", "None", len, &mut errs);
            let mut w = w0.clone();
            w.ad.as_mut().unwrap().pop();
            stream_tampered(cx, prop, sentinel, &w, "associated_data", "truncate", "1", len, &mut errs);
        }
        let mut w = w0.clone();
        w.ad.as_mut().unwrap().push(0);
        stream_tampered(cx, prop, sentinel, &w, "associated_data", "extend", "1 x 0x00", len, &mut errs);
    } else {
        let mut w = w0.clone();
        w.ad = Some(vec![0u8]);
        stream_tampered(cx, prop, sentinel, &w, "associated_data", "added", "1 x 0x00", len, &mut errs);
    }
    let clen = w0.ct.len();
    for cut in (1..=clen).filter(|c| !long || *c <= 40 || *c + 40 >= clen || c % 251 == 0) {
        let mut w = w0.clone();
        w.ct.truncate(w0.ct.len() - cut);
        stream_tampered(cx, prop, sentinel, &w, "ciphertext", "truncate", &format!("cut {}", cut), len, &mut errs);
    }
    for n in [1usize, 15, 16, 17, 64] {
        for fill in [0u8, 0xff] {
            let mut w = w0.clone();
            w.ct.extend(std::iter::repeat(fill).take(n));
            stream_tampered(cx, prop, sentinel, &w, "ciphertext", "extend", &format!("{} x {:#04x}", n, fill), len, &mut errs);
        }
    }
    if prop == Prop::C17 {
        for ((form, wlen), set) in errs.iter() {
            cx.eval();
            if set.len() > 3 || (form.ends_with("#wire_bit_flip") && set.len() > 1) {
                let ex: Vec<&String> = set.iter().take(3).collect();
                cx.violation(&format!("C17|{}|error_text_varies_with_rejected_input", form), json!({"wire_len":wlen,"distinct_error_texts":set.len(),"examples":ex}));
            }
            cx.cover("error_text_checked", form);
        }
    }
}

pub fn run_c02(cx: &mut Ctx) {
    run(cx, Prop::C02)
}
pub fn run_c17(cx: &mut Ctx) {
    run(cx, Prop::C17)
}

fn run(cx: &mut Ctx, prop: Prop) {
    let lens: Vec<usize> = match (cx.tier, prop) {
        (crate::ctx::Tier::Tiny, _) => vec![0, 1, 17],
        (crate::ctx::Tier::Quick, Prop::C02) => vec![0, 1, 15, 16, 17, 63, 64, 65, 4097],
        (crate::ctx::Tier::Quick, Prop::C17) => vec![1, 15, 16, 17, 64, 65, 4097, 20_000],
        (crate::ctx::Tier::Thorough, Prop::C02) => (0..=200).chain([255, 256, 257, 1023, 1024, 1025, 4096, 4097, 8193, 16_385, 65_537, 300_000]).collect(),
        (crate::ctx::Tier::Thorough, Prop::C17) => (1..=200).chain([256, 1024, 4096, 4097, 8193, 16_385, 65_537, 300_000]).collect(),
    };
    let quick_set: [usize; 10] = [0, 1, 15, 16, 17, 63, 64, 65, 4097, 20_000];
    let forms = open_forms_for(cx);
    let nightly_only = cx.opt("nightly_forms_only").is_some();
    let mut idx = 0u64;
    for &len in &lens {
        for fam in [Family::Secretbox, Family::Afternm, Family::Box, Family::Seal] {
            idx += 1;
            if !cx.mine(idx) {
                continue;
            }
            let mut rng = cx.rng.fork(idx);
            let sentinel = rng.nonzero_bytes(13);
            let judge = Judge { prop, forms: &forms, sentinel, errs: Default::default() };
            let msg = rng.nonzero_bytes(len);
            // mostly random nonces and keys; all-zero and all-0xff ones are legal too (the first value of a counter nonce)
            let nonce: [u8; 24] = match (len + fam as usize) % 7 {
                0 => [0u8; 24],
                1 => [0xff; 24],
                _ => rng.arr(),
            };
            let key: [u8; 32] = if (len + fam as usize) % 11 == 3 { [0u8; 32] } else { rng.arr() };
            cx.cover("nonce_class", match (len + fam as usize) % 7 { 0 => "zeros", 1 => "ff", _ => "random" });
            let (spk, ssk) = na::box_seed_keypair(&rng.arr());
            let (rpk, rsk) = na::box_seed_keypair(&rng.arr());
            // sealed boxes: in half of the cases the recipient publishes its key with bit 255 set (X25519 ignores the bit,
            // the sealed-box nonce hashes the bytes as published)
            let rpk = if fam == Family::Seal && len % 2 == 1 { let mut k = rpk; k[31] |= 0x80; k } else { rpk };
            // the X25519-per-call forms are exercised on the quick length set only
            let cheap_only = false;
            // the X25519-per-call families: quick length set in the quick tier, every length up to 80 in the thorough tier
            if (fam == Family::Box || fam == Family::Seal) && !(quick_set.contains(&len) || cx.tier == crate::ctx::Tier::Thorough && len <= 80) {
                continue;
            }
            let w0 = match fam {
                Family::Secretbox => Wire { nonce, key, pk: [0; 32], sk: [0; 32], ct: na::secretbox_easy(&msg, &nonce, &key) },
                Family::Afternm => Wire { nonce, key: na::box_beforenm(&spk, &rsk).unwrap(), pk: [0; 32], sk: [0; 32], ct: na::box_easy(&msg, &nonce, &rpk, &ssk).unwrap() },
                Family::Box => Wire { nonce, key: [0; 32], pk: spk, sk: rsk, ct: na::box_easy(&msg, &nonce, &rpk, &ssk).unwrap() },
                Family::Seal => Wire { nonce, key: [0; 32], pk: rpk, sk: rsk, ct: na::box_seal(&msg, &rpk) },
            };
            cx.key(&format!("{:?} len={}", fam, len));
            cx.cover("family_x_len", &format!("{:?}|{}", fam, len));
            if len == 17 && fam == Family::Secretbox {
                cx.sample(json!({"family":"Secretbox","msglen":len,"faults":"every bit of tag/body/nonce/key, every truncation, 10 extensions","ct":hx(&w0.ct)}));
            }
            enumerate_ae(cx, &judge, fam, &w0, &msg, cheap_only);
            // untampered messages chosen by a sender who knows key and nonce so that the Poly1305 accumulator over the
            // ciphertext ends on an edge value: they are authentic and must be accepted like any other
            if prop == Prop::C02 && len >= 16 && len % 16 == 0 && fam != Family::Seal {
                let k_ = if fam == Family::Secretbox { key } else { na::box_beforenm(&rpk, &ssk).unwrap() };
                let ks = na::stream_xsalsa20(32 + len, &nonce, &k_);
                for sel in 0..cx.tier.pick(2usize, 13, 52) {
                    let Some((ct, name)) = super::polyedge::craft_ciphertext(&ks[..16], len, sel + len / 16, &mut rng) else { continue };
                    let m1: Vec<u8> = ct.iter().zip(ks[32..].iter()).map(|(a, b)| a ^ b).collect();
                    let w1 = match fam {
                        Family::Secretbox => Wire { nonce, key, pk: [0; 32], sk: [0; 32], ct: na::secretbox_easy(&m1, &nonce, &key) },
                        Family::Afternm => Wire { nonce, key: na::box_beforenm(&spk, &rsk).unwrap(), pk: [0; 32], sk: [0; 32], ct: na::box_easy(&m1, &nonce, &rpk, &ssk).unwrap() },
                        _ => Wire { nonce, key: [0; 32], pk: spk, sk: rsk, ct: na::box_easy(&m1, &nonce, &rpk, &ssk).unwrap() },
                    };
                    if w1.ct[16..] != ct[..] {
                        cx.violation("HARNESS|C02|crafted_ciphertext_not_reproduced_by_libsodium", json!({"len":len}));
                        continue;
                    }
                    judge.control(cx, fam, &w1, &m1);
                    cx.cover("poly1305_edge_controls", &name);
                }
            }
            // C17 only: boxes made under a *degenerate* sender key (a low-order point: the shared secret is all-zero, so
            // anyone can compute the box key). libsodium refuses them; whatever this crate decides, a refusal must not
            // leave the forged plaintext in the caller's buffer
            if prop == Prop::C17 && (fam == Family::Box || fam == Family::Seal) && len > 0 {
                let k0 = na::hsalsa20(&[0u8; 16], &[0u8; 32], None);
                for (pn, low) in super::c05::special_points().into_iter().filter(|(n, _)| n.starts_with("loworder")) {
                    let w = if fam == Family::Box {
                        Wire { nonce, key: [0; 32], pk: low, sk: rsk, ct: na::secretbox_easy(&msg, &nonce, &k0) }
                    } else {
                        let mut h = low.to_vec();
                        h.extend_from_slice(&rpk);
                        let n24: [u8; 24] = na::generichash(24, &h, None).unwrap().try_into().unwrap();
                        let mut ct = low.to_vec();
                        ct.extend_from_slice(&na::secretbox_easy(&msg, &n24, &k0));
                        Wire { nonce, key: [0; 32], pk: rpk, sk: rsk, ct }
                    };
                    judge.tampered(cx, fam, &w, "sender_public_key", "small_order(forged under an all-zero shared secret)", &pn, cheap_only, len);
                    cx.cover("degenerate_sender_key", &pn);
                }
            }
            if prop == Prop::C17 {
                // for one form and one wire length there are at most a length error and an authentication error;
                // more distinct texts mean the text depends on the rejected bytes (or on the key)
                for ((form, wlen), set) in judge.errs.borrow().iter() {
                    cx.eval();
                    if set.len() > 3 || (form.ends_with("#wire_bit_flip") && set.len() > 1) {
                        let ex: Vec<&String> = set.iter().take(3).collect();
                        cx.violation(&format!("C17|{}|error_text_varies_with_rejected_input", form), json!({"wire_len":wlen,"distinct_error_texts":set.len(),"examples":ex}));
                    }
                    cx.cover("error_text_checked", form);
                }
            }
        }
        if nightly_only {
            continue; // the stream API has no heap/locked-only forms
        }
        // secret stream: AD lengths {none, 0, 1, 16, 17}; message at position 0 and (after a REKEY-tagged message) position 2
        for (ai, adlen) in [None, Some(0usize), Some(1), Some(16), Some(17)].into_iter().enumerate() {
            for pos in [0usize, 2, 3] {
                idx += 1;
                if !cx.mine(idx) {
                    continue;
                }
                if pos >= 2 && !(quick_set.contains(&len) || cx.tier == crate::ctx::Tier::Thorough && len <= 100) {
                    continue;
                }
                let mut rng = cx.rng.fork(idx);
                let sentinel = rng.nonzero_bytes(11);
                let key: [u8; 32] = rng.arr();
                let msg = rng.nonzero_bytes(len);
                let ad = adlen.map(|n| rng.bytes(n));
                let tag = [0u8, 1, 2, 3][(len + ai) % 4];
                let (mut st, header) = na::stream_init_push(&key);
                let mut start = None;
                if pos == 3 {
                    // position 3: two earlier messages again, but the 32-bit message counter starts just below its wrap (or in
                    // the middle of its range), so that the wrap and the rekey it causes happen before the message under test
                    let c0: u32 = *rng.pick(&[0xffff_fffeu32, 0xffff_ffff, 0xffff_fffd, 0x0001_00ff, 0x00ff_ffff]);
                    let mut n = st.nonce;
                    n[..4].copy_from_slice(&c0.to_le_bytes());
                    st = na::stream_state(st.k, n);
                    start = Some((st.k, n));
                    cx.cover("stream_counter_start", &format!("{:#x}", c0));
                }
                let mut prior = Vec::new();
                if pos >= 2 {
                    // earlier messages carry any tag byte (REKEY bit set or not, FINAL, application bits)
                    let t1 = *rng.pick(&[0u8, 1, 0x80, 0x41, 0xfc]);
                    let t2 = *rng.pick(&[2u8, 3, 0x82, 0x83, 0xfe, 0xff, 0x02, 0x03]);
                    // ... and any length, the empty (tag-only) message included
                    let shape = rng.below(4);
                    let m1: &[u8] = if shape == 1 || shape == 3 { b"" } else { b"first" };
                    let m2: &[u8] = if shape == 2 || shape == 3 { b"" } else { b"second, rekeys" };
                    prior.push(na::stream_push(&mut st, m1, None, t1));
                    prior.push(na::stream_push(&mut st, m2, None, t2));
                    cx.cover("stream_prior_tags", &format!("{:#04x},{:#04x}", t1, t2));
                    cx.cover("stream_prior_lengths", &format!("{},{}", m1.len(), m2.len()));
                }
                let ct = na::stream_push(&mut st, &msg, ad.as_deref(), tag);
                let w0 = SWire { key, header, ad: ad.clone(), prior, ct: ct.clone(), genuine: ct, genuine_ad: ad, genuine_key_header: true, start };
                cx.key(&format!("stream len={} ad={:?} pos={}", len, adlen, pos));
                cx.cover("stream_adlen", &format!("{:?}", adlen));
                cx.cover("stream_position", &format!("{}", pos));
                if len == 17 && pos == 0 && adlen == Some(1) {
                    cx.sample(json!({"family":"secretstream","msglen":len,"adlen":1,"tag":tag,"ct":hx(&w0.ct)}));
                }
                enumerate_stream(cx, prop, &sentinel, &w0, &msg, tag);
            }
        }
    }
}
