//! A second, hook-independent observer of the page-aligned allocator: `posix_memalign` and `free` are defined in the
//! executable (like `mlock` in prot.rs), so dryoc's calls reach these first. Page-aligned allocations are recorded;
//! when one is handed to `free`, the whole block (guard pages included, where readable) is searched for the zero-free
//! "secret" pattern the C15 workload writes. Blocks still recorded after every container was dropped can be searched too
//! (an allocator that parks released blocks instead of freeing them).
//! Forwarding goes through dlsym(RTLD_NEXT), so it also works when valgrind redirects libc's malloc family.
//! Not compiled into the AddressSanitizer build (the sanitizer runtime defines `free` itself).

use std::sync::atomic::{AtomicBool, AtomicUsize, Ordering};

static REAL_FREE: AtomicUsize = AtomicUsize::new(0);
static REAL_PM: AtomicUsize = AtomicUsize::new(0);
static RESOLVING: AtomicBool = AtomicBool::new(false);
static ENABLED: AtomicBool = AtomicBool::new(false);
static BUSY: AtomicBool = AtomicBool::new(false);

const NLIVE: usize = 1024;
static mut LIVE: [(usize, usize); NLIVE] = [(0, 0); NLIVE];
const NHITS: usize = 64;
/// (block address, block size, offset of the run, run length, 0 = at free / 1 = retained)
static mut HITS: [(usize, usize, usize, usize, usize); NHITS] = [(0, 0, 0, 0, 0); NHITS];
static NHIT: AtomicUsize = AtomicUsize::new(0);
static RECORDED: AtomicUsize = AtomicUsize::new(0);
static FREED: AtomicUsize = AtomicUsize::new(0);
static TABLE_FULL: AtomicUsize = AtomicUsize::new(0);
static PIPE_R: AtomicUsize = AtomicUsize::new(0);
static PIPE_W: AtomicUsize = AtomicUsize::new(0);

/// minimum length of a run b[i+1] == next(b[i]) of the pattern 1 + (7i + c) mod 255 that counts as the secret
pub const MIN_RUN: usize = 12;

unsafe fn resolve(slot: &AtomicUsize, name: &[u8]) -> usize {
    let v = slot.load(Ordering::SeqCst);
    if v != 0 {
        return v;
    }
    if RESOLVING.swap(true, Ordering::SeqCst) {
        return 0;
    }
    let p = libc::dlsym(libc::RTLD_NEXT, name.as_ptr() as *const libc::c_char) as usize;
    slot.store(p, Ordering::SeqCst);
    RESOLVING.store(false, Ordering::SeqCst);
    p
}

fn readable(p: usize) -> bool {
    let w = PIPE_W.load(Ordering::SeqCst) as i32;
    let r = PIPE_R.load(Ordering::SeqCst) as i32;
    if w == 0 {
        return false;
    }
    unsafe {
        if libc::write(w, p as *const libc::c_void, 1) == 1 {
            let mut b = 0u8;
            libc::read(r, &mut b as *mut u8 as *mut libc::c_void, 1);
            true
        } else {
            false
        }
    }
}

/// longest pattern run inside [p, p+size), page by page (pages the kernel cannot read are skipped)
unsafe fn scan(p: usize, size: usize) -> Option<(usize, usize)> {
    let pg = 4096usize;
    let mut best: Option<(usize, usize)> = None;
    let mut run = 0usize;
    let mut prev = 0u8;
    let mut off = 0usize;
    while off < size {
        let chunk = (pg - (p + off) % pg).min(size - off);
        if !readable(p + off) {
            run = 0;
            prev = 0;
            off += chunk;
            continue;
        }
        for i in off..off + chunk {
            let b = std::ptr::read_volatile((p + i) as *const u8);
            if b != 0 && prev != 0 && b as u32 == 1 + ((prev as u32 - 1 + 7) % 255) {
                run += 1;
                if run + 1 >= MIN_RUN && best.map(|(_, l)| run + 1 > l).unwrap_or(true) {
                    best = Some((i + 1 - (run + 1), run + 1));
                }
            } else {
                run = 0;
            }
            prev = b;
        }
        off += chunk;
    }
    best
}

fn hit(addr: usize, size: usize, off: usize, len: usize, kind: usize) {
    let i = NHIT.load(Ordering::SeqCst);
    if i < NHITS {
        unsafe {
            (&mut (*std::ptr::addr_of_mut!(HITS)))[i] = (addr, size, off, len, kind);
        }
        NHIT.store(i + 1, Ordering::SeqCst);
    }
}

#[no_mangle]
pub unsafe extern "C" fn posix_memalign(out: *mut *mut libc::c_void, align: libc::size_t, size: libc::size_t) -> libc::c_int {
    let f = resolve(&REAL_PM, b"posix_memalign\0");
    if f == 0 {
        return libc::ENOMEM;
    }
    let f: unsafe extern "C" fn(*mut *mut libc::c_void, libc::size_t, libc::size_t) -> libc::c_int = std::mem::transmute(f);
    let r = f(out, align, size);
    if r == 0 && align == 4096 && ENABLED.load(Ordering::SeqCst) && !BUSY.swap(true, Ordering::SeqCst) {
        let a = *out as usize;
        // fresh memory has unspecified contents and may hold stale bytes of the harness's own (unwiped) buffers:
        // clear it, so that any pattern found later was written into the block during its lifetime
        std::ptr::write_bytes(a as *mut u8, 0, size);
        let live = &mut (*std::ptr::addr_of_mut!(LIVE));
        if let Some(slot) = live.iter_mut().find(|s| s.0 == 0) {
            *slot = (a, size);
            RECORDED.fetch_add(1, Ordering::SeqCst);
        } else {
            TABLE_FULL.fetch_add(1, Ordering::SeqCst);
        }
        BUSY.store(false, Ordering::SeqCst);
    }
    r
}

#[no_mangle]
pub unsafe extern "C" fn free(p: *mut libc::c_void) {
    if p.is_null() {
        return;
    }
    if ENABLED.load(Ordering::SeqCst) && (p as usize) % 4096 == 0 && !BUSY.swap(true, Ordering::SeqCst) {
        let live = &mut (*std::ptr::addr_of_mut!(LIVE));
        if let Some(slot) = live.iter_mut().find(|s| s.0 == p as usize) {
            let size = slot.1;
            *slot = (0, 0);
            FREED.fetch_add(1, Ordering::SeqCst);
            if let Some((off, len)) = scan(p as usize, size) {
                hit(p as usize, size, off, len, 0);
            }
        }
        BUSY.store(false, Ordering::SeqCst);
    }
    let f = resolve(&REAL_FREE, b"free\0");
    if f == 0 {
        return; // still resolving: leak rather than recurse
    }
    let f: unsafe extern "C" fn(*mut libc::c_void) = std::mem::transmute(f);
    f(p)
}

pub fn enable() {
    unsafe {
        let mut fds = [0i32; 2];
        if libc::pipe(fds.as_mut_ptr()) == 0 {
            PIPE_R.store(fds[0] as usize, Ordering::SeqCst);
            PIPE_W.store(fds[1] as usize, Ordering::SeqCst);
        }
    }
    ENABLED.store(true, Ordering::SeqCst);
}

pub fn enabled() -> bool {
    ENABLED.load(Ordering::SeqCst)
}

/// searches every block that is still recorded (allocated page-aligned, not yet given to free)
pub fn scan_live() {
    if !enabled() || BUSY.swap(true, Ordering::SeqCst) {
        return;
    }
    unsafe {
        let live = &(*std::ptr::addr_of!(LIVE));
        for &(a, size) in live.iter().filter(|s| s.0 != 0) {
            if let Some((off, len)) = scan(a, size) {
                hit(a, size, off, len, 1);
            }
        }
    }
    BUSY.store(false, Ordering::SeqCst);
}

pub fn take_hits() -> Vec<(usize, usize, usize, usize, usize)> {
    let n = NHIT.load(Ordering::SeqCst);
    let v = unsafe { (&(*std::ptr::addr_of!(HITS)))[..n].to_vec() };
    NHIT.store(0, Ordering::SeqCst);
    v
}

/// (page-aligned allocations recorded, of those given to free, allocations not recorded because the table was full)
pub fn counters() -> (usize, usize, usize) {
    (RECORDED.load(Ordering::SeqCst), FREED.load(Ordering::SeqCst), TABLE_FULL.load(Ordering::SeqCst))
}

pub fn live_blocks() -> usize {
    unsafe { (&(*std::ptr::addr_of!(LIVE))).iter().filter(|s| s.0 != 0).count() }
}
