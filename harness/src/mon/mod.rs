//! Monitors, one module per property.
#![allow(dead_code)]

use serde_json::{json, Value};

use crate::ctx::{guard, hx, Ctx, Panicked};
use crate::prng::Rng;

pub mod aead;
pub mod polyedge;
#[cfg(all(feature = "nightly", not(feature = "asan")))]
pub mod heapwatch;
#[cfg(feature = "sodium")]
pub mod c01;
#[cfg(feature = "sodium")]
pub mod c02;
#[cfg(feature = "sodium")]
pub mod c03;
pub mod c04;
pub mod c16;
#[cfg(feature = "nightly")]
pub mod c14;
#[cfg(feature = "nightly")]
pub mod c15;
#[cfg(feature = "nightly")]
pub mod c19;
#[cfg(feature = "nightly")]
pub mod osview;
#[cfg(feature = "nightly")]
pub mod prot;
#[cfg(feature = "sodium")]
pub mod c05;
#[cfg(feature = "sodium")]
pub mod c06;
#[cfg(feature = "sodium")]
pub mod c07;
pub mod c08;
#[cfg(feature = "sodium")]
pub mod c09;
#[cfg(feature = "sodium")]
pub mod c10;
#[cfg(feature = "sodium")]
pub mod c11;
#[cfg(feature = "sodium")]
pub mod c12;
#[cfg(feature = "sodium")]
pub mod c13;

pub fn dispatch(name: &str, cx: &mut Ctx) -> bool {
    match name {
        #[cfg(feature = "sodium")]
        "c01" => c01::run(cx),
        #[cfg(feature = "sodium")]
        "c02" => c02::run_c02(cx),
        #[cfg(feature = "sodium")]
        "c17" => c02::run_c17(cx),
        #[cfg(feature = "sodium")]
        "c03" => c03::run(cx),
        "c04" => c04::run(cx),
        "c16" => c16::run(cx),
        #[cfg(feature = "nightly")]
        "c14" => c14::run(cx),
        #[cfg(feature = "nightly")]
        "c15" => c15::run(cx),
        #[cfg(feature = "nightly")]
        "c19" => c19::run(cx),
        #[cfg(feature = "sodium")]
        "c05" => c05::run(cx),
        #[cfg(feature = "sodium")]
        "c06" => c06::run(cx),
        #[cfg(feature = "sodium")]
        "c07" => c07::run(cx),
        "c08" => c08::run(cx),
        #[cfg(feature = "sodium")]
        "c09" => c09::run(cx),
        #[cfg(feature = "sodium")]
        "c10" => c10::run(cx),
        #[cfg(feature = "sodium")]
        "c11" => c11::run(cx),
        #[cfg(feature = "sodium")]
        "c12" => c12::run(cx),
        #[cfg(feature = "sodium")]
        "c13" => c13::run(cx),
        _ => return false,
    }
    true
}

/// content classes used across monitors
pub const CONTENTS: [&str; 3] = ["random", "zeros", "ff"];

pub fn content(rng: &mut Rng, class: &str, len: usize) -> Vec<u8> {
    match class {
        "zeros" => vec![0u8; len],
        "ff" => vec![0xffu8; len],
        _ => rng.bytes(len),
    }
}

/// compares bytes with the reference; on mismatch records a violation under `sig`
pub fn expect_eq(cx: &mut Ctx, sig: &str, got: &[u8], want: &[u8], case: impl FnOnce() -> Value) -> bool {
    cx.eval();
    cx.last_ok = got == want;
    if got != want {
        let mut c = case();
        if let Some(o) = c.as_object_mut() {
            o.insert("got".into(), json!(hx(&got[..got.len().min(96)])));
            o.insert("want".into(), json!(hx(&want[..want.len().min(96)])));
        }
        cx.violation(sig, c);
        false
    } else {
        true
    }
}

pub fn expect(cx: &mut Ctx, sig: &str, ok: bool, case: impl FnOnce() -> Value) -> bool {
    cx.eval();
    if !ok {
        cx.violation(sig, case());
    }
    ok
}

/// a password-hash configuration with the given parameters, reached from a randomly chosen preset through the builder
/// calls in a randomly chosen order (all of opslimit, memlimit, hash length and - unless `salt_len` is None - salt length
/// are set, so the result does not depend on the preset or the order unless a builder call disturbs another field)
#[cfg(feature = "full")]
pub fn build_config(rng: &mut crate::prng::Rng, opslimit: u64, memlimit: usize, hash_len: usize, salt_len: Option<usize>) -> (dryoc::pwhash::Config, String) {
    use dryoc::pwhash::Config;
    let (mut cfg, mut desc) = match rng.below(4) {
        0 => (Config::interactive(), String::from("interactive")),
        1 => (Config::moderate(), String::from("moderate")),
        2 => (Config::sensitive(), String::from("sensitive")),
        _ => (Config::default(), String::from("default")),
    };
    let mut calls: Vec<u8> = vec![0, 1, 2];
    if salt_len.is_some() {
        calls.push(3);
    }
    for i in (1..calls.len()).rev() {
        let j = rng.below(i + 1);
        calls.swap(i, j);
    }
    for c in calls {
        match c {
            0 => {
                cfg = cfg.with_opslimit(opslimit);
                desc.push_str(".opslimit");
            }
            1 => {
                cfg = cfg.with_memlimit(memlimit);
                desc.push_str(".memlimit");
            }
            2 => {
                cfg = cfg.with_hash_length(hash_len);
                desc.push_str(".hash_length");
            }
            _ => {
                cfg = cfg.with_salt_length(salt_len.unwrap());
                desc.push_str(".salt_length");
            }
        }
    }
    (cfg, desc)
}

/// caller-side output buffers are handed over full of stale non-zero bytes: an implementation that reads its output
/// buffer before writing it (accumulates into it, assembles a parameter in it) is right only on fresh zeroed memory
pub fn stale(n: usize) -> Vec<u8> {
    (0..n).map(|i| (0xA5u8 ^ (i as u8).wrapping_mul(29)) | 1).collect()
}
pub fn stale_arr<const N: usize>() -> [u8; N] {
    let mut a = [0u8; N];
    for (i, b) in a.iter_mut().enumerate() {
        *b = (0xA5u8 ^ (i as u8).wrapping_mul(29)) | 1;
    }
    a
}

/// runs a call into dryoc; a panic is a violation under `<sig_prefix>|panic`
pub fn call<T>(cx: &mut Ctx, sig_prefix: &str, marker: &str, case: impl FnOnce() -> Value, f: impl FnOnce() -> T) -> Option<T> {
    match guard(marker, f) {
        Ok(v) => Some(v),
        Err(Panicked { msg, in_target }) => {
            let mut c = case();
            if let Some(o) = c.as_object_mut() {
                o.insert("panic".into(), json!(msg));
            }
            if in_target {
                cx.violation(&format!("{}|panic", sig_prefix), c);
            } else {
                cx.violation(&format!("HARNESS|{}|panic", sig_prefix), c);
            }
            None
        }
    }
}

pub fn len_class(len: usize, block: usize) -> String {
    format!("mod{}={}", block, len % block)
}
