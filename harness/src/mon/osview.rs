//! The kernel's view of the process: /proc/self/maps, /proc/self/smaps (VmFlags), /proc/self/status (VmLck),
//! EFAULT probes through a pipe, and forked children performing a raw access (SIGSEGV ground truth).

use std::fs;

pub fn page() -> usize {
    unsafe { libc::sysconf(libc::_SC_PAGESIZE) as usize }
}

#[derive(Clone, Debug)]
pub struct Vma {
    pub start: usize,
    pub end: usize,
    pub perms: [u8; 4],
    pub locked: bool,
}

/// parses /proc/self/maps (perms only)
pub fn maps() -> Vec<Vma> {
    let s = fs::read_to_string("/proc/self/maps").unwrap_or_default();
    let mut v = Vec::new();
    for line in s.lines() {
        let mut it = line.split_whitespace();
        let (Some(range), Some(perms)) = (it.next(), it.next()) else { continue };
        let Some((a, b)) = range.split_once('-') else { continue };
        let (Ok(start), Ok(end)) = (usize::from_str_radix(a, 16), usize::from_str_radix(b, 16)) else { continue };
        let pb = perms.as_bytes();
        if pb.len() < 4 {
            continue;
        }
        v.push(Vma { start, end, perms: [pb[0], pb[1], pb[2], pb[3]], locked: false });
    }
    v
}

/// parses /proc/self/smaps including the `lo` (VM_LOCKED) flag
pub fn smaps() -> Vec<Vma> {
    let s = fs::read_to_string("/proc/self/smaps").unwrap_or_default();
    let mut v: Vec<Vma> = Vec::new();
    for line in s.lines() {
        let mut it = line.split_whitespace();
        let tok = it.next().unwrap_or("");
        let header = tok.split_once('-').and_then(|(a, b)| Some((usize::from_str_radix(a, 16).ok()?, usize::from_str_radix(b, 16).ok()?)));
        if let Some((start, end)) = header {
            let Some(perms) = it.next() else { continue };
            let pb = perms.as_bytes();
            if pb.len() < 4 {
                continue;
            }
            v.push(Vma { start, end, perms: [pb[0], pb[1], pb[2], pb[3]], locked: false });
        } else if let Some(rest) = line.strip_prefix("VmFlags:") {
            if let Some(last) = v.last_mut() {
                last.locked = rest.split_whitespace().any(|f| f == "lo");
            }
        }
    }
    v
}

pub fn find(v: &[Vma], addr: usize) -> Option<&Vma> {
    // maps are sorted by address
    let i = v.partition_point(|m| m.end <= addr);
    v.get(i).filter(|m| m.start <= addr && addr < m.end)
}

/// rights of ordinary heap memory in this process (normally "rw-"; "rwx" under valgrind's simulated brk heap)
pub fn plain_heap_perms() -> String {
    let probe = vec![1u8; 64];
    let m = maps();
    let r = find(&m, probe.as_ptr() as usize).map(|v| perms_str(&v.perms)).unwrap_or_else(|| "rw-".into());
    drop(probe);
    r
}

pub fn perms_str(p: &[u8; 4]) -> String {
    String::from_utf8_lossy(&p[..3]).into_owned()
}

/// VmLck in kB
pub fn vmlck_kb() -> usize {
    let s = fs::read_to_string("/proc/self/status").unwrap_or_default();
    for line in s.lines() {
        if let Some(r) = line.strip_prefix("VmLck:") {
            return r.trim().trim_end_matches("kB").trim().parse().unwrap_or(usize::MAX);
        }
    }
    usize::MAX
}

pub struct Probe {
    rfd: i32,
    wfd: i32,
}

impl Probe {
    pub fn new() -> Self {
        let mut fds = [0i32; 2];
        let r = unsafe { libc::pipe(fds.as_mut_ptr()) };
        assert_eq!(r, 0, "pipe");
        Probe { rfd: fds[0], wfd: fds[1] }
    }

    /// true iff the kernel can read the byte at `p` on our behalf (write(2) from it does not EFAULT)
    pub fn readable(&self, p: *const u8) -> bool {
        let r = unsafe { libc::write(self.wfd, p as *const libc::c_void, 1) };
        if r == 1 {
            let mut b = 0u8;
            unsafe { libc::read(self.rfd, &mut b as *mut u8 as *mut libc::c_void, 1) };
            true
        } else {
            false
        }
    }

    /// true iff the kernel can write the byte at `p` (read(2) into it does not EFAULT). The byte `keep` is
    /// what gets written, so pass the current content to leave memory unchanged.
    pub fn writable(&self, p: *mut u8, keep: u8) -> bool {
        let k = keep;
        let w = unsafe { libc::write(self.wfd, &k as *const u8 as *const libc::c_void, 1) };
        assert_eq!(w, 1);
        let r = unsafe { libc::read(self.rfd, p as *mut libc::c_void, 1) };
        if r == 1 {
            true
        } else {
            // drain the byte that is still in the pipe
            let mut b = 0u8;
            unsafe { libc::read(self.rfd, &mut b as *mut u8 as *mut libc::c_void, 1) };
            false
        }
    }
}

impl Drop for Probe {
    fn drop(&mut self) {
        unsafe {
            libc::close(self.rfd);
            libc::close(self.wfd);
        }
    }
}

#[derive(Debug, PartialEq, Eq, Clone, Copy)]
pub enum ChildEnd {
    Exited(i32),
    Signaled(i32),
    Unknown,
}

/// forks; the child performs one volatile read (write=false) or write (write=true) at `p` and `_exit(0)`s
pub fn fork_access(p: *mut u8, write: bool) -> ChildEnd {
    unsafe {
        let pid = libc::fork();
        if pid < 0 {
            return ChildEnd::Unknown;
        }
        if pid == 0 {
            // child: default disposition for the fault signals (the parent's handlers would turn them into exit codes)
            libc::signal(libc::SIGSEGV, libc::SIG_DFL);
            libc::signal(libc::SIGBUS, libc::SIG_DFL);
            if write {
                let v = std::ptr::read_volatile(&0x5au8);
                std::ptr::write_volatile(p, v);
            } else {
                let v = std::ptr::read_volatile(p);
                std::ptr::write_volatile(&mut { v } as *mut u8, v);
            }
            libc::_exit(0);
        }
        let mut status = 0i32;
        let r = libc::waitpid(pid, &mut status, 0);
        if r != pid {
            return ChildEnd::Unknown;
        }
        if libc::WIFEXITED(status) {
            ChildEnd::Exited(libc::WEXITSTATUS(status))
        } else if libc::WIFSIGNALED(status) {
            ChildEnd::Signaled(libc::WTERMSIG(status))
        } else {
            ChildEnd::Unknown
        }
    }
}

/// self-check of the observers against a region the harness maps and protects itself.
/// Returns a description of the first discrepancy (the kernel or a container hides what we rely on).
pub fn selfcheck(with_fork: bool) -> Result<(), String> {
    unsafe {
        let pg = page();
        let base = libc::mmap(std::ptr::null_mut(), 4 * pg, libc::PROT_READ | libc::PROT_WRITE, libc::MAP_PRIVATE | libc::MAP_ANONYMOUS, -1, 0);
        if base == libc::MAP_FAILED {
            return Err("mmap failed".into());
        }
        let b = base as usize;
        *(base as *mut u8) = 1;
        *((b + pg) as *mut u8) = 2;
        *((b + 2 * pg) as *mut u8) = 3;
        libc::mprotect((b + pg) as *mut _, pg, libc::PROT_READ);
        libc::mprotect((b + 2 * pg) as *mut _, pg, libc::PROT_NONE);
        let before = vmlck_kb();
        let lock_ok = libc::mlock(base, pg) == 0;
        let m = maps();
        let chk = |addr: usize, want: &str| -> Result<(), String> {
            match find(&m, addr) {
                Some(v) if perms_str(&v.perms) == want => Ok(()),
                other => Err(format!("maps reports {:?} for a page known to be {}", other.map(|v| perms_str(&v.perms)), want)),
            }
        };
        chk(b, "rw-")?;
        chk(b + pg, "r--")?;
        chk(b + 2 * pg, "---")?;
        let pr = Probe::new();
        if !pr.readable(b as *const u8) || !pr.writable(b as *mut u8, 1) {
            return Err("EFAULT probe wrong on rw page".into());
        }
        if !pr.readable((b + pg) as *const u8) || pr.writable((b + pg) as *mut u8, 2) {
            return Err("EFAULT probe wrong on r-- page".into());
        }
        if pr.readable((b + 2 * pg) as *const u8) || pr.writable((b + 2 * pg) as *mut u8, 3) {
            return Err("EFAULT probe wrong on --- page".into());
        }
        if lock_ok {
            let after = vmlck_kb();
            if after != before + pg / 1024 {
                return Err(format!("VmLck did not move with mlock: {} -> {}", before, after));
            }
            let sm = smaps();
            if !find(&sm, b).map(|v| v.locked).unwrap_or(false) || find(&sm, b + pg).map(|v| v.locked).unwrap_or(true) {
                return Err("smaps VmFlags lo does not track mlock".into());
            }
            libc::munlock(base, pg);
            if vmlck_kb() != before {
                return Err("VmLck did not return after munlock".into());
            }
        } else {
            return Err("mlock of one page refused for the harness itself".into());
        }
        if with_fork {
            if fork_access((b + pg) as *mut u8, true) != ChildEnd::Signaled(libc::SIGSEGV) {
                return Err("forked write to r-- page did not SIGSEGV".into());
            }
            if fork_access((b + pg) as *mut u8, false) != ChildEnd::Exited(0) {
                return Err("forked read of r-- page did not exit 0".into());
            }
        }
        libc::munmap(base, 4 * pg);
    }
    Ok(())
}
