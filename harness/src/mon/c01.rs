//! C01 — authenticated encryption round-trips and is byte-compatible with libsodium.

use serde_json::json;

use super::aead::*;
use super::*;
use crate::ctx::{hx, Ctx};
use crate::sodium as na;

pub fn run(cx: &mut Ctx) {
    let (maxlen, keysets) = match cx.tier {
        crate::ctx::Tier::Tiny => (40usize, 1usize),
        crate::ctx::Tier::Quick => (320, 2),
        crate::ctx::Tier::Thorough => (1100, 24),
    };
    let specials: &[usize] = if cx.tier == crate::ctx::Tier::Tiny { &[1024] } else { &[1023, 1024, 1025, 4095, 4096, 4097, 65535, 65536, 65537] };
    let encs = enc_forms_for(cx);
    let opens = open_forms_for(cx);
    let sentinel = [0x5au8; 7];
    let mut idx = 0u64;
    for len in (0..=maxlen).chain(specials.iter().copied()) {
        for ks in 0..keysets {
            idx += 1;
            if !cx.mine(idx) {
                continue;
            }
            let mut rng = cx.rng.fork(idx);
            // key material: mostly random, with all-zero / all-0xff keys and nonces mixed in
            let kclass = match (len + ks) % 11 {
                0 => "zeros",
                1 => "ff",
                _ => "random",
            };
            let key: [u8; 32] = content(&mut rng, kclass, 32).try_into().unwrap();
            let nclass = match (len + 3 * ks) % 13 {
                0 => "zeros",
                1 => "ff",
                _ => "random",
            };
            let nonce: [u8; 24] = content(&mut rng, nclass, 24).try_into().unwrap();
            let (spk, ssk) = na::box_seed_keypair(&rng.arr());
            let (rpk, rsk) = na::box_seed_keypair(&rng.arr());
            let plain_msg = content(&mut rng, if len % 7 == 0 { "zeros" } else { "random" }, len);
            cx.key(&format!("len={} ks={}", len, ks));
            // message variants: the ordinary one, plus (for whole-block lengths) messages chosen by someone who knows
            // key and nonce so that the Poly1305 accumulator over the ciphertext ends on p .. p+4 (= 0..4 mod p)
            let mut variants: Vec<(Vec<u8>, Option<Family>, &str)> = vec![(plain_msg, None, "ordinary")];
            if len >= 16 && len % 16 == 0 && (len <= 64 || len % 64 == 0) {
                let k_box = na::box_beforenm(&rpk, &ssk).expect("beforenm");
                for (fam, k_) in [(Family::Secretbox, key), (Family::Box, k_box)] {
                    let ks_ = na::stream_xsalsa20(32 + len, &nonce, &k_);
                    for v in 0..5u64 {
                        let mut crafted = None;
                        for _try in 0..24 {
                            let prefix = rng.bytes(len - 16);
                            if let Some(last) = super::polyedge::solve_last_block(&ks_[..16], &prefix, v) {
                                let mut ct = prefix;
                                ct.extend_from_slice(&last);
                                crafted = Some(ct);
                                break;
                            }
                        }
                        let Some(ct) = crafted else { continue };
                        // self-check of the construction against the independent evaluator
                        if super::polyedge::accumulator(&ks_[..16], &ct) != super::polyedge::Fe::small(v) {
                            cx.violation("HARNESS|C01|poly1305_edge_construction_failed", json!({"v":v,"len":len}));
                            continue;
                        }
                        let m: Vec<u8> = ct.iter().zip(ks_[32..].iter()).map(|(a, b)| a ^ b).collect();
                        variants.push((m, Some(fam), "poly1305_accumulator_on_p+v"));
                        cx.cover("poly1305_edge_messages", &format!("{:?}|v={}", fam, v));
                    }
                    // accumulator values that stress the carry chain between limbs (radix 2^26 / 2^32 / 2^44 / 2^64),
                    // reached after the last block or after the block before it; a rotating subset per length
                    const JS: [u32; 8] = [26, 32, 44, 52, 64, 78, 88, 104];
                    let nsel = cx.tier.pick(1usize, 3, 8);
                    for sel in 0..nsel {
                        let j = JS[(len / 16 + sel + ks) % JS.len()];
                        for (below, d) in [(false, 0u8), (false, 3), (true, 0), (true, 2)] {
                            let mid = len >= 32 && (sel + d as usize) % 2 == 1;
                            let npre = if mid { len - 32 } else { len - 16 };
                            let mut crafted = None;
                            for _try in 0..24 {
                                let prefix = rng.bytes(npre);
                                let target = super::polyedge::limb_edge_target(j, below, d, rng.u64() as u128 | (rng.u64() as u128) << 64);
                                if let Some(blk) = super::polyedge::solve_block_for(&ks_[..16], &prefix, target) {
                                    let mut ct = prefix;
                                    ct.extend_from_slice(&blk);
                                    if super::polyedge::accumulator(&ks_[..16], &ct) != target.reduce() {
                                        cx.violation("HARNESS|C01|poly1305_limb_edge_construction_failed", json!({"j":j,"len":len}));
                                        break;
                                    }
                                    if mid {
                                        ct.extend_from_slice(&rng.bytes(16));
                                    }
                                    crafted = Some(ct);
                                    break;
                                }
                            }
                            let Some(ct) = crafted else { continue };
                            let m: Vec<u8> = ct.iter().zip(ks_[32..].iter()).map(|(a, b)| a ^ b).collect();
                            variants.push((m, Some(fam), "poly1305_accumulator_on_limb_edge"));
                            cx.cover("poly1305_limb_edge_messages", &format!("2^{}|{}|{}", j, if below { "ones_below" } else { "zeros_above" }, if mid { "before_last_block" } else { "after_last_block" }));
                        }
                    }
                }
            }
            for (msg, only_family, variant) in variants {
            let fam_ok = |f: Family| -> bool {
                match only_family {
                    None => true,
                    Some(Family::Secretbox) => f == Family::Secretbox,
                    Some(_) => f == Family::Box || f == Family::Afternm,
                }
            };
            cx.cover("len_mod16", &format!("{}", len % 16));
            cx.cover("len_mod64", &format!("{}", len % 64));
            cx.cover("key_class", kclass);
            cx.cover("nonce_class", nclass);
            if len == 65 {
                cx.sample(json!({"len":len,"key":hx(&key),"nonce":hx(&nonce),"sender_pk":hx(&spk),"recipient_pk":hx(&rpk)}));
            }

            let want_sb = na::secretbox_easy(&msg, &nonce, &key);
            let want_bx = na::box_easy(&msg, &nonce, &rpk, &ssk).expect("libsodium box_easy");
            let base = json!({"len":len,"variant":variant,"msg":hx(&msg[..len.min(48)]),"nonce":hx(&nonce),"key":hx(&key),"spk":hx(&spk),"ssk":hx(&ssk),"rpk":hx(&rpk),"rsk":hx(&rsk)});
            if len % 4 == 1 || variant != "ordinary" {
                cx.io("secretbox", json!({"msg":hx(&msg),"nonce":hx(&nonce),"key":hx(&key),"ct":hx(&want_sb)}));
                if len % 8 == 1 {
                    cx.io("box", json!({"msg":hx(&msg),"nonce":hx(&nonce),"pk":hx(&rpk),"sk":hx(&ssk),"ct":hx(&want_bx)}));
                }
            }

            // -------------------------------------------------------------- encryption forms
            let mut dryoc_seals: Vec<Vec<u8>> = Vec::new();
            for e in encs.iter().filter(|e| fam_ok(e.family)) {
                let p = Plain { nonce, key, pk: rpk, sk: ssk, msg: crate::mon::aead::Msg::new(&msg) };
                let case = || json!({"form":e.name,"case":base});
                let sig = format!("C01|{}", e.name);
                let Some(r) = call(cx, &sig, e.name, case, || (e.f)(&p)) else { continue };
                cx.cover("enc_form", e.name);
                cx.cover(&format!("enc_form_x_len_mod16[{}]", e.name), &format!("{}", len % 16));
                let ct = match r {
                    Ok(ct) => ct,
                    Err(err) => {
                        cx.eval();
                        cx.violation(&format!("{}|unexpected_err", sig), json!({"err":err,"case":case()}));
                        continue;
                    }
                };
                match e.family {
                    Family::Secretbox => {
                        expect_eq(cx, &format!("{}|ciphertext_differs_from_libsodium", sig), &ct, &want_sb, case);
                    }
                    Family::Box | Family::Afternm => {
                        expect_eq(cx, &format!("{}|ciphertext_differs_from_libsodium", sig), &ct, &want_bx, case);
                    }
                    Family::Seal => {
                        // ephemeral key chosen inside dryoc: libsodium must open it, and the construction is re-derived
                        let opened = na::box_seal_open(&ct, &rpk, &rsk);
                        expect(cx, &format!("{}|libsodium_cannot_open_dryoc_sealed_box", sig), opened.as_deref() == Some(&msg[..]), case);
                        if ct.len() == len + 48 {
                            let epk: [u8; 32] = ct[..32].try_into().unwrap();
                            let nn: [u8; 24] = na::generichash(24, &[&epk[..], &rpk[..]].concat(), None).unwrap().try_into().unwrap();
                            let inner = na::box_open_easy(&ct[32..], &nn, &epk, &rsk);
                            expect(cx, &format!("{}|sealed_box_construction_differs", sig), inner.as_deref() == Some(&msg[..]), case);
                            if len % 16 == 1 {
                                cx.io("seal", json!({"ct":hx(&ct),"rpk":hx(&rpk),"rsk":hx(&rsk),"msg":hx(&msg)}));
                            }
                        } else {
                            cx.violation(&format!("{}|sealed_box_length", sig), case());
                        }
                        dryoc_seals.push(ct);
                    }
                }
            }

            // -------------------------------------------------------------------- open forms
            let k_after = na::box_beforenm(&spk, &rsk).expect("beforenm");
            let seal_na = na::box_seal(&msg, &rpk);
            for o in opens.iter().filter(|o| fam_ok(o.family)) {
                let wires: Vec<(&str, Wire)> = match o.family {
                    Family::Secretbox => vec![("libsodium_ct", Wire { nonce, key, pk: [0; 32], sk: [0; 32], ct: want_sb.clone() })],
                    Family::Box => vec![("libsodium_ct", Wire { nonce, key: [0; 32], pk: spk, sk: rsk, ct: want_bx.clone() })],
                    Family::Afternm => vec![("libsodium_ct", Wire { nonce, key: k_after, pk: [0; 32], sk: [0; 32], ct: want_bx.clone() })],
                    Family::Seal => {
                        let mut v = vec![("libsodium_ct", Wire { nonce, key: [0; 32], pk: rpk, sk: rsk, ct: seal_na.clone() })];
                        if let Some(d) = dryoc_seals.first() {
                            v.push(("dryoc_ct", Wire { nonce, key: [0; 32], pk: rpk, sk: rsk, ct: d.clone() }));
                        }
                        v
                    }
                };
                for (src, w) in wires {
                    let case = || json!({"form":o.name,"ciphertext_from":src,"case":base});
                    let sig = format!("C01|{}", o.name);
                    let Some(r) = call(cx, &sig, o.name, case, || (o.f)(&w, &sentinel)) else { continue };
                    let Some(r) = r else {
                        cx.cover("open_form_not_invocable", o.name);
                        continue;
                    };
                    cx.cover("open_form", o.name);
                    cx.eval();
                    if !r.ok {
                        cx.violation(&format!("{}|authentic_ciphertext_rejected", sig), json!({"err":r.err,"case":case()}));
                    } else if r.buf.len() < len || r.buf[..r.mlen.min(r.buf.len())] != msg[..] {
                        cx.violation(&format!("{}|wrong_plaintext", sig), json!({"got":hx(&r.buf[..r.buf.len().min(64)]),"case":case()}));
                    }
                }
            }
            } // message variants
        }
    }
}
