//! C11 — every randomised operation draws fresh randomness on every call.
//! For each entry point: N consecutive calls; no value repeats, none is all-zero, no byte position is constant.
//! (False-alarm probability of a run < 2^-100: distinctness/non-zero only on values >= 16 bytes.)

use std::collections::HashSet;

use dryoc::classic::crypto_auth::crypto_auth_keygen;
use dryoc::classic::crypto_box::*;
use dryoc::classic::crypto_generichash::crypto_generichash_keygen;
use dryoc::classic::crypto_kdf::crypto_kdf_keygen;
use dryoc::classic::crypto_kx::crypto_kx_keypair;
use dryoc::classic::crypto_onetimeauth::crypto_onetimeauth_keygen;
use dryoc::classic::crypto_pwhash::crypto_pwhash_str;
use dryoc::classic::crypto_secretbox::{crypto_secretbox_keygen, crypto_secretbox_keygen_inplace};
use dryoc::classic::crypto_secretstream_xchacha20poly1305 as ss;
use dryoc::classic::crypto_shorthash::crypto_shorthash_keygen;
use dryoc::classic::crypto_sign::{crypto_sign_keypair, crypto_sign_keypair_inplace};
use dryoc::dryocbox::DryocBox;
use dryoc::dryocstream::{DryocStream, Push};
use dryoc::kdf::Kdf;
use dryoc::keypair::KeyPair;
use dryoc::pwhash::{Config, PwHash};
use dryoc::rng::{copy_randombytes, randombytes_buf};
use dryoc::sign::SigningKeyPair;
use dryoc::types::*;
use serde_json::json;

use super::*;
use crate::ctx::{guard, hx, Ctx};

type Gen = fn() -> Vec<Vec<u8>>;

fn g_arr32() -> Vec<Vec<u8>> {
    vec![<[u8; 32] as NewByteArray<32>>::gen().to_vec()]
}
fn g_arr16() -> Vec<Vec<u8>> {
    vec![<[u8; 16] as NewByteArray<16>>::gen().to_vec()]
}
fn g_arr24() -> Vec<Vec<u8>> {
    vec![<[u8; 24] as NewByteArray<24>>::gen().to_vec()]
}
fn g_arr8() -> Vec<Vec<u8>> {
    vec![<[u8; 8] as NewByteArray<8>>::gen().to_vec()]
}
fn g_stack32() -> Vec<Vec<u8>> {
    vec![StackByteArray::<32>::gen().as_slice().to_vec()]
}
fn g_stack64() -> Vec<Vec<u8>> {
    vec![StackByteArray::<64>::gen().as_slice().to_vec()]
}
fn g_stack24() -> Vec<Vec<u8>> {
    vec![StackByteArray::<24>::gen().as_slice().to_vec()]
}
fn g_vec32() -> Vec<Vec<u8>> {
    vec![<Vec<u8> as NewByteArray<32>>::gen()]
}
fn g_vec24() -> Vec<Vec<u8>> {
    vec![<Vec<u8> as NewByteArray<24>>::gen()]
}
fn g_randombytes_buf() -> Vec<Vec<u8>> {
    vec![randombytes_buf(32), randombytes_buf(17), randombytes_buf(1)]
}
fn g_randombytes_buf_long() -> Vec<Vec<u8>> {
    // lengths around and beyond typical OS request limits (256 bytes for getentropy, page size)
    vec![randombytes_buf(255), randombytes_buf(256), randombytes_buf(257), randombytes_buf(300), randombytes_buf(1000), randombytes_buf(4097)]
}
fn g_copy_randombytes() -> Vec<Vec<u8>> {
    let mut a = [0u8; 32];
    copy_randombytes(&mut a);
    let mut b = vec![0u8; 100];
    copy_randombytes(&mut b);
    vec![a.to_vec(), b]
}
fn g_copy_randombytes_long() -> Vec<Vec<u8>> {
    let mut out = Vec::new();
    for n in [258usize, 511, 512, 513, 777, 4096, 5000] {
        let mut b = vec![0u8; n];
        copy_randombytes(&mut b);
        out.push(b);
    }
    out
}
fn g_long_containers() -> Vec<Vec<u8>> {
    let ph: PwHash<Vec<u8>, Vec<u8>> = PwHash::hash(&b"password".to_vec(), min_cfg().with_salt_length(300)).unwrap();
    let (_, salt, _) = ph.into_parts();
    vec![StackByteArray::<300>::gen().as_slice().to_vec(), <[u8; 600] as NewByteArray<600>>::gen().to_vec(), <Vec<u8> as NewByteArray<257>>::gen(), salt]
}
fn g_secretbox_keygen() -> Vec<Vec<u8>> {
    let mut k = [0u8; 32];
    crypto_secretbox_keygen_inplace(&mut k);
    vec![crypto_secretbox_keygen().to_vec(), k.to_vec()]
}
fn g_auth_keygen() -> Vec<Vec<u8>> {
    vec![crypto_auth_keygen().to_vec()]
}
fn g_onetimeauth_keygen() -> Vec<Vec<u8>> {
    vec![crypto_onetimeauth_keygen().to_vec()]
}
fn g_shorthash_keygen() -> Vec<Vec<u8>> {
    vec![crypto_shorthash_keygen().to_vec()]
}
fn g_generichash_keygen() -> Vec<Vec<u8>> {
    vec![crypto_generichash_keygen().to_vec()]
}
fn g_kdf_keygen() -> Vec<Vec<u8>> {
    vec![crypto_kdf_keygen().to_vec()]
}
fn g_stream_keygen() -> Vec<Vec<u8>> {
    let mut k = [0u8; 32];
    ss::crypto_secretstream_xchacha20poly1305_keygen(&mut k);
    vec![k.to_vec()]
}
fn g_box_keypair() -> Vec<Vec<u8>> {
    let (pk, sk) = crypto_box_keypair();
    vec![pk.to_vec(), sk.to_vec()]
}
fn g_box_keypair_inplace() -> Vec<Vec<u8>> {
    let (mut pk, mut sk) = ([0u8; 32], [0u8; 32]);
    crypto_box_keypair_inplace(&mut pk, &mut sk);
    vec![pk.to_vec(), sk.to_vec()]
}
fn g_kx_keypair() -> Vec<Vec<u8>> {
    let (pk, sk) = crypto_kx_keypair();
    vec![pk.to_vec(), sk.to_vec()]
}
fn g_sign_keypair() -> Vec<Vec<u8>> {
    let (pk, sk) = crypto_sign_keypair();
    vec![pk.to_vec(), sk[..32].to_vec()]
}
fn g_sign_keypair_inplace() -> Vec<Vec<u8>> {
    let (mut pk, mut sk) = ([0u8; 32], [0u8; 64]);
    crypto_sign_keypair_inplace(&mut pk, &mut sk);
    vec![pk.to_vec(), sk[..32].to_vec()]
}
fn g_keypair_gen() -> Vec<Vec<u8>> {
    let kp: KeyPair<StackByteArray<32>, StackByteArray<32>> = KeyPair::gen();
    vec![kp.public_key.as_slice().to_vec(), kp.secret_key.as_slice().to_vec()]
}
fn g_keypair_gen_vec() -> Vec<Vec<u8>> {
    let kp: KeyPair<Vec<u8>, Vec<u8>> = KeyPair::gen();
    vec![kp.public_key.clone(), kp.secret_key.clone()]
}
fn g_keypair_gen_with_defaults() -> Vec<Vec<u8>> {
    let kp = KeyPair::gen_with_defaults();
    vec![kp.public_key.as_slice().to_vec(), kp.secret_key.as_slice().to_vec()]
}
fn g_signing_keypair_gen() -> Vec<Vec<u8>> {
    let kp: SigningKeyPair<StackByteArray<32>, StackByteArray<64>> = SigningKeyPair::gen();
    vec![kp.public_key.as_slice().to_vec(), kp.secret_key.as_slice()[..32].to_vec()]
}
fn g_signing_keypair_gen_with_defaults() -> Vec<Vec<u8>> {
    let kp = SigningKeyPair::gen_with_defaults();
    vec![kp.public_key.as_slice().to_vec(), kp.secret_key.as_slice()[..32].to_vec()]
}
fn g_kdf_gen() -> Vec<Vec<u8>> {
    let k: Kdf<StackByteArray<32>, StackByteArray<8>> = Kdf::gen();
    let (key, ctx) = k.into_parts();
    vec![key.as_slice().to_vec(), ctx.as_slice().to_vec()]
}
fn g_kdf_gen_vec() -> Vec<Vec<u8>> {
    let k: Kdf<Vec<u8>, Vec<u8>> = Kdf::gen();
    let (key, ctx) = k.into_parts();
    vec![key, ctx]
}
fn g_kdf_gen_with_defaults() -> Vec<Vec<u8>> {
    let (key, ctx) = Kdf::gen_with_defaults().into_parts();
    vec![key.as_slice().to_vec(), ctx.as_slice().to_vec()]
}
const RPK: [u8; 32] = [0x4b, 0x66, 0xe9, 0xd4, 0xd1, 0xb4, 0x67, 0x3c, 0x5a, 0xd2, 0x26, 0x91, 0x95, 0x7d, 0x6a, 0xf5, 0xc1, 0x1b, 0x64, 0x21, 0xe0, 0xea, 0x01, 0xd4, 0x2c, 0xa4, 0x16, 0x9e, 0x79, 0x18, 0xba, 0x0d];
fn g_box_seal() -> Vec<Vec<u8>> {
    // same recipient and message every time: only the ephemeral key may differ
    let mut c = vec![0u8; 48 + 5];
    crypto_box_seal(&mut c, b"hello", &RPK).unwrap();
    vec![c[..32].to_vec(), c[32..].to_vec()]
}
fn g_dryocbox_seal() -> Vec<Vec<u8>> {
    let b = dryoc::dryocbox::VecBox::seal_to_vecbox(b"hello", &StackByteArray::from(RPK)).unwrap();
    let v = b.to_vec();
    let b2: DryocBox<[u8; 32], [u8; 16], Vec<u8>> = DryocBox::seal(b"hello", &RPK).unwrap();
    let (_, _, epk) = b2.into_parts();
    vec![v[..32].to_vec(), epk.unwrap().to_vec()]
}
fn g_init_push() -> Vec<Vec<u8>> {
    let mut st = ss::State::new();
    let mut h = [0u8; 24];
    ss::crypto_secretstream_xchacha20poly1305_init_push(&mut st, &mut h, &[7u8; 32]);
    vec![h.to_vec()]
}
fn g_dryocstream_init_push() -> Vec<Vec<u8>> {
    let (_s, h): (DryocStream<Push>, StackByteArray<24>) = DryocStream::init_push(&[7u8; 32]);
    let (_s2, h2): (DryocStream<Push>, Vec<u8>) = DryocStream::init_push(&StackByteArray::<32>::from([7u8; 32]));
    vec![h.as_slice().to_vec(), h2]
}
fn min_cfg() -> Config {
    Config::interactive().with_opslimit(1).with_memlimit(8192)
}
fn g_pwhash_hash() -> Vec<Vec<u8>> {
    let ph: PwHash<Vec<u8>, Vec<u8>> = PwHash::hash(&b"password".to_vec(), min_cfg()).unwrap();
    let (hash, salt, _) = ph.into_parts();
    vec![salt, hash]
}
fn g_pwhash_hash_salt24() -> Vec<Vec<u8>> {
    let ph: PwHash<Vec<u8>, Vec<u8>> = PwHash::hash(&b"password".to_vec(), min_cfg().with_salt_length(24)).unwrap();
    let (_, salt, _) = ph.into_parts();
    vec![salt]
}
fn g_pwhash_str() -> Vec<Vec<u8>> {
    let s = crypto_pwhash_str(b"password", 1, 8192).unwrap();
    let d = super::c10::decode(&s).expect("phc layout");
    vec![d.salt, d.hash]
}

#[cfg(feature = "nightly")]
mod ni {
    use super::*;
    use dryoc::protected::*;
    pub fn g_heap32() -> Vec<Vec<u8>> {
        vec![HeapByteArray::<32>::gen().as_slice().to_vec()]
    }
    pub fn g_gen_locked() -> Vec<Vec<u8>> {
        vec![HeapByteArray::<32>::gen_locked().unwrap().as_slice().to_vec()]
    }
    pub fn g_gen_readonly_locked() -> Vec<Vec<u8>> {
        vec![HeapByteArray::<32>::gen_readonly_locked().unwrap().as_slice().to_vec()]
    }
    pub fn g_locked_gen() -> Vec<Vec<u8>> {
        vec![<Locked<HeapByteArray<32>> as NewByteArray<32>>::gen().as_slice().to_vec()]
    }
    pub fn g_gen_locked_keypair() -> Vec<Vec<u8>> {
        let kp = dryoc::keypair::KeyPair::<Locked<HeapByteArray<32>>, Locked<HeapByteArray<32>>>::gen_locked_keypair().unwrap();
        vec![kp.public_key.as_slice().to_vec(), kp.secret_key.as_slice().to_vec()]
    }
    pub fn g_gen_readonly_locked_keypair() -> Vec<Vec<u8>> {
        let kp = dryoc::keypair::KeyPair::<LockedRO<HeapByteArray<32>>, LockedRO<HeapByteArray<32>>>::gen_readonly_locked_keypair().unwrap();
        vec![kp.public_key.as_slice().to_vec(), kp.secret_key.as_slice().to_vec()]
    }
    pub fn g_signing_gen_locked_keypair() -> Vec<Vec<u8>> {
        let kp = dryoc::sign::protected::LockedSigningKeyPair::gen_locked_keypair().unwrap();
        vec![kp.public_key.as_slice().to_vec(), kp.secret_key.as_slice()[..32].to_vec()]
    }
    pub fn g_signing_gen_readonly_locked_keypair() -> Vec<Vec<u8>> {
        let kp = SigningKeyPair::<LockedRO<HeapByteArray<32>>, LockedRO<HeapByteArray<64>>>::gen_readonly_locked_keypair().unwrap();
        vec![kp.public_key.as_slice().to_vec(), kp.secret_key.as_slice()[..32].to_vec()]
    }
    pub fn g_locked_kdf_gen() -> Vec<Vec<u8>> {
        let k: dryoc::kdf::protected::LockedKdf = Kdf::gen();
        let (key, ctx) = k.into_parts();
        vec![key.as_slice().to_vec(), ctx.as_slice().to_vec()]
    }
    pub fn g_locked_pwhash() -> Vec<Vec<u8>> {
        let ph: dryoc::pwhash::protected::LockedPwHash = PwHash::hash(&b"password".to_vec(), min_cfg()).unwrap();
        let (_, salt, _) = ph.into_parts();
        vec![salt.as_slice().to_vec()]
    }
}

fn entry_points() -> Vec<(&'static str, Gen)> {
    #[allow(unused_mut)]
    let mut v: Vec<(&'static str, Gen)> = vec![
        ("[u8;32]::gen", g_arr32),
        ("[u8;16]::gen", g_arr16),
        ("[u8;24]::gen", g_arr24),
        ("[u8;8]::gen", g_arr8),
        ("StackByteArray<32>::gen", g_stack32),
        ("StackByteArray<64>::gen", g_stack64),
        ("StackByteArray<24>::gen", g_stack24),
        ("Vec<u8>::gen<32>", g_vec32),
        ("Vec<u8>::gen<24>", g_vec24),
        ("randombytes_buf", g_randombytes_buf),
        ("copy_randombytes", g_copy_randombytes),
        ("randombytes_buf(255..4097)", g_randombytes_buf_long),
        ("copy_randombytes(258..5000)", g_copy_randombytes_long),
        ("gen()/salt of 257..600 bytes", g_long_containers),
        ("crypto_secretbox_keygen(+inplace)", g_secretbox_keygen),
        ("crypto_auth_keygen", g_auth_keygen),
        ("crypto_onetimeauth_keygen", g_onetimeauth_keygen),
        ("crypto_shorthash_keygen", g_shorthash_keygen),
        ("crypto_generichash_keygen", g_generichash_keygen),
        ("crypto_kdf_keygen", g_kdf_keygen),
        ("crypto_secretstream_xchacha20poly1305_keygen", g_stream_keygen),
        ("crypto_box_keypair", g_box_keypair),
        ("crypto_box_keypair_inplace", g_box_keypair_inplace),
        ("crypto_kx_keypair", g_kx_keypair),
        ("crypto_sign_keypair", g_sign_keypair),
        ("crypto_sign_keypair_inplace", g_sign_keypair_inplace),
        ("KeyPair<Stack,Stack>::gen", g_keypair_gen),
        ("KeyPair<Vec,Vec>::gen", g_keypair_gen_vec),
        ("KeyPair::gen_with_defaults", g_keypair_gen_with_defaults),
        ("SigningKeyPair::gen", g_signing_keypair_gen),
        ("SigningKeyPair::gen_with_defaults", g_signing_keypair_gen_with_defaults),
        ("Kdf::gen", g_kdf_gen),
        ("Kdf::gen_with_defaults", g_kdf_gen_with_defaults),
        ("Kdf<Vec,Vec>::gen", g_kdf_gen_vec),
        ("crypto_box_seal(ephemeral pk, ciphertext)", g_box_seal),
        ("DryocBox::seal(ephemeral pk)", g_dryocbox_seal),
        ("crypto_secretstream_xchacha20poly1305_init_push(header)", g_init_push),
        ("DryocStream::init_push(header)", g_dryocstream_init_push),
        ("PwHash::hash(salt, hash)", g_pwhash_hash),
        ("PwHash::hash(salt_length=24)", g_pwhash_hash_salt24),
        ("crypto_pwhash_str(salt, hash)", g_pwhash_str),
    ];
    #[cfg(feature = "nightly")]
    {
        v.push(("HeapByteArray<32>::gen", ni::g_heap32));
        v.push(("HeapByteArray<32>::gen_locked", ni::g_gen_locked));
        v.push(("HeapByteArray<32>::gen_readonly_locked", ni::g_gen_readonly_locked));
        v.push(("Locked<HeapByteArray<32>>::gen", ni::g_locked_gen));
        v.push(("KeyPair::gen_locked_keypair", ni::g_gen_locked_keypair));
        v.push(("KeyPair::gen_readonly_locked_keypair", ni::g_gen_readonly_locked_keypair));
        v.push(("SigningKeyPair::gen_locked_keypair", ni::g_signing_gen_locked_keypair));
        v.push(("SigningKeyPair::gen_readonly_locked_keypair", ni::g_signing_gen_readonly_locked_keypair));
        v.push(("LockedKdf::gen", ni::g_locked_kdf_gen));
        v.push(("LockedPwHash::hash(salt)", ni::g_locked_pwhash));
    }
    v
}

/// conservation between what an entry point returns and what the process drew from the kernel: run under strace (see
/// props._c11_strace), each call is bracketed by marker system calls (a write to fd -1, which fails and is logged);
/// the orchestrator sums the getrandom(2) results between the markers and compares with the bytes returned
fn draw_probe(eps: &[(&'static str, Gen)]) {
    fn mark(text: &str) {
        unsafe { libc::write(-1, text.as_ptr() as *const libc::c_void, text.len()) };
    }
    // large raw requests as well: a generator that stretches a short seed only shows beyond some size
    let big: [(&'static str, Gen); 3] = [
        ("randombytes_buf(1025)", || vec![randombytes_buf(1025)]),
        ("randombytes_buf(70000)", || vec![randombytes_buf(70_000)]),
        ("copy_randombytes(5000)", || {
            let mut b = vec![0u8; 5000];
            copy_randombytes(&mut b);
            vec![b]
        }),
    ];
    for (name, f) in eps.iter().chain(big.iter()) {
        let lname = name.to_lowercase();
        // only entry points whose every returned byte is raw randomness
        if lname.contains("keypair") || lname.contains("seal") || lname.contains("pwhash") || lname.contains("heap") || lname.contains("locked") || lname.contains("257..600") {
            continue;
        }
        for rep in 0..2 {
            mark(&format!("VMARK|BEGIN|{}|{}", name, rep));
            let vals = f();
            let total: usize = vals.iter().map(|v| v.len()).sum();
            mark(&format!("VMARK|END|{}|{}|{}", name, rep, total));
        }
    }
}

pub fn run(cx: &mut Ctx) {
    if cx.opt("draw_probe").is_some() {
        draw_probe(&entry_points());
        return;
    }
    let n = cx.tier.pick(24usize, 256, 4096);
    let only_nightly = cx.opt("nightly_forms_only").is_some();
    let eps = entry_points();
    for (ei, (name, f)) in eps.iter().enumerate() {
        if !cx.mine(ei as u64 + 1) {
            continue;
        }
        let is_ni = name.contains("Heap") || name.to_lowercase().contains("locked");
        if only_nightly && !is_ni {
            continue;
        }
        // outputs[component][call]
        let mut outputs: Vec<Vec<Vec<u8>>> = Vec::new();
        let mut failed = false;
        for call_i in 0..n {
            match guard(name, || f()) {
                Ok(vals) => {
                    if outputs.is_empty() {
                        outputs = vals.iter().map(|_| Vec::new()).collect();
                    }
                    for (c, v) in vals.into_iter().enumerate() {
                        outputs[c].push(v);
                    }
                }
                Err(p) => {
                    cx.violation(&format!("C11|{}|panic", name), json!({"call":call_i,"panic":p.msg}));
                    failed = true;
                    break;
                }
            }
        }
        if failed {
            continue;
        }
        cx.cover("entry_point", name);
        cx.key(name);
        // the values returned by one call are independent of each other too: no value (or its first 8 bytes) may occur
        // inside another value of the same call (sealed boxes carry the ephemeral key in the ciphertext and signing secret
        // keys embed the public key by definition: those pairs are not judged)
        {
            let lname = name.to_lowercase();
            if outputs.len() >= 2 && !lname.contains("seal") && !lname.contains("sign") {
                cx.eval();
                let mut related = 0usize;
                let mut example = String::new();
                for call_i in 0..n {
                    'pairs: for a in 0..outputs.len() {
                        for b in 0..outputs.len() {
                            if a == b {
                                continue;
                            }
                            let (va, vb) = (&outputs[a][call_i], &outputs[b][call_i]);
                            if va.len() < 8 || vb.len() < 8 {
                                continue;
                            }
                            let needle = &va[..8];
                            if vb.windows(8).any(|w| w == needle) {
                                related += 1;
                                if example.is_empty() {
                                    example = format!("component {} starts with bytes that occur in component {}: {} / {}", a, b, hx(&va[..va.len().min(16)]), hx(&vb[..vb.len().min(40)]));
                                }
                                break 'pairs;
                            }
                        }
                    }
                }
                if related >= 2 {
                    cx.violation(&format!("C11|{}|values_of_one_call_are_related", name), json!({"calls":n,"calls_with_related_values":related,"example":example}));
                }
                cx.cover("cross_component_independence_checked", name);
            }
        }
        for (c, vals) in outputs.iter().enumerate() {
            let len = vals[0].len();
            let comp = format!("{}#{}", name, c);
            cx.key(&comp);
            // (0) a value was actually returned: non-empty, the same length on every call, and the length the name of
            //     the entry point announces (an empty value passes every test below vacuously)
            cx.eval();
            let announced: Option<usize> = ["gen<", "Array<", "[u8;"].iter().find_map(|pat| {
                name.find(pat).and_then(|at| {
                    let digits: String = name[at + pat.len()..].chars().take_while(|ch| ch.is_ascii_digit()).collect();
                    digits.parse().ok()
                })
            });
            if len == 0 || vals.iter().any(|v| v.len() != len) || (c == 0 && announced.is_some() && announced != Some(len)) {
                cx.violation(&format!("C11|{}|{}", name, if len == 0 { "empty_value" } else { "unexpected_length" }),
                    json!({"component":c,"calls":n,"lengths":vals.iter().take(4).map(|v| v.len()).collect::<Vec<_>>(),"announced":announced}));
                continue;
            }
            // (1) no byte position is constant across the N calls
            cx.eval();
            let constant: Vec<usize> = (0..len).filter(|&i| vals.iter().all(|v| v.len() == len && v[i] == vals[0][i])).collect();
            if !constant.is_empty() {
                let all = constant.len() == len;
                cx.violation(&format!("C11|{}|{}", name, if all { "same_value_on_every_call" } else { "constant_byte_positions" }),
                    json!({"component":c,"calls":n,"constant_positions":constant.len(),"of":len,"first":hx(&vals[0]),"second":hx(&vals[1])}));
            }
            // (1b) raw random outputs (not public keys / ciphertexts / hashes derived from them): no *bit* position is
            //      stuck across the N calls (probability 2^-(N-1) per bit for a uniform source)
            let lname = name.to_lowercase();
            let derived = (lname.contains("keypair") && c == 0) || lname.contains("seal") || ((lname.contains("pwhash")) && c == 1);
            if !derived && constant.is_empty() && n >= 64 {
                cx.eval();
                let mut stuck = Vec::new();
                for i in 0..len {
                    let mut and = 0xffu8;
                    let mut or = 0u8;
                    for v in vals.iter() {
                        and &= v[i];
                        or |= v[i];
                    }
                    let s = and | !or; // bits that were always 1 or always 0
                    if s != 0 {
                        stuck.push((i, s));
                    }
                }
                if !stuck.is_empty() {
                    cx.violation(&format!("C11|{}|stuck_bit_positions", name), json!({"component":c,"calls":n,"stuck":stuck.iter().take(8).map(|(i, m)| format!("byte {} mask {:#04x}", i, m)).collect::<Vec<_>>()}));
                }
                cx.cover("bit_variability_checked", &comp);
            }
            if len >= 16 {
                // (2) no value repeats, (3) none is all-zero
                cx.eval();
                let set: HashSet<&Vec<u8>> = vals.iter().collect();
                if set.len() != vals.len() && constant.len() != len {
                    cx.violation(&format!("C11|{}|repeated_value", name), json!({"component":c,"calls":n,"distinct":set.len()}));
                }
                cx.eval();
                if vals.iter().any(|v| v.iter().all(|b| *b == 0)) && constant.len() != len {
                    cx.violation(&format!("C11|{}|all_zero_value", name), json!({"component":c,"calls":n}));
                }
                if constant.len() == len && vals[0].iter().all(|b| *b == 0) {
                    cx.violation(&format!("C11|{}|all_zero_value", name), json!({"component":c,"calls":n}));
                }
            }
            if ei % 7 == 0 && c == 0 {
                cx.sample(json!({"entry_point":name,"calls":n,"first_two_values":[hx(&vals[0]), hx(&vals[1])]}));
            }
        }
        cx.evaln(n as u64);
    }
    cx.note("calls_per_entry_point", json!(n));
    #[cfg(feature = "nightly")]
    lock_refused(cx);
    if !only_nightly {
        across_fork(cx, &eps);
        os_source_refused(cx, &eps);
        if cx.mine(77_777) && cx.tier != crate::ctx::Tier::Tiny {
            signal_storm(cx);
        }
    }
}

/// fault injection on the OS random source: in a forked child a seccomp filter makes getrandom(2) fail with EIO; every
/// entry point is then called a few times. Not returning (a panic) is fine, and so is a working fallback source; what
/// must not happen is a *returned* value that repeats or is all-zero, i.e. a buffer handed back without having been filled
fn os_source_refused(cx: &mut Ctx, eps: &[(&'static str, Gen)]) {
    if !cx.mine(88_888) {
        return;
    }
    let list: Vec<&(&'static str, Gen)> = eps.iter().filter(|(n, _)| !n.to_lowercase().contains("pwhash") && !n.contains("257..600") && !n.contains("Heap") && !n.to_lowercase().contains("locked")).collect();
    let mut fds = [0i32; 2];
    if unsafe { libc::pipe(fds.as_mut_ptr()) } != 0 {
        return;
    }
    let pid = unsafe { libc::fork() };
    if pid < 0 {
        return;
    }
    if pid == 0 {
        unsafe {
            let filter = [
                libc::BPF_STMT((libc::BPF_LD | libc::BPF_W | libc::BPF_ABS) as u16, 0),
                libc::BPF_JUMP((libc::BPF_JMP | libc::BPF_JEQ | libc::BPF_K) as u16, libc::SYS_getrandom as u32, 0, 1),
                libc::BPF_STMT((libc::BPF_RET | libc::BPF_K) as u16, libc::SECCOMP_RET_ERRNO | libc::EIO as u32),
                libc::BPF_STMT((libc::BPF_RET | libc::BPF_K) as u16, libc::SECCOMP_RET_ALLOW),
            ];
            let prog = libc::sock_fprog { len: filter.len() as u16, filter: filter.as_ptr() as *mut libc::sock_filter };
            let mut buf: Vec<u8> = Vec::with_capacity(1 << 16);
            let ok = libc::prctl(libc::PR_SET_NO_NEW_PRIVS, 1, 0, 0, 0) == 0 && libc::syscall(libc::SYS_seccomp, libc::SECCOMP_SET_MODE_FILTER, 0, &prog as *const libc::sock_fprog) == 0;
            // self-test of the injection: the system call must now fail
            let mut probe = [0u8; 8];
            let injected = ok && libc::syscall(libc::SYS_getrandom, probe.as_mut_ptr(), 8usize, 0u32) < 0;
            buf.push(injected as u8);
            if injected {
                for (_, f) in &list {
                    for _ in 0..3 {
                        match std::panic::catch_unwind(|| f()) {
                            Ok(vals) => {
                                buf.push(1);
                                buf.push(vals.len() as u8);
                                for v in vals {
                                    let v = &v[..v.len().min(64)];
                                    buf.push(v.len() as u8);
                                    buf.extend_from_slice(v);
                                }
                            }
                            Err(_) => buf.push(0),
                        }
                    }
                }
            }
            let mut off = 0usize;
            while off < buf.len() {
                let w = libc::write(fds[1], buf[off..].as_ptr() as *const libc::c_void, buf.len() - off);
                if w <= 0 {
                    break;
                }
                off += w as usize;
            }
            libc::_exit(0);
        }
    }
    unsafe { libc::close(fds[1]) };
    let mut raw: Vec<u8> = Vec::new();
    let mut chunk = [0u8; 65536];
    loop {
        let r = unsafe { libc::read(fds[0], chunk.as_mut_ptr() as *mut libc::c_void, chunk.len()) };
        if r <= 0 {
            break;
        }
        raw.extend_from_slice(&chunk[..r as usize]);
    }
    unsafe { libc::close(fds[0]) };
    let mut status = 0i32;
    unsafe { libc::waitpid(pid, &mut status, 0) };
    if raw.first() != Some(&1) {
        cx.cover("os_source_refused", "injection_not_available(seccomp refused or child died)");
        return;
    }
    let mut pos = 1usize;
    'eps: for (name, _) in &list {
        let mut per_call: Vec<Vec<Vec<u8>>> = Vec::new();
        for _ in 0..3 {
            let Some(&flag) = raw.get(pos) else { break 'eps };
            pos += 1;
            if flag == 0 {
                continue;
            }
            let Some(&nv) = raw.get(pos) else { break 'eps };
            pos += 1;
            let mut vals = Vec::new();
            for _ in 0..nv {
                let Some(&l) = raw.get(pos) else { break 'eps };
                pos += 1;
                if pos + l as usize > raw.len() {
                    break 'eps;
                }
                vals.push(raw[pos..pos + l as usize].to_vec());
                pos += l as usize;
            }
            per_call.push(vals);
        }
        cx.eval();
        if per_call.is_empty() {
            cx.cover("os_source_refused", "does_not_return");
            continue;
        }
        cx.cover("os_source_refused", "returns(values examined)");
        let ncomp = per_call[0].len();
        for c in 0..ncomp {
            let vs: Vec<&Vec<u8>> = per_call.iter().filter_map(|call| call.get(c)).filter(|v| v.len() >= 16).collect();
            if vs.is_empty() {
                continue;
            }
            let zero = vs.iter().any(|v| v.iter().all(|b| *b == 0));
            let repeated = vs.len() >= 2 && vs.iter().skip(1).any(|v| *v == vs[0]);
            // a public key derived from a repeated secret repeats as well: only judge the raw outputs and first components
            if zero || repeated {
                cx.violation(&format!("C11|{}|returns_unfilled_value_when_os_random_source_fails", name), json!({"component":c,"calls_that_returned":per_call.len(),"all_zero":zero,"repeated":repeated,"first":hx(vs[0])}));
                break;
            }
        }
    }
}

/// fault injection on memory locking: the in-binary mlock interposer (see prot.rs) refuses lock requests from the k-th on,
/// with the errno values mlock(2) documents. The constructors that generate straight into locked memory are then called.
/// Not returning a value (a panic, an Err) is fine; what must not happen is a *returned* value that is all-zero or repeats,
/// i.e. a region handed back without the random bytes in it.
#[cfg(feature = "nightly")]
fn lock_refused(cx: &mut Ctx) {
    use dryoc::protected::*;
    if !cx.mine(66_666) {
        return;
    }
    let forms: Vec<(&'static str, Gen)> = vec![
        ("Locked<HeapByteArray<32>>::gen", ni::g_locked_gen),
        ("Locked<HeapByteArray<24>>::gen", || vec![<Locked<HeapByteArray<24>> as NewByteArray<24>>::gen().as_slice().to_vec()]),
        ("Locked<HeapByteArray<64>>::gen", || vec![<Locked<HeapByteArray<64>> as NewByteArray<64>>::gen().as_slice().to_vec()]),
        ("LockedKdf::gen", ni::g_locked_kdf_gen),
        ("KeyPair<Locked,Locked>::gen", || {
            let kp = dryoc::keypair::KeyPair::<Locked<HeapByteArray<32>>, Locked<HeapByteArray<32>>>::gen();
            vec![kp.secret_key.as_slice().to_vec(), kp.public_key.as_slice().to_vec()]
        }),
        ("HeapByteArray<32>::gen_locked", || HeapByteArray::<32>::gen_locked().map(|r| vec![r.as_slice().to_vec()]).unwrap_or_default()),
        ("HeapByteArray<32>::gen_readonly_locked", || HeapByteArray::<32>::gen_readonly_locked().map(|r| vec![r.as_slice().to_vec()]).unwrap_or_default()),
        ("KeyPair::gen_locked_keypair", || {
            dryoc::keypair::KeyPair::<Locked<HeapByteArray<32>>, Locked<HeapByteArray<32>>>::gen_locked_keypair().map(|kp| vec![kp.secret_key.as_slice().to_vec()]).unwrap_or_default()
        }),
    ];
    for (name, f) in forms.iter() {
        for fail_from in [0i64, 1, 2, 5] {
            let mut returned: Vec<Vec<Vec<u8>>> = Vec::new();
            let mut not_returned = 0usize;
            super::prot::mlock_reset(fail_from);
            let errno = super::prot::mlock_errno_name();
            for _ in 0..8 {
                match guard(name, || f()) {
                    Ok(v) if !v.is_empty() => returned.push(v),
                    _ => not_returned += 1,
                }
            }
            let refusals = super::prot::mlock_refused();
            super::prot::mlock_reset(-1);
            cx.eval();
            if refusals == 0 {
                cx.cover("lock_refused", "no_lock_request_was_refused");
                continue;
            }
            cx.cover("lock_refused_errno", errno);
            cx.cover("lock_refused", if not_returned > 0 { "no_value_returned(panic or Err)" } else { "value_returned_although_refused" });
            if returned.is_empty() {
                continue;
            }
            let ncomp = returned[0].len();
            for c in 0..ncomp {
                let vs: Vec<&Vec<u8>> = returned.iter().filter_map(|call| call.get(c)).filter(|v| v.len() >= 16).collect();
                if vs.is_empty() {
                    continue;
                }
                let zero = vs.iter().any(|v| v.iter().all(|b| *b == 0));
                let set: HashSet<&Vec<u8>> = vs.iter().cloned().collect();
                if zero || set.len() != vs.len() {
                    cx.violation(&format!("C11|{}|returns_unfilled_value_when_memory_lock_is_refused", name), json!({"component":c,"lock_requests_refused_from":fail_from,"errno":errno,"calls_that_returned":returned.len(),"calls_that_did_not":not_returned,"all_zero":zero,"distinct":set.len(),"first":hx(vs[0])}));
                    break;
                }
            }
        }
    }
}

extern "C" fn noop_handler(_: libc::c_int) {}

/// large draws while the drawing thread is hit by a handled signal every few microseconds: the kernel may answer a big
/// getrandom(2) request partially; the library has to keep asking until the buffer is full
fn signal_storm(cx: &mut Ctx) {
    use std::sync::atomic::{AtomicBool, Ordering};
    use std::sync::Arc;
    let big = cx.tier.pick(1usize << 20, 16 << 20, 48 << 20);
    unsafe {
        let mut sa: libc::sigaction = std::mem::zeroed();
        sa.sa_sigaction = noop_handler as *const () as usize;
        sa.sa_flags = 0; // no SA_RESTART
        libc::sigaction(libc::SIGUSR1, &sa, std::ptr::null_mut());
    }
    let me = unsafe { libc::pthread_self() } as usize;
    let stop = Arc::new(AtomicBool::new(false));
    let stop2 = stop.clone();
    let sent = Arc::new(std::sync::atomic::AtomicUsize::new(0));
    let sent2 = sent.clone();
    let t = std::thread::spawn(move || {
        while !stop2.load(Ordering::SeqCst) {
            unsafe { libc::pthread_kill(me as libc::pthread_t, libc::SIGUSR1) };
            sent2.fetch_add(1, Ordering::SeqCst);
            std::thread::sleep(std::time::Duration::from_micros(30));
        }
    });
    let mut bufs: Vec<(String, Vec<u8>)> = Vec::new();
    let r = guard("signal_storm", || {
        let mut out = Vec::new();
        for i in 0..3 {
            out.push((format!("randombytes_buf#{}", i), randombytes_buf(big)));
        }
        let mut b = vec![0u8; big];
        copy_randombytes(&mut b);
        out.push(("copy_randombytes".to_string(), b));
        out
    });
    stop.store(true, Ordering::SeqCst);
    let _ = t.join();
    unsafe {
        libc::signal(libc::SIGUSR1, libc::SIG_IGN);
    }
    match r {
        Ok(v) => bufs = v,
        Err(p) => cx.violation("C11|randombytes_buf|panic|under_signal_storm", json!({"panic":p.msg})),
    }
    for (name, b) in &bufs {
        cx.eval();
        if b.len() != big {
            cx.violation("C11|randombytes_buf|unexpected_length|under_signal_storm", json!({"what":name,"len":b.len(),"want":big}));
            continue;
        }
        let mut empty = 0usize;
        let nwin = b.len() / 4096;
        for w in 0..nwin {
            if b[w * 4096..(w + 1) * 4096].iter().all(|x| *x == 0) {
                empty += 1;
            }
        }
        if empty > 0 {
            cx.violation("C11|randombytes_buf|undrawn_region_in_large_request|under_signal_storm", json!({"what":name,"request":big,"all_zero_4k_windows":empty,"of":nwin,"signals_sent":sent.load(Ordering::SeqCst)}));
        }
    }
    for i in 1..bufs.len() {
        cx.eval();
        if bufs[i].1.len() == big && bufs[0].1.len() == big && (0..big / 4096).any(|w| bufs[i].1[w * 4096..(w + 1) * 4096] == bufs[0].1[w * 4096..(w + 1) * 4096]) {
            cx.violation("C11|randombytes_buf|repeated_region_in_large_requests|under_signal_storm", json!({"request":big}));
        }
    }
    cx.cover("signal_storm", &format!("request={} MiB", big >> 20));
    cx.note("signal_storm", json!({"signals_sent":sent.load(Ordering::SeqCst),"request_bytes":big}));
}

/// freshness across fork(2): the library is used once (so that any user-space pool or cached state exists), the process
/// forks, and parent and child both draw; a value seen on both sides means the randomness was not drawn per call
fn across_fork(cx: &mut Ctx, eps: &[(&'static str, Gen)]) {
    let rounds = cx.tier.pick(1usize, 2, 8);
    for (ei, (name, f)) in eps.iter().enumerate() {
        if !cx.mine(1000 + ei as u64) {
            continue;
        }
        if name.contains("pwhash") || name.contains("PwHash") || name.contains("257..600") {
            continue; // costly per call; their salt comes from the same source as the cheaper entry points
        }
        for round in 0..rounds {
            let primed = guard(name, || f());
            if primed.is_err() {
                break;
            }
            let mut fds = [0i32; 2];
            if unsafe { libc::pipe(fds.as_mut_ptr()) } != 0 {
                cx.violation("HARNESS|C11|pipe_failed", json!({}));
                return;
            }
            let pid = unsafe { libc::fork() };
            if pid < 0 {
                cx.violation("HARNESS|C11|fork_failed", json!({}));
                return;
            }
            if pid == 0 {
                // child: draw, write length-prefixed values, leave without running destructors or flushing logs
                let mut buf: Vec<u8> = Vec::new();
                for _ in 0..3 {
                    for v in f() {
                        buf.extend_from_slice(&(v.len() as u32).to_le_bytes());
                        buf.extend_from_slice(&v);
                    }
                }
                let mut off = 0usize;
                while off < buf.len() {
                    let w = unsafe { libc::write(fds[1], buf[off..].as_ptr() as *const libc::c_void, buf.len() - off) };
                    if w <= 0 {
                        break;
                    }
                    off += w as usize;
                }
                unsafe { libc::_exit(0) };
            }
            unsafe { libc::close(fds[1]) };
            let mut mine: Vec<Vec<u8>> = Vec::new();
            for _ in 0..3 {
                if let Ok(vs) = guard(name, || f()) {
                    mine.extend(vs);
                }
            }
            let mut raw: Vec<u8> = Vec::new();
            let mut chunk = [0u8; 65536];
            loop {
                let r = unsafe { libc::read(fds[0], chunk.as_mut_ptr() as *mut libc::c_void, chunk.len()) };
                if r <= 0 {
                    break;
                }
                raw.extend_from_slice(&chunk[..r as usize]);
            }
            unsafe { libc::close(fds[0]) };
            let mut status = 0i32;
            unsafe { libc::waitpid(pid, &mut status, 0) };
            let mut theirs: Vec<Vec<u8>> = Vec::new();
            let mut off = 0usize;
            while off + 4 <= raw.len() {
                let l = u32::from_le_bytes(raw[off..off + 4].try_into().unwrap()) as usize;
                off += 4;
                if off + l > raw.len() {
                    break;
                }
                theirs.push(raw[off..off + l].to_vec());
                off += l;
            }
            if theirs.is_empty() || !libc::WIFEXITED(status) {
                cx.violation("HARNESS|C11|forked_child_returned_nothing", json!({"entry_point":name,"status":status}));
                continue;
            }
            cx.eval();
            let seen: HashSet<&Vec<u8>> = theirs.iter().filter(|v| v.len() >= 16).collect();
            if let Some(dup) = mine.iter().find(|v| v.len() >= 16 && seen.contains(v)) {
                cx.violation(&format!("C11|{}|same_value_in_parent_and_child_after_fork", name), json!({"round":round,"value":hx(&dup[..dup.len().min(32)]),"parent_values":mine.len(),"child_values":theirs.len()}));
            }
            cx.cover("across_fork", name);
        }
    }
}
