//! C03 — secret streams authenticate order, tags and rekeying in lockstep with libsodium.
//! Seeded random operation histories drive four machines in lockstep (dryoc push, libsodium push,
//! dryoc pull, libsodium pull); the executable sequential model is libsodium itself.

use std::collections::VecDeque;

use dryoc::classic::crypto_secretstream_xchacha20poly1305 as ss;
use dryoc::dryocstream::{DryocStream, Pull, Push, Tag};
use serde_json::{json, Value};

use super::*;
use crate::ctx::{hx, Ctx};
use crate::prng::Rng;
use crate::sodium as na;

enum DPush {
    Classic(ss::State),
    Obj(DryocStream<Push>),
}
enum DPull {
    Classic(ss::State),
    Obj(DryocStream<Pull>),
}

impl DPush {
    fn parts(&self) -> ([u8; 32], [u8; 12]) {
        match self {
            DPush::Classic(s) => s.verif_parts(),
            DPush::Obj(o) => o.verif_state().verif_parts(),
        }
    }
    fn rekey(&mut self) {
        match self {
            DPush::Classic(s) => ss::crypto_secretstream_xchacha20poly1305_rekey(s),
            DPush::Obj(o) => o.rekey(),
        }
    }
    fn push(&mut self, m: &[u8], ad: Option<&[u8]>, tag: u8) -> Result<Vec<u8>, String> {
        match self {
            DPush::Classic(s) => {
                let mut c = stale(m.len() + 17);
                ss::crypto_secretstream_xchacha20poly1305_push(s, &mut c, m, ad, tag).map_err(|e| e.to_string())?;
                Ok(c)
            }
            DPush::Obj(o) => {
                let adv = ad.map(|a| a.to_vec());
                o.push_to_vec(&m.to_vec(), adv.as_ref(), Tag::from_bits_retain(tag)).map_err(|e| e.to_string())
            }
        }
    }
}

impl DPull {
    fn parts(&self) -> ([u8; 32], [u8; 12]) {
        match self {
            DPull::Classic(s) => s.verif_parts(),
            DPull::Obj(o) => o.verif_state().verif_parts(),
        }
    }
    fn state_clone(&self) -> ss::State {
        match self {
            DPull::Classic(s) => s.clone(),
            DPull::Obj(o) => o.verif_state().clone(),
        }
    }
    fn state_eq(&self, other: &ss::State) -> bool {
        match self {
            DPull::Classic(s) => s == other,
            DPull::Obj(o) => o.verif_state() == other,
        }
    }
    fn rekey(&mut self) {
        match self {
            DPull::Classic(s) => ss::crypto_secretstream_xchacha20poly1305_rekey(s),
            DPull::Obj(o) => o.rekey(),
        }
    }
    /// classic API only: the genuine ciphertext pulled into a message buffer that is too short for it
    fn pull_short_buffer(&mut self, c: &[u8], ad: Option<&[u8]>, buflen: usize) -> Option<Result<(Vec<u8>, u8), String>> {
        match self {
            DPull::Classic(s) => {
                let mut m = stale(buflen);
                let mut tag = 0xEEu8;
                Some(ss::crypto_secretstream_xchacha20poly1305_pull(s, &mut m, &mut tag, c, ad).map(|_| (m, tag)).map_err(|e| e.to_string()))
            }
            DPull::Obj(_) => None,
        }
    }
    fn pull(&mut self, c: &[u8], ad: Option<&[u8]>) -> Result<(Vec<u8>, u8), String> {
        match self {
            DPull::Classic(s) => {
                let mut m = stale(c.len().saturating_sub(17));
                let mut tag = 0xEEu8;
                ss::crypto_secretstream_xchacha20poly1305_pull(s, &mut m, &mut tag, c, ad).map_err(|e| e.to_string())?;
                Ok((m, tag))
            }
            DPull::Obj(o) => {
                let adv = ad.map(|a| a.to_vec());
                let (m, t) = o.pull_to_vec(&c.to_vec(), adv.as_ref()).map_err(|e| e.to_string())?;
                Ok((m, t.bits()))
            }
        }
    }
}

#[derive(Clone)]
enum Item {
    Ct { ct: Vec<u8>, ad: Option<Vec<u8>>, msg: Vec<u8>, tag: u8, foreign: Vec<u8> },
    Rekey,
}

fn counter_of(nonce: &[u8; 12]) -> u32 {
    u32::from_le_bytes([nonce[0], nonce[1], nonce[2], nonce[3]])
}

struct Hist<'a> {
    cx: &'a mut Ctx,
    id: String,
    api: &'static str,
    trace: Vec<Value>,
    failed: bool,
}

impl<'a> Hist<'a> {
    fn viol(&mut self, sig: &str, extra: Value) {
        self.failed = true;
        let t: Vec<Value> = self.trace.iter().rev().take(30).rev().cloned().collect();
        self.cx.violation(sig, json!({"history":self.id,"api":self.api,"detail":extra,"trace_tail":t}));
    }
    fn same(&mut self, sig: &str, a: &[u8], b: &[u8], what: &str) -> bool {
        self.cx.eval();
        if a != b {
            self.viol(sig, json!({"what":what,"dryoc":hx(&a[..a.len().min(80)]),"libsodium":hx(&b[..b.len().min(80)])}));
            false
        } else {
            true
        }
    }
}

const KINDS: [&str; 8] = ["replay", "skip", "swap", "foreign", "wrong_ad", "bit_flip", "short_ciphertext", "short_buffer"];
const ADLENS: [Option<usize>; 7] = [None, Some(0), Some(1), Some(15), Some(16), Some(17), Some(300)];

fn run_history(cx: &mut Ctx, rng: &mut Rng, hid: u64, depth: usize, class: usize, use_obj: bool, log_offline: bool) {
    let key: [u8; 32] = rng.arr();
    // ---- initialisation, alternating which library picks the header
    // the State object handed to init is, in half of the histories, one that already served another stream (any key, any
    // counter, possibly rekeyed): initialisation must not depend on what the object held before
    let used_state = |rng: &mut Rng| -> ss::State {
        if rng.chance(1, 2) {
            ss::State::new()
        } else {
            let mut n = [0u8; 12];
            rng.fill(&mut n);
            ss::State::verif_from_parts(rng.arr(), n)
        }
    };
    let (header, dpush0, npush0) = if hid % 2 == 0 {
        let mut st = used_state(rng);
        let mut header = stale_arr::<24>();
        ss::crypto_secretstream_xchacha20poly1305_init_push(&mut st, &mut header, &key);
        let n = na::stream_init_pull(&header, &key); // same derivation as init_push with this header
        (header, st, n)
    } else {
        let (n, header) = na::stream_init_push(&key);
        let mut st = used_state(rng);
        ss::crypto_secretstream_xchacha20poly1305_init_pull(&mut st, &header, &key);
        (header, st, n)
    };
    let api: &'static str = if use_obj { "DryocStream" } else { "classic" };
    let mut h = Hist { cx, id: format!("h{}", hid), api, trace: Vec::new(), failed: false };
    {
        let (k, n) = dpush0.verif_parts();
        h.same("C03|init|state_differs_from_libsodium", &[&k[..], &n[..]].concat(), &[&npush0.k[..], &npush0.nonce[..]].concat(), "state after init");
    }
    // ---- counter class
    let (k0, mut n0) = dpush0.verif_parts();
    let cname = ["fresh", "midrange", "0xfffffffe", "0xffffffff"][class];
    let c0: u32 = match class {
        0 => 1,
        1 => rng.u32() | 0x100,
        2 => 0xffff_fffe,
        _ => 0xffff_ffff,
    };
    n0[..4].copy_from_slice(&c0.to_le_bytes());
    h.cx.cover("counter_class", cname);
    let mk = || ss::State::verif_from_parts(k0, n0);
    let (mut dpush, mut dpull) = if use_obj {
        (DPush::Obj(DryocStream::<Push>::verif_from_state(mk())), DPull::Obj(DryocStream::<Pull>::verif_from_state(mk())))
    } else {
        (DPush::Classic(mk()), DPull::Classic(mk()))
    };
    let mut npush = na::stream_state(k0, n0);
    let mut npull = na::stream_state(k0, n0);
    // a foreign stream: same key, different header, same counter, same push sequence
    let mut fheader = header;
    fheader[rng.below(24)] ^= 1 << rng.below(8);
    let mut nforeign = na::stream_init_pull(&fheader, &key);
    nforeign.nonce[..4].copy_from_slice(&c0.to_le_bytes());

    let mut pending: VecDeque<Item> = VecDeque::new();
    let mut accepted: Vec<(Vec<u8>, Option<Vec<u8>>)> = Vec::new();
    let mut rekeys_seen_pull = 0usize;
    let mut off_ops: Vec<Value> = Vec::new();
    h.trace.push(json!({"op":"init","key":hx(&key),"header":hx(&header),"counter":c0,"api":api}));

    for step in 0..depth {
        if h.failed {
            return;
        }
        let choice = rng.below(100);
        let have_ct = pending.iter().filter(|i| matches!(i, Item::Ct { .. })).count();
        if choice < 40 || pending.is_empty() && choice < 90 {
            // ---------------------------------------------------------------- push
            let len = match rng.below(4) {
                0 => rng.range(0, 70),
                1 => rng.range(0, 8) * 64 + rng.range(0, 63),
                2 => rng.range(0, 300),
                _ => rng.range(0, 15) + 16 * rng.range(0, 5),
            };
            let adlen = *rng.pick(&ADLENS);
            // any tag byte, through both APIs (the object API's Tag type carries unknown bits unchanged)
            let tag: u8 = if rng.chance(1, 2) { *rng.pick(&[0u8, 1, 2, 3]) } else { rng.u8() };
            let msg = rng.bytes(len);
            let ad = adlen.map(|n| rng.bytes(n));
            let before = counter_of(&dpush.parts().1);
            let r = guard("push", || dpush.push(&msg, ad.as_deref(), tag));
            let nct = na::stream_push(&mut npush, &msg, ad.as_deref(), tag);
            let fct = na::stream_push(&mut nforeign, &msg, ad.as_deref(), tag);
            h.trace.push(json!({"op":"push","len":len,"adlen":adlen,"tag":tag,"counter_before":before}));
            match r {
                Err(p) => {
                    h.viol(&format!("C03|{}::push|panic", api), json!(p.msg));
                    return;
                }
                Ok(Err(e)) => {
                    h.viol(&format!("C03|{}::push|unexpected_err", api), json!(e));
                    return;
                }
                Ok(Ok(ct)) => {
                    h.same(&format!("C03|{}::push|ciphertext_differs_from_libsodium", api), &ct, &nct, "ciphertext");
                    let (k, n) = dpush.parts();
                    h.same(&format!("C03|{}::push|state_differs_from_libsodium", api), &[&k[..], &n[..]].concat(), &[&npush.k[..], &npush.nonce[..]].concat(), "push state");
                    if log_offline {
                        off_ops.push(json!({"op":"push","msg":hx(&msg),"ad":ad.as_ref().map(|a| hx(a)),"tag":tag,"ct":hx(&ct),"k":hx(&k),"nonce":hx(&n)}));
                    }
                    pending.push_back(Item::Ct { ct, ad, msg, tag, foreign: fct });
                }
            }
            h.cx.cover("len_mod16", &format!("{}", len % 16));
            h.cx.cover("len_mod64", &format!("{}", len % 64));
            h.cx.cover("adlen", &format!("{:?}", adlen));
            h.cx.cover("tag_class", if tag < 4 { ["MESSAGE", "PUSH", "REKEY", "FINAL"][tag as usize] } else if tag & 2 != 0 { "other(rekey bit)" } else { "other(no rekey bit)" });
            if tag & 2 != 0 {
                h.cx.cover("auto_rekey", "by_tag");
            }
            if before == 0xffff_ffff {
                h.cx.cover("auto_rekey", "by_counter_wrap");
                h.same(&format!("C03|{}::push|no_rekey_on_counter_wrap", api), &counter_of(&dpush.parts().1).to_le_bytes(), &1u32.to_le_bytes(), "counter after wrap");
            }
        } else if choice < 48 {
            // ------------------------------------------------------- explicit rekey
            dpush.rekey();
            na::stream_rekey(&mut npush);
            na::stream_rekey(&mut nforeign);
            let (k, n) = dpush.parts();
            h.same(&format!("C03|{}::rekey|state_differs_from_libsodium", api), &[&k[..], &n[..]].concat(), &[&npush.k[..], &npush.nonce[..]].concat(), "state after rekey");
            pending.push_back(Item::Rekey);
            h.trace.push(json!({"op":"rekey"}));
            if log_offline {
                off_ops.push(json!({"op":"rekey","k":hx(&k),"nonce":hx(&n)}));
            }
            h.cx.cover("explicit_rekey", "done");
        } else {
            // ------------------------------------------------------------- delivery
            // a pending explicit rekey at the front is applied first
            while let Some(Item::Rekey) = pending.front() {
                pending.pop_front();
                dpull.rekey();
                na::stream_rekey(&mut npull);
                rekeys_seen_pull += 1;
                h.trace.push(json!({"op":"pull-side rekey"}));
            }
            let Some(Item::Ct { ct, ad, msg, tag, foreign }) = pending.front().cloned() else { continue };
            let wrong = choice >= 70;
            if wrong {
                let kind = *rng.pick(&KINDS);
                // build the out-of-position delivery
                let bad: Option<(Vec<u8>, Option<Vec<u8>>)> = match kind {
                    "replay" => accepted.last().cloned().or_else(|| None),
                    "skip" | "swap" => pending.iter().skip(1).find_map(|i| if let Item::Ct { ct, ad, .. } = i { Some((ct.clone(), ad.clone())) } else { None }),
                    "foreign" => Some((foreign.clone(), ad.clone())),
                    // refusals that are not authentication failures: too short to hold a tag byte and a MAC, and the
                    // genuine ciphertext offered with a message buffer that cannot hold its plaintext
                    "short_ciphertext" => Some((ct[..rng.below(17).min(ct.len())].to_vec(), ad.clone())),
                    "short_buffer" => {
                        if use_obj || ct.len() <= 17 {
                            None
                        } else {
                            Some((ct.clone(), ad.clone()))
                        }
                    }
                    "wrong_ad" => {
                        let nad = match &ad {
                            None => Some(vec![0u8]),
                            Some(a) if a.is_empty() => Some(vec![0u8]),
                            Some(a) => match rng.below(3) {
                                0 => None,
                                1 => {
                                    let mut b = a.clone();
                                    let i = rng.below(b.len());
                                    b[i] ^= 1 << rng.below(8);
                                    Some(b)
                                }
                                _ => Some(a[..a.len() - 1].to_vec()),
                            },
                        };
                        Some((ct.clone(), nad))
                    }
                    _ => {
                        let mut b = ct.clone();
                        let bit = rng.below(b.len() * 8);
                        b[bit / 8] ^= 1 << (bit % 8);
                        Some((b, ad.clone()))
                    }
                };
                let Some((bct, bad_ad)) = bad else { continue };
                let _ = have_ct;
                // sanity: the model must reject it too (on a copy, libsodium's pull leaves state alone on failure)
                let mut ncopy = na::stream_state(npull.k, npull.nonce);
                if kind != "short_buffer" && na::stream_pull(&mut ncopy, &bct, bad_ad.as_deref()).is_some() {
                    // e.g. identical consecutive pushes after... cannot happen with distinct nonces; treat as harness problem
                    h.cx.violation("HARNESS|C03|libsodium_accepts_wrong_delivery", json!({"kind":kind}));
                    continue;
                }
                let snap = dpull.state_clone();
                let parts_before = dpull.parts();
                h.trace.push(json!({"op":"deliver-wrong","kind":kind,"ctlen":bct.len()}));
                let short_len = if bct.len() > 17 { rng.below(bct.len() - 17) } else { 0 };
                let r = if kind == "short_buffer" {
                    guard("pull(short buffer)", || dpull.pull_short_buffer(&bct, bad_ad.as_deref(), short_len).expect("classic"))
                } else {
                    guard("pull(wrong)", || dpull.pull(&bct, bad_ad.as_deref()))
                };
                h.cx.eval();
                match r {
                    Err(p) => {
                        h.viol(&format!("C03|{}::pull|panic", api), json!(p.msg));
                        return;
                    }
                    Ok(Ok(_)) => {
                        h.viol(&format!("C03|{}::pull|accepts_out_of_position_ciphertext|{}", api, kind), json!({"kind":kind}));
                        return;
                    }
                    Ok(Err(_)) => {}
                }
                let phase = if rekeys_seen_pull > 0 || counter_of(&parts_before.1) == 1 && c0 != 1 { "after_rekey" } else { "before_rekey" };
                h.cx.cover("wrong_delivery", &format!("{}|{}", kind, phase));
                h.cx.eval();
                if !dpull.state_eq(&snap) || dpull.parts() != parts_before {
                    h.viol(&format!("C03|{}::pull|rejected_pull_changed_state", api), json!({"kind":kind}));
                    return;
                }
            }
            // in-order delivery of the genuine next ciphertext (also right after a rejection)
            pending.pop_front();
            let before = counter_of(&dpull.parts().1);
            let r = guard("pull", || dpull.pull(&ct, ad.as_deref()));
            let nres = na::stream_pull(&mut npull, &ct, ad.as_deref());
            h.trace.push(json!({"op":"deliver-in-order","ctlen":ct.len(),"after_rejection":wrong}));
            h.cx.eval();
            match r {
                Err(p) => {
                    h.viol(&format!("C03|{}::pull|panic", api), json!(p.msg));
                    return;
                }
                Ok(Err(e)) => {
                    let sig = if wrong { format!("C03|{}::pull|genuine_ciphertext_refused_after_rejection", api) } else { format!("C03|{}::pull|in_order_ciphertext_refused", api) };
                    h.viol(&sig, json!({"err":e,"libsodium_accepts":nres.is_some()}));
                    return;
                }
                Ok(Ok((m, t))) => {
                    if m != msg || t != tag {
                        h.viol(&format!("C03|{}::pull|wrong_message_or_tag", api), json!({"want_tag":tag,"got_tag":t}));
                        return;
                    }
                    match nres {
                        Some((nm, nt)) => {
                            h.same(&format!("C03|{}::pull|message_differs_from_libsodium", api), &m, &nm, "message");
                            h.same(&format!("C03|{}::pull|tag_differs_from_libsodium", api), &[t], &[nt], "tag");
                        }
                        None => h.cx.violation("HARNESS|C03|libsodium_refuses_in_order", json!({})),
                    }
                    let (k, n) = dpull.parts();
                    h.same(&format!("C03|{}::pull|state_differs_from_libsodium", api), &[&k[..], &n[..]].concat(), &[&npull.k[..], &npull.nonce[..]].concat(), "pull state");
                    if tag & 2 != 0 || before == 0xffff_ffff {
                        rekeys_seen_pull += 1;
                    }
                    if log_offline {
                        off_ops.push(json!({"op":"pull","k":hx(&k),"nonce":hx(&n)}));
                    }
                    accepted.push((ct, ad));
                }
            }
        }
        let _ = step;
    }
    if log_offline && !h.failed {
        h.cx.io("stream_history", json!({"key":hx(&key),"header":hx(&header),"counter":c0,"k0":hx(&k0),"nonce0":hx(&n0),"ops":off_ops}));
    }
    if hid % 997 == 3 {
        let t = h.trace.clone();
        h.cx.sample(json!({"history":format!("h{}", hid),"api":api,"counter_class":cname,"ops":t}));
    }
}

pub fn run(cx: &mut Ctx) {
    let nhist = cx.tier.pick(64usize, 6000, 1_500_000);
    let depth = 24usize; // histories with index % 5 == 0 run twice as deep
    let mut idx = 0u64;
    let mut logged = 0usize;
    for hnum in 0..nhist {
        for class in 0..4usize {
            idx += 1;
            if !cx.mine(idx) {
                continue;
            }
            let mut rng = cx.rng.fork(idx);
            let use_obj = (hnum + class) % 2 == 1;
            let log_offline = logged < 12 && (hnum % 7 == 0);
            if log_offline {
                logged += 1;
            }
            cx.key_h(idx);
            cx.cover("api", if use_obj { "DryocStream" } else { "classic" });
            run_history(cx, &mut rng, idx, if hnum % 5 == 0 { 2 * depth } else { depth }, class, use_obj, log_offline);
        }
    }
}
