//! C12 — key derivation matches libsodium for every subkey length, id and context.

use dryoc::classic::crypto_kdf::*;
use dryoc::kdf::Kdf;
use dryoc::types::*;
use serde_json::json;

use super::*;
use crate::ctx::{hx, Ctx};
use crate::sodium as na;

const IDS: [u64; 9] = [0, 1, 2, 255, 256, 0xffff_ffff, 0x1_0000_0000, 1 << 63, u64::MAX];

pub fn run(cx: &mut Ctx) {
    let reps = cx.tier.pick(1usize, 2, 600);
    let mut idx = 0u64;
    let ctxs: Vec<(&str, [u8; 8])> = vec![("zeros", [0u8; 8]), ("ff", [0xff; 8]), ("ascii", *b"Examples"), ("random", [0; 8])];
    let keys: Vec<(&str, [u8; 32])> = vec![("random", [0; 32]), ("zeros", [0u8; 32]), ("ff", [0xff; 32])];
    for rep in 0..reps {
        for (kn, k0) in &keys {
            for (cn, c0) in &ctxs {
                for idc in 0..IDS.len() + 1 {
                    idx += 1;
                    if !cx.mine(idx) {
                        continue;
                    }
                    let mut rng = cx.rng.fork(idx);
                    let key = if *kn == "random" { rng.arr::<32>() } else { *k0 };
                    let ctx8 = if *cn == "random" { rng.arr::<8>() } else { *c0 };
                    let id = if idc < IDS.len() { IDS[idc] } else { rng.u64() };
                    if rep > 0 && *kn != "random" && *cn != "random" && idc < IDS.len() {
                        continue; // deterministic cell already visited in rep 0
                    }
                    let mut by_len: Vec<(usize, Vec<u8>)> = Vec::new();
                    // accepted lengths 16..=64
                    for len in 16..=64usize {
                        let want = na::kdf_derive(len, id, &ctx8, &key).expect("libsodium accepts 16..=64");
                        let mut out = stale(len);
                        let case = || json!({"op":"crypto_kdf_derive_from_key","len":len,"id":id.to_string(),"ctx":hx(&ctx8),"key":hx(&key)});
                        cx.key(&format!("{} {} {} {} {}", rep, kn, cn, idc, len));
                        cx.cover("subkey_len", &format!("{}", len));
                        if let Some(r) = call(cx, "C12|crypto_kdf_derive_from_key", "crypto_kdf_derive_from_key", case, || crypto_kdf_derive_from_key(&mut out, id, &ctx8, &key)) {
                            match r {
                                Err(e) => cx.violation("C12|crypto_kdf_derive_from_key|rejects_valid_length", json!({"len":len,"err":e.to_string()})),
                                Ok(()) => {
                                    let sig = if len == 32 { "C12|crypto_kdf_derive_from_key|mismatch_vs_libsodium|len=32" } else { "C12|crypto_kdf_derive_from_key|mismatch_vs_libsodium|len!=32" };
                                    expect_eq(cx, sig, &out, &want, case);
                                    cx.io("kdf", json!({"len":len,"id":id.to_string(),"ctx":hx(&ctx8),"key":hx(&key),"out":hx(&out)}));
                                    by_len.push((len, out));
                                }
                            }
                        }
                    }
                    // relatedness: no subkey is a prefix of (or equal to) one of another length
                    let mut related = None;
                    for i in 0..by_len.len() {
                        for j in i + 1..by_len.len() {
                            let (la, a) = &by_len[i];
                            let (lb, b) = &by_len[j];
                            cx.eval();
                            if b[..*la] == a[..] {
                                related = Some((*la, *lb));
                            }
                        }
                    }
                    if let Some((la, lb)) = related {
                        cx.violation("C12|crypto_kdf_derive_from_key|subkeys_of_different_length_related", json!({"len_a":la,"len_b":lb,"id":id.to_string(),"ctx":hx(&ctx8),"key":hx(&key)}));
                    }
                    // rejected lengths
                    for len in (0..=15usize).chain(65..=80) {
                        let mut out = stale(len);
                        let case = || json!({"op":"crypto_kdf_derive_from_key","len":len});
                        cx.cover("rejected_len", &format!("{}", len));
                        if let Some(r) = call(cx, "C12|crypto_kdf_derive_from_key", "crypto_kdf_derive_from_key", case, || crypto_kdf_derive_from_key(&mut out, id, &ctx8, &key)) {
                            let na_rej = na::kdf_derive(len, id, &ctx8, &key).is_none();
                            expect(cx, "C12|crypto_kdf_derive_from_key|accepts_invalid_length", r.is_err() && na_rej, case);
                        }
                    }
                    // different id / context give different subkeys (32 bytes)
                    {
                        let mut a = stale_arr::<32>();
                        let mut b = stale_arr::<32>();
                        let mut c = stale_arr::<32>();
                        let id2 = id ^ (1u64 << rng.below(64));
                        let mut ctx2 = ctx8;
                        ctx2[rng.below(8)] ^= 1 << rng.below(8);
                        let _ = crypto_kdf_derive_from_key(&mut a, id, &ctx8, &key);
                        let _ = crypto_kdf_derive_from_key(&mut b, id2, &ctx8, &key);
                        let _ = crypto_kdf_derive_from_key(&mut c, id, &ctx2, &key);
                        expect(cx, "C12|crypto_kdf_derive_from_key|different_id_same_subkey", a != b, || json!({"id":id.to_string(),"id2":id2.to_string()}));
                        expect(cx, "C12|crypto_kdf_derive_from_key|different_context_same_subkey", a != c, || json!({"ctx":hx(&ctx8),"ctx2":hx(&ctx2)}));
                    }
                    // object API (32-byte subkeys, several containers)
                    {
                        let want = na::kdf_derive(32, id, &ctx8, &key).unwrap();
                        let case = || json!({"op":"Kdf::derive_subkey","id":id.to_string(),"ctx":hx(&ctx8),"key":hx(&key)});
                        let kdf = Kdf::from_parts(StackByteArray::<32>::from(key), StackByteArray::<8>::from(ctx8));
                        if let Some(r) = call(cx, "C12|Kdf::derive_subkey", "Kdf::derive_subkey", case, || kdf.derive_subkey::<StackByteArray<32>>(id)) {
                            match r {
                                Ok(s) => { expect_eq(cx, "C12|Kdf::derive_subkey|mismatch_vs_libsodium", s.as_slice(), &want, case); }
                                Err(e) => cx.violation("C12|Kdf::derive_subkey|unexpected_err", json!({"err":e.to_string()})),
                            }
                        }
                        if let Some(r) = call(cx, "C12|Kdf::derive_subkey_to_vec", "Kdf::derive_subkey_to_vec", case, || kdf.derive_subkey_to_vec(id)) {
                            match r {
                                Ok(s) => { expect_eq(cx, "C12|Kdf::derive_subkey_to_vec|mismatch_vs_libsodium", &s, &want, case); }
                                Err(e) => cx.violation("C12|Kdf::derive_subkey_to_vec|unexpected_err", json!({"err":e.to_string()})),
                            }
                        }
                        let kdf2 = Kdf::from_parts(key.to_vec(), ctx8.to_vec());
                        if let Some(r) = call(cx, "C12|Kdf<Vec>::derive_subkey", "Kdf<Vec>::derive_subkey", case, || kdf2.derive_subkey::<[u8; 32]>(id)) {
                            match r {
                                Ok(s) => { expect_eq(cx, "C12|Kdf<Vec>::derive_subkey|mismatch_vs_libsodium", &s, &want, case); }
                                Err(e) => cx.violation("C12|Kdf<Vec>::derive_subkey|unexpected_err", json!({"err":e.to_string()})),
                            }
                        }
                        // containers longer than the key / context (a Vec may hold more than the N bytes a ByteArray<N>
                        // stands for): the first 32 and 8 bytes are the key and the context
                        for (xk, xc) in [(8usize, 0usize), (0, 4), (33, 9), (1, 1)] {
                            let mut kv = key.to_vec();
                            kv.extend(std::iter::repeat(0x6b).take(xk));
                            let mut cv = ctx8.to_vec();
                            cv.extend(std::iter::repeat(0x63).take(xc));
                            let kdf3 = Kdf::from_parts(kv, cv);
                            let c3 = || json!({"case":case(),"key_container_len":32 + xk,"context_container_len":8 + xc});
                            if let Some(r) = guard("Kdf<Vec>::derive_subkey(oversized containers)", || kdf3.derive_subkey::<[u8; 32]>(id)).ok() {
                                cx.eval();
                                match r {
                                    Ok(s) if s == want[..] => {}
                                    Ok(_) => cx.violation("C12|Kdf<Vec>::derive_subkey|mismatch_vs_libsodium|oversized_containers", c3()),
                                    Err(e) => cx.violation("C12|Kdf<Vec>::derive_subkey|unexpected_err|oversized_containers", json!({"err":e.to_string(),"case":c3()})),
                                }
                            } else {
                                cx.violation("C12|Kdf<Vec>::derive_subkey|panic|oversized_containers", c3());
                            }
                            cx.cover("oversized_containers", &format!("+{},+{}", xk, xc));
                        }
                        // a cloned Kdf derives what the original derives
                        {
                            let kc = kdf.clone();
                            if let Some(r) = call(cx, "C12|Kdf::clone+derive_subkey", "Kdf::clone+derive_subkey", case, || kc.derive_subkey::<[u8; 32]>(id)) {
                                match r {
                                    Ok(s) => { expect_eq(cx, "C12|Kdf::clone+derive_subkey|mismatch_vs_libsodium", &s, &want, case); }
                                    Err(e) => cx.violation("C12|Kdf::clone+derive_subkey|unexpected_err", json!({"err":e.to_string()})),
                                }
                            }
                        }
                        let (k2, c2) = kdf.into_parts();
                        expect(cx, "C12|Kdf::into_parts|roundtrip", k2.as_slice() == key && c2.as_slice() == ctx8, case);
                    }
                    cx.cover("id_class", &(if idc < IDS.len() { format!("{:#x}", IDS[idc]) } else { "random".into() }));
                    cx.cover("context_class", cn);
                    cx.cover("key_class", kn);
                    if idc == 6 && *kn == "random" {
                        cx.sample(json!({"key":hx(&key),"ctx":hx(&ctx8),"id":id.to_string(),"lengths":"16..=64 accepted, 0..=15 and 65..=80 rejected"}));
                    }
                }
            }
        }
    }
}
