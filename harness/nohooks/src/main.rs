//! C15, second build: the released blocks of dryoc's page-aligned allocator as libc's free() receives them, in a plain
//! release build of the crate WITHOUT the verification hooks (a hook that reads the block before free() keeps a wipe
//! alive that the optimiser could otherwise delete as a dead store).
#![feature(allocator_api)]

#[path = "../../src/mon/heapwatch.rs"]
mod heapwatch;

use dryoc::protected::*;
use dryoc::types::*;

fn pattern(seed: u8, len: usize) -> Vec<u8> {
    (0..len).map(|i| 1 + ((i as u32 * 7 + seed as u32 * 13) % 255) as u8).collect()
}

fn wipe(v: &mut Vec<u8>) {
    // the harness's own copies of the pattern must not be mistaken for dryoc's: clear them before they are freed
    for b in v.iter_mut() {
        unsafe { std::ptr::write_volatile(b, 0) };
    }
}

struct Out {
    histories: usize,
    hits: usize,
}

fn check(o: &mut Out, history: &str, len: usize) {
    heapwatch::scan_live();
    o.histories += 1;
    for (addr, size, off, run, kind) in heapwatch::take_hits() {
        o.hits += 1;
        println!("HIT\t{}\tlen={}\t{}\tblock={:#x}\tblock_size={}\toffset={}\trun={}", history, len, if kind == 0 { "secret_pattern_in_block_given_to_free" } else { "secret_pattern_left_in_block_not_freed_after_drop" }, addr, size, off, run);
    }
}

fn main() {
    let args: Vec<String> = std::env::args().collect();
    let shard: usize = args.get(1).and_then(|s| s.parse().ok()).unwrap_or(0);
    let nshards: usize = args.get(2).and_then(|s| s.parse().ok()).unwrap_or(1);
    let reps: usize = args.get(3).and_then(|s| s.parse().ok()).unwrap_or(1);
    std::panic::set_hook(Box::new(|_| {})); // the unwinding histories panic on purpose
    heapwatch::enable();
    let mut o = Out { histories: 0, hits: 0 };
    let lens = [1usize, 16, 100, 1000, 4095, 4096, 4097, 5000, 8199, 20_000, 70_000, 140_000, 1_100_000];
    let mut case = 0usize;
    for rep in 0..reps {
        for (li, &len) in lens.iter().enumerate() {
            case += 1;
            if case % nshards != shard {
                continue;
            }
            let seed = (li * 7 + rep * 3 + 1) as u8;
            let mut src = pattern(seed, len);

            // ---- HeapBytes: drop
            {
                let h = HeapBytes::from(&src[..]);
                drop(h);
            }
            check(&mut o, "HeapBytes: fill, drop", len);
            // ---- grow across a reallocation, then drop
            {
                let mut h = HeapBytes::from(&src[..]);
                h.resize(len * 2 + 3000, 0x41);
                drop(h);
            }
            check(&mut o, "HeapBytes: fill, grow (reallocates), drop", len);
            // ---- amortised doubling: capacity not a page multiple, partially used
            {
                let mut h = HeapBytes::from(&src[..]);
                h.resize(len + len / 2 + 1, 0x42);
                h.as_mut_slice()[..len].copy_from_slice(&src);
                h.resize(len * 3 + 17, 0x43);
                drop(h);
            }
            check(&mut o, "HeapBytes: fill, grow twice, drop", len);
            // ---- shrink then drop (spare capacity holds the old tail)
            {
                let mut h = HeapBytes::from(&src[..]);
                h.resize(len / 2, 0);
                drop(h);
            }
            check(&mut o, "HeapBytes: fill, shrink, drop", len);
            // ---- clone, drop both
            {
                let h = HeapBytes::from(&src[..]);
                let c = h.clone();
                drop(h);
                drop(c);
            }
            check(&mut o, "HeapBytes: fill, clone, drop both", len);
            // ---- protected regions
            {
                if let Ok(r) = HeapBytes::from_slice_into_locked(&src) {
                    drop(r);
                }
            }
            check(&mut o, "Locked<HeapBytes>: from_slice_into_locked, drop", len);
            {
                if let Ok(mut r) = HeapBytes::from_slice_into_locked(&src) {
                    r.resize(len * 2 + 100, 0x44);
                    r.resize(len / 3, 0);
                    drop(r);
                }
            }
            check(&mut o, "Locked<HeapBytes>: grow by copy, shrink by copy, drop", len);
            {
                if let Ok(r) = HeapBytes::from_slice_into_locked(&src) {
                    if let Ok(u) = r.munlock() {
                        let c = u.clone();
                        if let Ok(ro) = u.mprotect_readonly() {
                            drop(ro);
                        }
                        drop(c);
                    }
                }
            }
            check(&mut o, "Locked<HeapBytes>: unlock, clone, read-only, drop both", len);
            {
                if let Ok(r) = HeapBytes::from_slice_into_readonly_locked(&src) {
                    if let Ok(u) = r.munlock() {
                        if let Ok(na) = u.mprotect_noaccess() {
                            drop(na);
                        }
                    }
                }
            }
            check(&mut o, "LockedRO<HeapBytes>: unlock, no-access, drop", len);
            // ---- containers released while a panic unwinds (spare capacity holds an old tail; one locked, one read-only)
            {
                let src2 = src.clone();
                let _ = std::panic::catch_unwind(move || {
                    let mut h = HeapBytes::from(&src2[..]);
                    h.resize(src2.len() / 2, 0);
                    let _l = HeapBytes::from_slice_into_locked(&src2).ok();
                    let _ro = HeapBytes::from_slice_into_locked(&src2).ok().and_then(|r| r.munlock().ok()).and_then(|r| r.mprotect_readonly().ok());
                    let mut grown = HeapBytes::from(&src2[..]);
                    grown.resize(src2.len() + 5000, 0x45);
                    grown.resize(src2.len() / 3, 0);
                    if !src2.is_empty() {
                        panic!("unwinding with live containers");
                    }
                });
            }
            check(&mut o, "HeapBytes: containers dropped by an unwinding panic", len);
            if len == 16 {
                let a: [u8; 16] = src[..16].try_into().unwrap();
                {
                    let h = HeapByteArray::<16>::from(&a);
                    let c = h.clone();
                    drop(h);
                    drop(c);
                }
                check(&mut o, "HeapByteArray<16>: fill, clone, drop both", len);
                {
                    if let Ok(r) = HeapByteArray::<16>::from_slice_into_locked(&a) {
                        drop(r);
                    }
                }
                check(&mut o, "Locked<HeapByteArray<16>>: from_slice_into_locked, drop", len);
            }
            wipe(&mut src);
        }
    }
    // ---- the same kinds of release in a forked child (a process that already released blocks, then forks): the child
    // ---- releases containers it inherited and containers it creates itself
    if shard == 0 {
        use std::io::Write;
        let inherited = HeapBytes::from(&pattern(0x33, 5000)[..]);
        let inherited_locked = HeapBytes::from_slice_into_locked(&pattern(0x34, 300)).ok();
        let _ = std::io::stdout().flush();
        let pid = unsafe { libc::fork() };
        if pid == 0 {
            let mut oc = Out { histories: 0, hits: 0 };
            drop(inherited);
            drop(inherited_locked);
            check(&mut oc, "HeapBytes: [forked child] drop containers inherited across fork() (one plain, one locked)", 5000);
            for len in [100usize, 5000] {
                let mut src = pattern(0x35, len);
                {
                    let mut h = HeapBytes::from(&src[..]);
                    h.resize(len * 2 + 3000, 0x41);
                    drop(h);
                }
                check(&mut oc, "HeapBytes: [forked child] fill, grow (reallocates), drop", len);
                {
                    let h = HeapBytes::from(&src[..]);
                    let c = h.clone();
                    drop(h);
                    drop(c);
                }
                check(&mut oc, "HeapBytes: [forked child] fill, clone, drop both", len);
                wipe(&mut src);
            }
            println!("CHILD	histories={}	hits={}", oc.histories, oc.hits);
            let _ = std::io::stdout().flush();
            unsafe { libc::_exit(0) };
        } else if pid > 0 {
            let mut status = 0i32;
            unsafe { libc::waitpid(pid, &mut status, 0) };
            if !(libc::WIFEXITED(status) && libc::WEXITSTATUS(status) == 0) {
                println!("HIT	HeapBytes: [forked child] histories	len=0	child_died_status_{}", status);
            }
            drop(inherited);
            drop(inherited_locked);
            check(&mut o, "HeapBytes: [parent after fork] drop", 5000);
        }
    }
    let (rec, freed, full) = heapwatch::counters();
    println!("SUMMARY\thistories={}\thits={}\trecorded={}\tfreed={}\ttable_full={}\tlive={}", o.histories, o.hits, rec, freed, full, heapwatch::live_blocks());
}
